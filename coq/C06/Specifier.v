(* C06 — model of Scenic's specifier resolution (definitions only; proofs in SpecifierProofs.v).

   Mirrors Constructible._resolveSpecifiers (src/scenic/core/object_types.py) step by step:
     0. duplicate-name check ("Cannot use X specifier to modify itself")
     1. normal specifiers in written order, properties in dict order: final-property error,
        tie check, override when the priority number is lower
     2. modifying specifiers: specify when strictly higher priority (or property unset),
        else modify once if the property is modifiable
     3. defaults for the properties that no specifier set (class order)
     4. DFS topological sort over [specifiers ++ added defaults] with grey/black states:
        cycle error, missing-dependency error, modifier-after-specifier edge
   Two variants are modelled:  [resolve_old] is the code as found in round 0 (tie check against the
   currently winning priority only; modifying specifiers never checked against final properties);
   [resolve] is the repaired algorithm (branch fix-C06-specifier-ties): tie check against every
   priority seen so far for the property, final check also for modifying specifiers.

   Names of properties and specifiers are interned as N by the harness; name 0 is reserved for
   "PropertyDefault". Priorities are Z (defaults carry -1). *)
From Coq Require Import ZArith NArith List Bool.
Import ListNotations.
Open Scope Z_scope.

Definition prop := N.

Record spec := mkSpec {
  sname : N;                    (* Specifier.name *)
  prios : list (prop * Z);      (* Specifier.priorities, in dict order *)
  deps : list prop;             (* Specifier.requiredProperties (sorted tuple) *)
  is_mod : bool;                (* isinstance(spec, ModifyingSpecifier) *)
  modifiable : list prop        (* ModifyingSpecifier.modifiable_props *)
}.

Inductive err := ESelfModify | EFinal | EAmbiguous | EModifiedTwice | ECycle | EMissingDep | EFuel.

Inductive result (A : Type) := OK (a : A) | Err (e : err).
Arguments OK {A} a.
Arguments Err {A} e.

(* ---- decidable equalities *)
Definition pz_eq_dec : forall a b : prop * Z, {a = b} + {a <> b}.
Proof. decide equality; [apply Z.eq_dec | apply N.eq_dec]. Defined.

Definition spec_eq_dec : forall a b : spec, {a = b} + {a <> b}.
Proof.
  decide equality.
  - apply (list_eq_dec N.eq_dec).
  - apply bool_dec.
  - apply (list_eq_dec N.eq_dec).
  - apply (list_eq_dec pz_eq_dec).
  - apply N.eq_dec.
Defined.

Definition spec_eqb (a b : spec) : bool := if spec_eq_dec a b then true else false.
Definition memN (x : N) (l : list N) : bool := existsb (N.eqb x) l.
Definition mem_pz (x : prop * Z) (l : list (prop * Z)) : bool :=
  existsb (fun y => N.eqb (fst x) (fst y) && Z.eqb (snd x) (snd y)) l.
Definition mem_spec (x : spec) (l : list spec) : bool := existsb (spec_eqb x) l.

(* ---- Python dicts keyed by property: association lists, newest binding first *)
Definition amap (V : Type) := list (prop * V).
Fixpoint lookup {V} (m : amap V) (p : prop) : option V :=
  match m with
  | [] => None
  | (q, v) :: m' => if N.eqb p q then Some v else lookup m' p
  end.
Definition set {V} (p : prop) (v : V) (m : amap V) : amap V := (p, v) :: m.

(* ---- step 0: a specifier name used twice *)
Fixpoint nodupb (l : list N) : bool :=
  match l with [] => true | x :: r => negb (memN x r) && nodupb r end.

(* ---- the iteration "for spec in specs: for prop in spec.priorities" *)
Definition triple := (spec * prop * Z)%type.
Definition triples_of (s : spec) : list triple := map (fun pk => (s, fst pk, snd pk)) (prios s).
Definition triples (ss : list spec) : list triple := flat_map triples_of ss.

Definition pmap := amap (spec * Z).   (* properties[] and priorities[] kept together *)

(* ---- step 1, as found: tie check against the currently winning priority only *)
Fixpoint normal_old (finals : list prop) (T : list triple) (m : pmap) : result pmap :=
  match T with
  | [] => OK m
  | (s, p, k) :: T' =>
      if memN p finals then Err EFinal else
      match lookup m p with
      | Some (_, k0) =>
          if k =? k0 then Err EAmbiguous
          else normal_old finals T' (if k <? k0 then set p (s, k) m else m)
      | None => normal_old finals T' (set p (s, k) m)
      end
  end.

(* ---- step 1, repaired: tie check against every priority seen so far for the property *)
Fixpoint normal_new (finals : list prop) (T : list triple) (seen : list (prop * Z)) (m : pmap)
  : result pmap :=
  match T with
  | [] => OK m
  | (s, p, k) :: T' =>
      if memN p finals then Err EFinal else
      if mem_pz (p, k) seen then Err EAmbiguous else
      normal_new finals T' ((p, k) :: seen)
        (match lookup m p with
         | Some (_, k0) => if k <? k0 then set p (s, k) m else m
         | None => set p (s, k) m
         end)
  end.

(* ---- step 2: modifying specifiers ([fixed] = also refuse final properties) *)
Fixpoint modify (fixed : bool) (finals : list prop) (T : list triple) (m : pmap) (g : amap spec)
  : result (pmap * amap spec) :=
  match T with
  | [] => OK (m, g)
  | (s, p, k) :: T' =>
      if fixed && memN p finals then Err EFinal else
      match lookup m p with
      | Some (_, k0) =>
          if k <? k0 then modify fixed finals T' (set p (s, k) m) g
          else if memN p (modifiable s) then
            match lookup g p with
            | Some _ => Err EModifiedTwice
            | None => modify fixed finals T' m (set p s g)
            end
          else modify fixed finals T' m g
      | None => modify fixed finals T' (set p (s, k) m) g
      end
  end.

(* ---- step 3: defaults (class order) for the properties not set by any specifier *)
Fixpoint add_defaults (defaults : list (prop * spec)) (m : pmap) (added : list spec)
  : pmap * list spec :=
  match defaults with
  | [] => (m, added)
  | (p, d) :: ds =>
      match lookup m p with
      | Some _ => add_defaults ds m added
      | None => add_defaults ds (set p (d, -1) m) (added ++ [d])
      end
  end.

(* ---- step 4: dependency graph and DFS *)
(* modifying_inv[spec]: the last property inserted into modifying[] with this specifier *)
Definition mod_inv (g : amap spec) (v : spec) : option prop :=
  option_map fst (find (fun pv => spec_eqb (snd pv) v) g).

Definition supplier (m : pmap) (g : amap spec) (d : prop) : option spec :=
  match lookup g d with
  | Some x => Some x
  | None => option_map fst (lookup m d)
  end.

Definition children (m : pmap) (g : amap spec) (v : spec) : list (option spec) :=
  map (supplier m g) (deps v) ++
  match mod_inv g v with
  | Some p => [option_map fst (lookup m p)]
  | None => []
  end.

Section DFS.
  Variable ch : spec -> list (option spec).

  Fixpoint go (vis : spec -> list spec -> result (list spec)) (cs : list (option spec))
    (done : list spec) : result (list spec) :=
    match cs with
    | [] => OK done
    | None :: _ => Err EMissingDep
    | Some c :: cs' =>
        match vis c done with
        | OK d' => go vis cs' d'
        | Err e => Err e
        end
    end.

  Fixpoint visit (fuel : nat) (v : spec) (grey done : list spec) : result (list spec) :=
    match fuel with
    | O => Err EFuel
    | S f =>
        if mem_spec v done then OK done
        else if mem_spec v grey then Err ECycle
        else match go (fun c d => visit f c (v :: grey) d) (ch v) done with
             | OK d' => OK (d' ++ [v])
             | Err e => Err e
             end
    end.

  Fixpoint visit_all (fuel : nat) (roots : list spec) (done : list spec) : result (list spec) :=
    match roots with
    | [] => OK done
    | v :: r =>
        match visit fuel v [] done with
        | OK d' => visit_all fuel r d'
        | Err e => Err e
        end
    end.
End DFS.

Record resolved := mkRes {
  r_props : pmap;           (* property -> (specifier that specifies it, its priority) *)
  r_mods : amap spec;       (* property -> specifier that modifies it *)
  r_all : list spec;        (* specifiers ++ defaults added *)
  r_order : list spec       (* evaluation order *)
}.

Definition normal_phase (fixed : bool) finals (T : list triple) : result pmap :=
  if fixed then normal_new finals T [] [] else normal_old finals T [].

Definition resolve_gen (fixed : bool) (specs : list spec) (defaults : list (prop * spec))
  (finals : list prop) : result resolved :=
  if negb (nodupb (map sname specs)) then Err ESelfModify else
  match normal_phase fixed finals (triples (filter (fun s => negb (is_mod s)) specs)) with
  | Err e => Err e
  | OK m1 =>
      match modify fixed finals (triples (filter is_mod specs)) m1 [] with
      | Err e => Err e
      | OK (m2, g) =>
          let '(m3, added) := add_defaults defaults m2 [] in
          let all := specs ++ added in
          match visit_all (children m3 g) (S (length all)) all [] with
          | Err e => Err e
          | OK order => OK (mkRes m3 g all order)
          end
      end
  end.

Definition resolve := resolve_gen true.
Definition resolve_old := resolve_gen false.

(* ---- class-level merging of defaults (Constructible.__init_subclass__, PropertyDefault.resolveFor).
   A class in the MRO contributes [(prop, (deps, additive, dynamic, final))] in definition order;
   [mro] lists the classes most derived first. *)
Record pdef := mkPdef { d_deps : list prop; d_additive : bool; d_dynamic : bool; d_final : bool }.

Definition class_props := list (prop * pdef).

Fixpoint all_defs (mro : list class_props) (acc : amap (list pdef)) (order : list prop)
  : amap (list pdef) * list prop :=
  match mro with
  | [] => (acc, order)
  | c :: rest =>
      let '(acc', order') :=
        fold_left (fun (st : amap (list pdef) * list prop) (pd : prop * pdef) =>
                     let '(a, o) := st in
                     match lookup a (fst pd) with
                     | Some l => (set (fst pd) (l ++ [snd pd]) a, o)
                     | None => (set (fst pd) [snd pd] a, o ++ [fst pd])
                     end) c (acc, order) in
      all_defs rest acc' order'
  end.

Fixpoint union_deps (a b : list prop) : list prop :=
  match b with
  | [] => a
  | x :: r => if memN x a then union_deps a r else union_deps (a ++ [x]) r
  end.

Inductive merged := Merged (defaults : list (prop * spec)) (finals dynamics : list prop) | OverridesFinal (p : prop).

(* default specifier for one property: primary = most derived definition *)
Definition default_spec (p : prop) (defs : list pdef) : option spec :=
  match defs with
  | [] => None
  | primary :: rest =>
      if existsb d_final rest then None
      else
        let ds := if d_additive primary
                  then fold_left (fun a d => union_deps a (d_deps d)) rest (d_deps primary)
                  else d_deps primary in
        Some (mkSpec 0%N [(p, -1)] ds false [])
  end.

Fixpoint merge_props (order : list prop) (a : amap (list pdef)) (ds : list (prop * spec))
  (fin dyn : list prop) : merged :=
  match order with
  | [] => Merged ds fin dyn
  | p :: r =>
      match lookup a p with
      | None => merge_props r a ds fin dyn
      | Some defs =>
          match default_spec p defs with
          | None => OverridesFinal p
          | Some s =>
              merge_props r a (ds ++ [(p, s)])
                (if match defs with d :: _ => d_final d | [] => false end then fin ++ [p] else fin)
                (if existsb d_dynamic defs then dyn ++ [p] else dyn)
          end
      end
  end.

Definition merge_defaults (mro : list class_props) : merged :=
  let '(a, order) := all_defs mro [] [] in merge_props order a [] [] [].
