(* C02 (round 2) — (a) the sort used by sortedRequirements is STABLE: any class of elements none of which
   is strictly smaller than another (ties of the cost key) keeps its list order; (b) BasicChecker: accept /
   reject soundness, accept <-> all mandatory requirements hold, and agreement with the weighted checker
   whatever order, state and clock the latter used. *)
From Coq Require Import ZArith List Bool Arith Lia.
From Scenic Require Import C02.Checker C02.CheckerProofs C02.Basic.
Import ListNotations.
Local Open Scope Z_scope.

(* ------------------------------------------------------------------ stability *)
Section Stable.
  Context {A : Type} (lt : A -> A -> bool).

  Lemma filter_insert_out : forall p x l, p x = false -> filter p (insert lt x l) = filter p l.
  Proof.
    intros p x l Hx. induction l as [|y l IH]; cbn [insert filter].
    - rewrite Hx. reflexivity.
    - destruct (lt y x); cbn [filter]; [rewrite IH; reflexivity | rewrite Hx; reflexivity].
  Qed.

  Lemma filter_insert_in : forall p x l, p x = true ->
    (forall y, p y = true -> lt y x = false) ->
    filter p (insert lt x l) = x :: filter p l.
  Proof.
    intros p x l Hx Hc. induction l as [|y l IH]; cbn [insert filter].
    - rewrite Hx. reflexivity.
    - destruct (lt y x) eqn:E; cbn [filter].
      + destruct (p y) eqn:Py; [rewrite (Hc y Py) in E; discriminate | exact IH].
      + rewrite Hx. reflexivity.
  Qed.

  (* ties keep list order: for every class p whose members are never strictly smaller than one another,
     the sorted list restricted to p is the original list restricted to p *)
  Theorem isort_stable : forall (p : A -> bool),
    (forall x y, p x = true -> p y = true -> lt y x = false) ->
    forall l, filter p (isort lt l) = filter p l.
  Proof.
    intros p Hc l. induction l as [|x l IH]; [reflexivity|]. cbn [isort filter].
    destruct (p x) eqn:Px.
    - rewrite filter_insert_in; [rewrite IH; reflexivity | exact Px | intros y Py; exact (Hc x y Px Py)].
    - rewrite filter_insert_out; [exact IH | exact Px].
  Qed.
End Stable.

(* the concrete checker: requirements whose cost keys are the same (cross-multiplied equality with the
   class representative's key is not needed: identical running sums suffice and are what ties are in
   practice: all-zero buffers at start, equal counts) keep their declaration order *)
Lemma cost_lt_irrefl : forall c, cost_lt c c = false.
Proof. destruct c; cbn; apply Z.ltb_irrefl. Qed.

Definition cost_eq_dec : forall a b : cost, {a = b} + {a <> b}.
Proof. decide equality; apply Z.eq_dec. Defined.

(* ties in the sense of the comparison itself: neither key is strictly smaller (1/2 and 2/4 tie) *)
Definition cost_tie (c1 c2 : cost) : bool := negb (cost_lt c1 c2) && negb (cost_lt c2 c1).
Definition den_pos (c : cost) : Prop := match c with CFin _ d => 0 < d | CInf _ => True end.

Lemma cost_of_den_pos : forall B r, den_pos (cost_of B r).
Proof.
  intros B r. unfold cost_of. destruct (sums r) as [a t]. destruct (a <? B) eqn:E; cbn; [|exact I].
  apply Z.ltb_lt in E. lia.
Qed.

Lemma cost_tie_class : forall c x y, den_pos c -> den_pos x -> den_pos y ->
  cost_tie x c = true -> cost_tie y c = true -> cost_lt y x = false.
Proof.
  intros c x y Dc Dx Dy Tx Ty. unfold cost_tie in *. rewrite andb_true_iff, !negb_true_iff in Tx, Ty.
  destruct Tx as [X1 X2]. destruct Ty as [Y1 Y2].
  destruct c as [nc dc|rc], x as [nx dx|rx], y as [ny dy|ry]; cbn in *; try discriminate; try reflexivity;
    rewrite ?Z.ltb_ge in *; try apply Z.ltb_ge; try lia.
  assert (E1 : nx * dc = nc * dx) by lia. assert (E2 : ny * dc = nc * dy) by lia.
  assert (E : (ny * dx) * dc = (nx * dy) * dc).
  { replace (ny * dx * dc) with ((ny * dc) * dx) by ring. replace (nx * dy * dc) with ((nx * dc) * dy) by ring.
    rewrite E1, E2. ring. }
  apply Z.mul_reg_r in E; lia.
Qed.

Theorem sorted_ties_keep_order : forall B st c rs, den_pos c ->
  let p := fun r => cost_tie (cost_of (Z.of_nat B) (get st (rid r))) c in
  filter p (isort (key_lt B st) (filter active rs)) = filter p (filter active rs).
Proof.
  intros B st c rs Dc p. apply isort_stable. intros x y Px Py. unfold p in Px, Py. unfold key_lt.
  apply (cost_tie_class c); auto using cost_of_den_pos.
Qed.

(* in particular the requirements tied with a given requirement q keep their declaration order *)
Corollary sorted_ties_with_keep_order : forall B st q rs,
  let p := fun r => cost_tie (cost_of (Z.of_nat B) (get st (rid r))) (cost_of (Z.of_nat B) (get st (rid q))) in
  filter p (isort (key_lt B st) (filter active rs)) = filter p (filter active rs).
Proof. intros B st q rs. apply sorted_ties_keep_order. apply cost_of_den_pos. Qed.

(* dropping trailing optional requirements only removes a suffix, so it cannot reorder either *)
Theorem sorted_requirements_prefix : forall lt rs,
  exists t, isort lt (filter active rs) = sorted_requirements_with lt rs ++ t /\
            Forall (fun r => optional r = true) t.
Proof. intros lt rs. unfold sorted_requirements_with. apply dto_prefix. Qed.

(* ------------------------------------------------------------------ BasicChecker *)
Lemma basic_run_accept : forall s l,
  basic_run s l = Accept <-> (forall r, In r l -> active r = true -> s (rid r) = false).
Proof.
  induction l as [|x l IH]; cbn [basic_run].
  - split; [intros _ r []|reflexivity].
  - destruct (active x) eqn:Ea; cbn [andb].
    + destruct (s (rid x)) eqn:Es.
      * split; [discriminate|]. intro H. specialize (H x (or_introl eq_refl) Ea). congruence.
      * rewrite IH. split.
        -- intros H r [Hr|Hr] Ha; [subst; exact Es | exact (H r Hr Ha)].
        -- intros H r Hr Ha. apply H; [right; exact Hr | exact Ha].
    + rewrite IH. split.
      * intros H r [Hr|Hr] Ha; [subst; congruence | exact (H r Hr Ha)].
      * intros H r Hr Ha. apply H; [right; exact Hr | exact Ha].
Qed.

Lemma basic_run_reject : forall s l k, basic_run s l = Reject k ->
  exists r, In r l /\ active r = true /\ rid r = k /\ s k = true.
Proof.
  induction l as [|x l IH]; intros k; cbn [basic_run]; [discriminate|].
  destruct (active x && s (rid x)) eqn:E.
  - intro H; injection H as H. apply andb_true_iff in E. destruct E as [Ea Es].
    exists x. subst k. repeat split; [left; reflexivity | exact Ea | exact Es].
  - intro H. destruct (IH k H) as (r & Hr & Ha & Hk & Hs). exists r. repeat split; auto. right; exact Hr.
Qed.

Lemma basic_targets_In : forall icc rs r, In r (basic_targets icc rs) -> In r (map b_req rs).
Proof.
  intros icc rs r H. unfold basic_targets in H. apply in_map_iff in H. destruct H as (b & E & Hb).
  apply filter_In in Hb. apply in_map_iff. exists b. tauto.
Qed.

Lemma basic_targets_mandatory : forall icc rs r, In r (map b_req rs) -> optional r = false ->
  In r (basic_targets icc rs).
Proof.
  intros icc rs r H Ho. apply in_map_iff in H. destruct H as (b & E & Hb). subst r.
  unfold basic_targets. apply in_map. apply filter_In. split; [exact Hb|].
  unfold basic_keep. rewrite Ho. reflexivity.
Qed.

Theorem basic_accept_sound : forall icc rs s,
  basic_check icc rs s = Accept -> all_mandatory_hold (map b_req rs) s.
Proof.
  intros icc rs s H r Hr Ha Ho. unfold basic_check in H. rewrite basic_run_accept in H.
  apply H; [apply basic_targets_mandatory; assumption | exact Ha].
Qed.

Theorem basic_reject_sound : forall icc rs s k, basic_check icc rs s = Reject k ->
  exists r, In r (map b_req rs) /\ active r = true /\ rid r = k /\ s k = true.
Proof.
  intros icc rs s k H. apply basic_run_reject in H. destruct H as (r & Hr & Ha & Hk & Hs).
  exists r. repeat split; auto. exact (basic_targets_In icc rs r Hr).
Qed.

Theorem basic_accept_iff : forall icc rs s, optional_implied (map b_req rs) s ->
  (basic_check icc rs s = Accept <-> all_mandatory_hold (map b_req rs) s).
Proof.
  intros icc rs s Hopt; split; [apply basic_accept_sound|].
  intro Hall. destruct (basic_check icc rs s) as [|k] eqn:E; [reflexivity|]. exfalso.
  apply basic_reject_sound in E. destruct E as (r & Hr & Ha & Hk & Hs). subst k.
  destruct (optional r) eqn:O.
  - destruct (Hopt r Hr Ha O Hs) as (r' & Hr' & Ha' & Ho' & Hs').
    rewrite (Hall r' Hr' Ha' Ho') in Hs'. discriminate.
  - rewrite (Hall r Hr Ha O) in Hs. discriminate.
Qed.

(* both checkers give the same accept / reject verdict on every sample, whatever the weighted checker's
   order, buffer state and clock, and whether or not the basic checker keeps the blanket pre-check *)
Theorem basic_agrees_with_weighted : forall icc rs s lt st durs,
  optional_implied (map b_req rs) s ->
  is_accept (basic_check icc rs s) = is_accept (snd (check_with lt st (map b_req rs) s durs)).
Proof.
  intros icc rs s lt st durs Hopt.
  pose proof (basic_accept_iff icc rs s Hopt) as H1.
  pose proof (accept_iff lt st (map b_req rs) s durs Hopt) as H2.
  destruct (basic_check icc rs s) eqn:E1; destruct (snd (check_with lt st (map b_req rs) s durs)) eqn:E2;
    cbn [is_accept]; try reflexivity; exfalso.
  - assert (X : Reject r = Accept) by (apply H2, H1; reflexivity). discriminate.
  - assert (X : Reject r = Accept) by (apply H1, H2; reflexivity). discriminate.
Qed.

(* non-vacuity: with 3 intersection requirements and initialCollisionCheck the optional blanket check is kept
   (and can reject), without it the same sample reaches the mandatory requirement *)
Example basic_example :
  let rs := [mkB (mkReq 0 true true) true false; mkB (mkReq 1 false true) false true;
             mkB (mkReq 2 false true) false true; mkB (mkReq 3 false true) false true] in
  let s := fun i => Nat.eqb i 0 || Nat.eqb i 2 in
  basic_check true rs s = Reject 0 /\ basic_check false rs s = Reject 2 /\
  basic_check true rs (fun _ => false) = Accept.
Proof. repeat split. Qed.
