(* C02 (round 2) — model of scenic.core.sample_checking.BasicChecker (definitions only).
   setRequirements keeps every mandatory requirement and drops every optional one, except the blanket
   collision pre-check when initialCollisionCheck is set and the requirement list holds at least three
   pairwise IntersectionRequirements; checkRequirementsInner runs the kept requirements in list order and
   reports the first active, falsified one. *)
From Coq Require Import ZArith List Bool Arith.
From Scenic Require Import C02.Checker.
Import ListNotations.

Record breq := mkB { b_req : req; b_blanket : bool; b_inter : bool }.

Definition n_inter (rs : list breq) : nat := length (filter b_inter rs).

Definition basic_keep (icc : bool) (rs : list breq) (r : breq) : bool :=
  if optional (b_req r) then b_blanket r && icc && (3 <=? n_inter rs) else true.

Definition basic_targets (icc : bool) (rs : list breq) : list req :=
  map b_req (filter (basic_keep icc rs) rs).

Fixpoint basic_run (s : sample) (l : list req) : verdict :=
  match l with
  | [] => Accept
  | r :: l' => if active r && s (rid r) then Reject (rid r) else basic_run s l'
  end.

Definition basic_check (icc : bool) (rs : list breq) (s : sample) : verdict :=
  basic_run s (basic_targets icc rs).
