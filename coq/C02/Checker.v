(* C02 — model of scenic.core.sample_checking.WeightedAcceptanceChecker (definitions only).

   A requirement is identified by its index [rid] in the checker's requirement tuple; the
   requirement predicate [falsifiedBy] is an oracle table (a [sample] maps rid -> "falsified").
   Times are integers (ticks of the patched clock); every quantity the Python code derives from
   them is compared by cross-multiplication, so no rational arithmetic is needed:
     runtime = sum_time / B,  rej_prob = 1 - sum_acc / B = (B - sum_acc) / B,
     cost = (runtime / rej_prob, 0) = (sum_time / (B - sum_acc), 0)   if rej_prob > 0
          = (inf, runtime)                                              otherwise.            *)
From Coq Require Import ZArith List Bool.
Import ListNotations.
Local Open Scope Z_scope.

Record req := mkReq { rid : nat; optional : bool; active : bool }.

(* the sample as the checker sees it: which requirements it falsifies *)
Definition sample := nat -> bool.

Inductive verdict := Accept | Reject (r : nat).

(* ---------------------------------------------------------------- metrics *)
Definition metric := (Z * Z)%type.             (* (accepted 0/1, time taken) *)
Record rstate := mkRS { buf : list metric; sums : metric }.
Definition cstate := list rstate.              (* indexed by rid *)

Definition init_rstate (B : nat) : rstate := mkRS (repeat (0, 0) B) (0, 0).
Definition init_state (B n : nat) : cstate := repeat (init_rstate B) n.

(* updateMetrics: popleft, append, adjust the running sums.  (popleft on an empty deque raises;
   bufferSize = 0 is excluded by every theorem, the model leaves the state alone.) *)
Definition update_rstate (m : metric) (r : rstate) : rstate :=
  match buf r with
  | [] => r
  | old :: rest =>
      mkRS (rest ++ [m]) (fst (sums r) + (fst m - fst old), snd (sums r) + (snd m - snd old))
  end.

Fixpoint upd {A} (l : list A) (i : nat) (f : A -> A) : list A :=
  match l, i with
  | [], _ => []
  | x :: l', O => f x :: l'
  | x :: l', S i' => x :: upd l' i' f
  end.

Definition dflt_rstate : rstate := mkRS [] (0, 0).
Definition get (st : cstate) (i : nat) : rstate := nth i st dflt_rstate.

(* ---------------------------------------------------------------- cost key *)
Inductive cost := CFin (num den : Z) | CInf (runtime : Z).

Definition cost_of (B : Z) (r : rstate) : cost :=
  let '(a, t) := sums r in
  if a <? B then CFin t (B - a) else CInf t.

(* Python compares the key tuples with [<] lexicographically *)
Definition cost_lt (c1 c2 : cost) : bool :=
  match c1, c2 with
  | CFin n1 d1, CFin n2 d2 => n1 * d2 <? n2 * d1
  | CFin _ _, CInf _ => true
  | CInf _, CFin _ _ => false
  | CInf r1, CInf r2 => r1 <? r2
  end.

(* ---------------------------------------------------------------- sortedRequirements *)
Section Sort.
  Context {A : Type} (lt : A -> A -> bool).
  (* stable insertion sort: x goes before the first y that is not strictly smaller *)
  Fixpoint insert (x : A) (l : list A) : list A :=
    match l with
    | [] => [x]
    | y :: l' => if lt y x then y :: insert x l' else x :: y :: l'
    end.
  Fixpoint isort (l : list A) : list A :=
    match l with
    | [] => []
    | x :: l' => insert x (isort l')
    end.
End Sort.

(* "while reqs and reqs[-1].optional: reqs.pop()" *)
Fixpoint drop_trailing_optional (l : list req) : list req :=
  match l with
  | [] => []
  | r :: l' =>
      match drop_trailing_optional l' with
      | [] => if optional r then [] else [r]
      | l'' => r :: l''
      end
  end.

Definition sorted_requirements_with (lt : req -> req -> bool) (rs : list req) : list req :=
  drop_trailing_optional (isort lt (filter active rs)).

Definition key_lt (B : nat) (st : cstate) (a b : req) : bool :=
  cost_lt (cost_of (Z.of_nat B) (get st (rid a))) (cost_of (Z.of_nat B) (get st (rid b))).

Definition sorted_requirements (B : nat) (st : cstate) (rs : list req) : list req :=
  sorted_requirements_with (key_lt B st) rs.

(* ---------------------------------------------------------------- checkRequirementsInner *)
(* [durs]: the durations the (adversarial) clock reports, one per requirement actually run *)
Fixpoint run_list (s : sample) (durs : list Z) (st : cstate) (l : list req) : cstate * verdict :=
  match l with
  | [] => (st, Accept)
  | r :: l' =>
      let rej := s (rid r) in
      let m := (if rej then 0 else 1, hd 0 durs) in
      let st' := upd st (rid r) (update_rstate m) in
      if rej then (st', Reject (rid r)) else run_list s (tl durs) st' l'
  end.

Definition check_with (lt : req -> req -> bool) (st : cstate) (rs : list req) (s : sample)
           (durs : list Z) : cstate * verdict :=
  run_list s durs st (sorted_requirements_with lt rs).

Definition check (B : nat) (st : cstate) (rs : list req) (s : sample) (durs : list Z)
  : cstate * verdict :=
  check_with (key_lt B st) st rs s durs.

(* ---------------------------------------------------------------- histories *)
Record step := mkStep { h_rs : list req; h_s : sample; h_durs : list Z }.

Fixpoint run_history (B : nat) (st : cstate) (h : list step) : cstate :=
  match h with
  | [] => st
  | x :: h' => run_history B (fst (check B st (h_rs x) (h_s x) (h_durs x))) h'
  end.

(* ---------------------------------------------------------------- specification side *)
Definition all_mandatory_hold (rs : list req) (s : sample) : Prop :=
  forall r, In r rs -> active r = true -> optional r = false -> s (rid r) = false.

Definition all_active_hold (rs : list req) (s : sample) : Prop :=
  forall r, In r rs -> active r = true -> s (rid r) = false.

(* a falsified optional requirement implies a falsified mandatory one *)
Definition optional_implied (rs : list req) (s : sample) : Prop :=
  forall r, In r rs -> active r = true -> optional r = true -> s (rid r) = true ->
  exists r', In r' rs /\ active r' = true /\ optional r' = false /\ s (rid r') = true.

Definition is_accept (v : verdict) : bool := match v with Accept => true | Reject _ => false end.

Definition sumf (f : metric -> Z) (l : list metric) : Z := fold_right (fun m a => f m + a) 0 l.

Definition rs_inv (B : nat) (r : rstate) : Prop :=
  length (buf r) = B /\
  sums r = (sumf fst (buf r), sumf snd (buf r)) /\
  Forall (fun m => fst m = 0 \/ fst m = 1) (buf r).

Definition st_inv (B : nat) (st : cstate) : Prop := Forall (rs_inv B) st.
