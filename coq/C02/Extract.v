(* Extraction of the C02 model to OCaml (volume path of the correspondence check).
   Directives: ExtrOcamlBasic only; Z, positive, nat stay the extracted inductive types. *)
From Coq Require Import ZArith List.
From Coq Require Extraction.
From Coq Require Import ExtrOcamlBasic.
From Coq Require Import QArith.
From Scenic Require Import C02.Checker C02.Defaults C02.DefaultsProofs C02.Basic.
From Scenic Require Import C17.Vec C04.Polytope.   (* certificate checkers for the exact scene oracle (proved sound in C04) *)
Extraction Language OCaml.
Extraction "model.ml" init_state check sorted_requirements get
  default_requirements default_requirements_oneshot dfals all_hold_b doptional
  basic_check separates common_point Qplus Qdiv Qred Qle_bool.
