(* Extraction of the C02 model to OCaml (volume path of the correspondence check).
   Directives: ExtrOcamlBasic only; Z, positive, nat stay the extracted inductive types. *)
From Coq Require Import ZArith List.
From Coq Require Extraction.
From Coq Require Import ExtrOcamlBasic.
From Scenic Require Import C02.Checker C02.Defaults C02.DefaultsProofs.
Extraction Language OCaml.
Extraction "model.ml" init_state check sorted_requirements get
  default_requirements default_requirements_oneshot dfals all_hold_b doptional.
