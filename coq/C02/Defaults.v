(* C02 — model of Scenario.generateDefaultRequirements (scenarios.py) and of the built-in
   requirement classes (requirements.py), plus the specification SceneOK.  Definitions only.

   Instances are identified by their index in Scenario._instances.  Static flags may be constants
   or random values ("needsSampling"); the geometry predicates are oracles of the sampled scene. *)
From Coq Require Import ZArith List Bool Arith.
From Scenic Require Import C02.Checker.
Import ListNotations.

Inductive tri := TFalse | TTrue | TRandom.

Record inst := mkInst {
  allow_coll : tri;            (* obj.allowCollisions *)
  has_container : bool;        (* containerOfObject(obj) is not AllRegion *)
  observing : option nat;      (* _observingEntity *)
  non_observing : option nat;  (* _nonObservingEntity *)
  require_visible : bool;      (* requireVisible *)
  occluding : tri }.           (* occluding *)

Record scen := mkScen {
  insts : list nat;            (* Scenario._instances (Points, OrientedPoints, Objects) *)
  objs : list nat;             (* Scenario.objects: ego first *)
  ego : option nat;
  fl : nat -> inst }.

Inductive dreq :=
| RBlanket (os : list nat)
| RInter (a b : nat)
| RContain (o : nat)
| RVis (src tgt : nat) (occ : list nat)
| RNotVis (src tgt : nat) (occ : list nat).

Definition doptional (r : dreq) : bool := match r with RBlanket _ => true | _ => false end.

(* itertools.combinations(l, 2) *)
Fixpoint pairs (l : list nat) : list (nat * nat) :=
  match l with
  | [] => []
  | x :: l' => map (pair x) l' ++ pairs l'
  end.

Definition may_collide (sc : scen) (o : nat) : bool :=
  match allow_coll (fl sc o) with TTrue => false | _ => true end.
Definition may_occlude (sc : scen) (o : nat) : bool :=
  match occluding (fl sc o) with TFalse => false | _ => true end.

(* VisibilityRequirement.__init__: drop source and target from the object list handed in *)
Definition others (src tgt : nat) (l : list nat) : list nat :=
  filter (fun o => negb (o =? src) && negb (o =? tgt)) l.

Definition possible_occluders (sc : scen) : list nat := filter (may_occlude sc) (objs sc).

Definition inter_reqs (sc : scen) : list dreq :=
  map (fun p => RInter (fst p) (snd p)) (pairs (filter (may_collide sc) (objs sc))).

Definition contain_reqs (sc : scen) : list dreq :=
  map RContain (filter (fun o => has_container (fl sc o)) (objs sc)).

(* repaired behaviour: every requirement sees the whole (materialised) list *)
Definition vis_reqs (sc : scen) (poss : list nat) : list dreq :=
  flat_map (fun i => match observing (fl sc i) with
                     | Some s => [RVis s i (others s i poss)] | None => [] end) (insts sc).
Definition notvis_reqs (sc : scen) (poss : list nat) : list dreq :=
  flat_map (fun i => match non_observing (fl sc i) with
                     | Some s => [RNotVis s i (others s i poss)] | None => [] end) (insts sc).

(* requireVisible: the ego must see the object; without an ego this is InvalidScenarioError *)
Definition reqvis_reqs (sc : scen) : option (list dreq) :=
  match ego sc with
  | Some e => Some (flat_map (fun o => if require_visible (fl sc o) && negb (o =? e)
                                       then [RVis e o (others e o (objs sc))] else []) (objs sc))
  | None => if existsb (fun o => require_visible (fl sc o)) (objs sc) then None else Some []
  end.

Definition default_requirements (sc : scen) : option (list dreq) :=
  match reqvis_reqs sc with
  | None => None
  | Some rv =>
      Some (RBlanket (objs sc) :: inter_reqs sc ++ contain_reqs sc
              ++ vis_reqs sc (possible_occluders sc) ++ notvis_reqs sc (possible_occluders sc) ++ rv)
  end.

(* behaviour before the repair (finding F3): [possible_occluders] was a one-shot [filter]
   iterator shared by all the 'visible from' / 'not visible from' requirements; whichever is
   constructed first exhausts it. *)
Fixpoint oneshot (mk : nat -> nat -> list nat -> dreq) (field : inst -> option nat) (f : nat -> inst)
         (is : list nat) (it : list nat) : list dreq * list nat :=
  match is with
  | [] => ([], it)
  | i :: is' =>
      match field (f i) with
      | Some s => let '(rs, it') := oneshot mk field f is' [] in (mk s i (others s i it) :: rs, it')
      | None => oneshot mk field f is' it
      end
  end.

Definition default_requirements_oneshot (sc : scen) : option (list dreq) :=
  match reqvis_reqs sc with
  | None => None
  | Some rv =>
      let '(v, it) := oneshot RVis observing (fl sc) (insts sc) (possible_occluders sc) in
      let '(nv, _) := oneshot RNotVis non_observing (fl sc) (insts sc) it in
      Some (RBlanket (objs sc) :: inter_reqs sc ++ contain_reqs sc ++ v ++ nv ++ rv)
  end.

(* ---------------------------------------------------------------- the sampled scene *)
Record world := mkWorld {
  w_allow : nat -> bool;                    (* sampled allowCollisions *)
  w_occl : nat -> bool;                     (* sampled occluding *)
  w_inter : nat -> nat -> bool;             (* objA.intersects(objB) *)
  w_surf : nat -> nat -> bool;              (* FCL surface collision of the pair *)
  w_contained : nat -> bool;                (* container.containsObject(obj) *)
  w_cansee : nat -> nat -> list nat -> bool (* source.canSee(target, occludingObjects) *) }.

Definition tri_agrees (t : tri) (b : bool) : Prop :=
  match t with TTrue => b = true | TFalse => b = false | TRandom => True end.

Definition consistent (sc : scen) (w : world) : Prop :=
  forall o, tri_agrees (allow_coll (fl sc o)) (w_allow w o) /\ tri_agrees (occluding (fl sc o)) (w_occl w o).

(* falsifiedByInner of each class *)
Definition dfals (w : world) (r : dreq) : bool :=
  match r with
  | RBlanket os => existsb (fun p => w_surf w (fst p) (snd p)) (pairs (filter (fun o => negb (w_allow w o)) os))
  | RInter a b => if w_allow w a || w_allow w b then false else w_inter w a b
  | RContain o => negb (w_contained w o)
  | RVis s t occ => negb (w_cansee w s t (filter (w_occl w) occ))
  | RNotVis s t occ => w_cansee w s t (filter (w_occl w) occ)
  end.

(* ---------------------------------------------------------------- specification *)
(* the occluders that count: all occluding objects other than source and target *)
Definition occluders_spec (sc : scen) (w : world) (s t : nat) : list nat :=
  filter (fun o => (negb (o =? s) && negb (o =? t)) && w_occl w o) (objs sc).

Record SceneOK (sc : scen) (w : world) : Prop := mkOK {
  ok_disjoint : forall a b, In (a, b) (pairs (objs sc)) ->
      w_allow w a = false -> w_allow w b = false -> w_inter w a b = false;
  ok_contained : forall o, In o (objs sc) -> has_container (fl sc o) = true -> w_contained w o = true;
  ok_visible : forall i s, In i (insts sc) -> observing (fl sc i) = Some s ->
      w_cansee w s i (occluders_spec sc w s i) = true;
  ok_notvisible : forall i s, In i (insts sc) -> non_observing (fl sc i) = Some s ->
      w_cansee w s i (occluders_spec sc w s i) = false;
  ok_reqvis : forall o e, In o (objs sc) -> require_visible (fl sc o) = true -> ego sc = Some e ->
      o <> e -> w_cansee w e o (occluders_spec sc w e o) = true }.

Definition all_hold (w : world) (l : list dreq) : Prop :=
  forall r, In r l -> doptional r = false -> dfals w r = false.

(* hand the default requirements to the checker: rid = position in the tuple *)
Definition number (start : nat) (l : list dreq) : list req :=
  map (fun p => mkReq (fst p) (doptional (snd p)) true) (combine (seq start (length l)) l).

Definition dsample (w : world) (l : list dreq) (u : sample) : sample :=
  fun i => if i <? length l then dfals w (nth i l (RContain 0)) else u i.
