(* C02 — lemmas about the checker model. *)
From Coq Require Import ZArith List Bool Lia Permutation Sorted.
From Scenic Require Import C02.Checker.
Import ListNotations.
Local Open Scope Z_scope.

(* ------------------------------------------------------------------ sorting *)
Section SortFacts.
  Context {A : Type} (lt : A -> A -> bool).

  Lemma insert_perm : forall x l, Permutation (insert lt x l) (x :: l).
  Proof.
    induction l as [|y l IH]; cbn [insert]; [reflexivity|].
    destruct (lt y x); [|reflexivity].
    rewrite IH. apply perm_swap.
  Qed.

  Lemma isort_perm : forall l, Permutation (isort lt l) l.
  Proof.
    induction l as [|x l IH]; cbn [isort]; [reflexivity|].
    rewrite insert_perm. now constructor.
  Qed.

  Lemma isort_In : forall a l, In a (isort lt l) <-> In a l.
  Proof.
    intros a l; split; intro H.
    - eapply Permutation_in; [apply isort_perm|exact H].
    - eapply Permutation_in; [apply Permutation_sym, isort_perm|exact H].
  Qed.

  (* the result is ordered whenever [lt] is asymmetric (any strict weak order is) *)
  Definition le_of (a b : A) : Prop := lt b a = false.

  Lemma insert_sorted : (forall a b, lt a b = true -> lt b a = false) ->
    forall x l, Sorted le_of l -> Sorted le_of (insert lt x l).
  Proof.
    intros Hasym x l Hs. induction Hs as [|y l Hs IH Hhd]; cbn [insert].
    - repeat constructor.
    - destruct (lt y x) eqn:E.
      + constructor; [exact IH|].
        destruct l as [|z l]; cbn [insert].
        * constructor. unfold le_of. now apply Hasym.
        * destruct (lt z x); constructor.
          -- inversion Hhd; assumption.
          -- unfold le_of. now apply Hasym.
      + constructor; [constructor; assumption|]. constructor. exact E.
  Qed.

  Lemma isort_sorted : (forall a b, lt a b = true -> lt b a = false) ->
    forall l, Sorted le_of (isort lt l).
  Proof.
    intros Hasym l; induction l as [|x l IH]; cbn [isort]; [constructor|].
    now apply insert_sorted.
  Qed.
End SortFacts.

Lemma cost_lt_asym : forall c1 c2, cost_lt c1 c2 = true -> cost_lt c2 c1 = false.
Proof.
  intros [n1 d1|r1] [n2 d2|r2]; cbn [cost_lt]; intro H; try reflexivity; try discriminate.
  - apply Z.ltb_lt in H. apply Z.ltb_ge. lia.
  - apply Z.ltb_lt in H. apply Z.ltb_ge. lia.
Qed.

Lemma key_lt_asym : forall B st a b, key_lt B st a b = true -> key_lt B st b a = false.
Proof. intros; unfold key_lt in *; now apply cost_lt_asym. Qed.

(* ------------------------------------------------------------------ dropping trailing optionals *)
Lemma dto_incl : forall l r, In r (drop_trailing_optional l) -> In r l.
Proof.
  induction l as [|x l IH]; cbn [drop_trailing_optional]; intros r H; [exact H|].
  destruct (drop_trailing_optional l) as [|y l''] eqn:E.
  - destruct (optional x); [destruct H|]. destruct H as [H|[]]. now left.
  - destruct H as [H|H]; [now left|]. right. apply IH. exact H.
Qed.

Lemma dto_mandatory : forall l r, In r l -> optional r = false -> In r (drop_trailing_optional l).
Proof.
  induction l as [|x l IH]; cbn [drop_trailing_optional]; intros r H Ho; [exact H|].
  destruct H as [H|H].
  - subst x. destruct (drop_trailing_optional l); [rewrite Ho|]; now left.
  - specialize (IH r H Ho). destruct (drop_trailing_optional l) as [|y l'']; [destruct IH|].
    now right.
Qed.

(* what is dropped is a suffix of optional requirements *)
Lemma dto_prefix : forall l, exists t, l = drop_trailing_optional l ++ t /\ Forall (fun r => optional r = true) t.
Proof.
  induction l as [|x l [t [E F]]]; cbn [drop_trailing_optional].
  - exists []. split; [reflexivity|constructor].
  - destruct (drop_trailing_optional l) as [|y l''] eqn:D.
    + cbn [app] in E. destruct (optional x) eqn:O.
      * exists (x :: t). split; [now rewrite <- E|]. now constructor.
      * exists t. split; [cbn; now rewrite <- E|exact F].
    + exists t. split; [|exact F]. cbn [app] in *. now rewrite <- E.
Qed.

Lemma sorted_In : forall lt rs r, In r (sorted_requirements_with lt rs) -> In r rs /\ active r = true.
Proof.
  unfold sorted_requirements_with; intros lt rs r H.
  apply dto_incl in H. apply isort_In in H. now apply filter_In in H.
Qed.

Lemma sorted_mandatory : forall lt rs r, In r rs -> active r = true -> optional r = false ->
  In r (sorted_requirements_with lt rs).
Proof.
  unfold sorted_requirements_with; intros lt rs r H Ha Ho.
  apply dto_mandatory; [|exact Ho]. apply isort_In. apply filter_In. now split.
Qed.

(* ------------------------------------------------------------------ run_list *)
Lemma run_list_accept : forall s l durs st,
  snd (run_list s durs st l) = Accept <-> (forall r, In r l -> s (rid r) = false).
Proof.
  induction l as [|x l IH]; intros durs st; cbn [run_list].
  - split; [intros _ r []|reflexivity].
  - destruct (s (rid x)) eqn:E; cbn [snd].
    + split; [discriminate|]. intro H. specialize (H x (or_introl eq_refl)). congruence.
    + rewrite IH. split.
      * intros H r [Hr|Hr]; [now subst|now apply H].
      * intros H r Hr. apply H. now right.
Qed.

(* the first falsified requirement (in the order run) is the one reported *)
Lemma run_list_reject : forall s l durs st k,
  snd (run_list s durs st l) = Reject k ->
  exists l1 r l2, l = l1 ++ r :: l2 /\ rid r = k /\ s k = true /\
                  (forall r', In r' l1 -> s (rid r') = false).
Proof.
  induction l as [|x l IH]; intros durs st k; cbn [run_list]; [discriminate|].
  destruct (s (rid x)) eqn:E; cbn [snd].
  - intro H; injection H as H. exists [], x, l. subst k. repeat split; [exact E|intros r' []].
  - intro H. apply IH in H. destruct H as (l1 & r & l2 & -> & Hk & Hs & Hf).
    exists (x :: l1), r, l2. repeat split; try assumption.
    intros r' [Hr|Hr]; [now subst|now apply Hf].
Qed.

(* ------------------------------------------------------------------ verdict theorems *)
Theorem accept_sound : forall lt st rs s durs,
  snd (check_with lt st rs s durs) = Accept -> all_mandatory_hold rs s.
Proof.
  unfold check_with, all_mandatory_hold; intros lt st rs s durs H r Hr Ha Ho.
  rewrite run_list_accept in H. apply H. now apply sorted_mandatory.
Qed.

Theorem accept_complete : forall lt st rs s durs,
  all_active_hold rs s -> snd (check_with lt st rs s durs) = Accept.
Proof.
  unfold check_with, all_active_hold; intros lt st rs s durs H.
  apply run_list_accept. intros r Hr. apply sorted_In in Hr. destruct Hr. now apply H.
Qed.

Theorem reject_sound : forall lt st rs s durs k,
  snd (check_with lt st rs s durs) = Reject k ->
  exists r, In r rs /\ active r = true /\ rid r = k /\ s k = true.
Proof.
  unfold check_with; intros lt st rs s durs k H.
  apply run_list_reject in H. destruct H as (l1 & r & l2 & E & Hk & Hs & _).
  assert (In r (sorted_requirements_with lt rs)) as Hin by (rewrite E; apply in_or_app; right; now left).
  apply sorted_In in Hin. destruct Hin. exists r. now repeat split.
Qed.

Theorem accept_iff : forall lt st rs s durs, optional_implied rs s ->
  (snd (check_with lt st rs s durs) = Accept <-> all_mandatory_hold rs s).
Proof.
  intros lt st rs s durs Hopt; split; [apply accept_sound|].
  intro Hall. destruct (snd (check_with lt st rs s durs)) as [|k] eqn:E; [reflexivity|].
  exfalso. apply reject_sound in E. destruct E as (r & Hr & Ha & Hk & Hs). subst k.
  destruct (optional r) eqn:O.
  - destruct (Hopt r Hr Ha O Hs) as (r' & Hr' & Ha' & Ho' & Hs').
    rewrite (Hall r' Hr' Ha' Ho') in Hs'. discriminate.
  - rewrite (Hall r Hr Ha O) in Hs. discriminate.
Qed.

Lemma is_accept_iff : forall v, is_accept v = true <-> v = Accept.
Proof. destruct v; cbn; split; intro; try reflexivity; discriminate. Qed.

(* whatever order, buffer state, clock and therefore subset of checks: same accept/reject *)
Theorem verdict_order_independent : forall lt lt' st st' rs s durs durs',
  optional_implied rs s ->
  is_accept (snd (check_with lt st rs s durs)) = is_accept (snd (check_with lt' st' rs s durs')).
Proof.
  intros lt lt' st st' rs s durs durs' Hopt.
  pose proof (accept_iff lt st rs s durs Hopt) as H1.
  pose proof (accept_iff lt' st' rs s durs' Hopt) as H2.
  destruct (snd (check_with lt st rs s durs)) eqn:E1;
    destruct (snd (check_with lt' st' rs s durs')) eqn:E2; cbn [is_accept]; try reflexivity; exfalso.
  - assert (Reject r = Accept) as X by (apply H2, H1; reflexivity). discriminate.
  - assert (Reject r = Accept) as X by (apply H1, H2; reflexivity). discriminate.
Qed.

(* the order the concrete checker uses is sorted by its cost key *)
Theorem sorted_by_cost : forall B st rs,
  Sorted (le_of (key_lt B st)) (isort (key_lt B st) (filter active rs)).
Proof. intros. apply isort_sorted. apply key_lt_asym. Qed.

(* ------------------------------------------------------------------ metrics invariant *)
Lemma sumf_app : forall f l1 l2, sumf f (l1 ++ l2) = sumf f l1 + sumf f l2.
Proof.
  intros f l1 l2; induction l1 as [|x l1 IH]; cbn [sumf app fold_right]; [reflexivity|].
  fold (sumf f (l1 ++ l2)). fold (sumf f l1). rewrite IH. lia.
Qed.

Lemma sumf_cons : forall f x l, sumf f (x :: l) = f x + sumf f l.
Proof. reflexivity. Qed.

Lemma sumf_nil : forall f, sumf f [] = 0.
Proof. reflexivity. Qed.

Lemma update_rstate_inv : forall B m r,
  rs_inv B r -> (fst m = 0 \/ fst m = 1) -> rs_inv B (update_rstate m r).
Proof.
  intros B m r (Hlen & Hsum & Hall) Hm. unfold update_rstate.
  destruct (buf r) as [|old rest] eqn:E.
  - unfold rs_inv. rewrite E. now repeat split.
  - unfold rs_inv; cbn [buf sums]. repeat split.
    + rewrite app_length. cbn [length] in *. lia.
    + rewrite Hsum. cbn [fst snd]. rewrite !sumf_app, !sumf_cons, !sumf_nil. f_equal; lia.
    + apply Forall_app. split; [now inversion Hall|]. constructor; [exact Hm|constructor].
Qed.

Lemma upd_Forall : forall {A} (P : A -> Prop) f l i,
  Forall P l -> (forall x, P x -> P (f x)) -> Forall P (upd l i f).
Proof.
  intros A P f l; induction l as [|x l IH]; intros i Hl Hf; cbn [upd]; [constructor|].
  inversion Hl; subst. destruct i; constructor; auto.
Qed.

Lemma upd_length : forall {A} (f : A -> A) l i, length (upd l i f) = length l.
Proof.
  intros A f l; induction l as [|x l IH]; intros i; cbn [upd]; [reflexivity|].
  destruct i; cbn [length]; [reflexivity|now rewrite IH].
Qed.

Lemma upd_get_other : forall st i j f, i <> j -> get (upd st i f) j = get st j.
Proof.
  unfold get. induction st as [|x st IH]; intros i j f Hij; cbn [upd]; [reflexivity|].
  destruct i, j; cbn [nth]; try reflexivity; [congruence|].
  apply IH. congruence.
Qed.

Lemma run_list_inv : forall B s l durs st, st_inv B st -> st_inv B (fst (run_list s durs st l)).
Proof.
  intros B s l; induction l as [|x l IH]; intros durs st H; cbn [run_list]; [exact H|].
  assert (st_inv B (upd st (rid x) (update_rstate (if s (rid x) then 0 else 1, hd 0 durs)))) as H'.
  { apply upd_Forall; [exact H|]. intros r Hr. apply update_rstate_inv; [exact Hr|].
    cbn [fst]. destruct (s (rid x)); [now left|now right]. }
  destruct (s (rid x)); cbn [fst]; [exact H'|]. apply IH. exact H'.
Qed.

Lemma run_list_length : forall s l durs st, length (fst (run_list s durs st l)) = length st.
Proof.
  intros s l; induction l as [|x l IH]; intros durs st; cbn [run_list]; [reflexivity|].
  destruct (s (rid x)); cbn [fst]; [apply upd_length|]. rewrite IH. apply upd_length.
Qed.

(* metrics change only for requirements that were actually run *)
Lemma run_list_untouched : forall s l durs st i,
  (forall r, In r l -> rid r <> i) -> get (fst (run_list s durs st l)) i = get st i.
Proof.
  intros s l; induction l as [|x l IH]; intros durs st i H; cbn [run_list]; [reflexivity|].
  assert (rid x <> i) as Hx by (apply H; now left).
  destruct (s (rid x)); cbn [fst].
  - now apply upd_get_other.
  - rewrite IH; [now apply upd_get_other|]. intros r Hr. apply H. now right.
Qed.

Lemma init_inv : forall B n, st_inv B (init_state B n).
Proof.
  intros B n. unfold st_inv, init_state. apply Forall_forall. intros r Hr.
  apply repeat_spec in Hr. subst r. unfold rs_inv, init_rstate; cbn [buf sums]. repeat split.
  - apply repeat_length.
  - induction B as [|B IH]; cbn [repeat]; [reflexivity|].
    rewrite !sumf_cons. cbn [fst snd]. injection IH as <- <-. reflexivity.
  - apply Forall_forall. intros m Hm. apply repeat_spec in Hm. subst m. now left.
Qed.

Lemma check_inv : forall B st rs s durs, st_inv B st -> st_inv B (fst (check B st rs s durs)).
Proof. intros; unfold check, check_with. now apply run_list_inv. Qed.

Theorem metrics_inv : forall B n h,
  st_inv B (run_history B (init_state B n) h) /\ length (run_history B (init_state B n) h) = n.
Proof.
  intros B n h.
  assert (forall st, st_inv B st -> st_inv B (run_history B st h) /\ length (run_history B st h) = length st) as G.
  { induction h as [|x h IH]; intros st H; cbn [run_history]; [now split|].
    destruct (IH (fst (check B st (h_rs x) (h_s x) (h_durs x)))) as [I L]; [now apply check_inv|].
    split; [exact I|]. rewrite L. unfold check, check_with. apply run_list_length. }
  destruct (G (init_state B n) (init_inv B n)) as [I L]. split; [exact I|].
  rewrite L. unfold init_state. apply repeat_length.
Qed.

Lemma sumf_01_bounds : forall l, Forall (fun m : metric => fst m = 0 \/ fst m = 1) l ->
  0 <= sumf fst l <= Z.of_nat (length l).
Proof.
  induction l as [|x l IH]; intro H; [cbn; lia|].
  inversion H; subst. specialize (IH H3). rewrite sumf_cons. cbn [length]. lia.
Qed.

(* 0 <= rej_prob <= 1 : the accepted count stays within [0, B] *)
Theorem rs_inv_bounds : forall B r, rs_inv B r -> 0 <= fst (sums r) <= Z.of_nat B.
Proof.
  intros B r (Hlen & Hsum & Hall). rewrite Hsum. cbn [fst]. rewrite <- Hlen.
  now apply sumf_01_bounds.
Qed.

Theorem metrics_untouched : forall B st rs s durs i,
  (forall r, In r rs -> active r = true -> rid r <> i) ->
  get (fst (check B st rs s durs)) i = get st i.
Proof.
  intros B st rs s durs i H. unfold check, check_with. apply run_list_untouched.
  intros r Hr. apply sorted_In in Hr. destruct Hr. now apply H.
Qed.
