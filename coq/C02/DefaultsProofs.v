(* C02 — lemmas about the default requirements: they hold exactly when the scene is OK. *)
From Coq Require Import ZArith List Bool Arith Lia.
From Scenic Require Import C02.Checker C02.CheckerProofs C02.Defaults.
Import ListNotations.

Lemma in_map_pair : forall (x : nat) (l : list nat) (a b : nat), In (a, b) (map (pair x) l) <-> a = x /\ In b l.
Proof.
  intros x l a b. rewrite in_map_iff. split.
  - intros (y & E & Hy). injection E as <- <-. now split.
  - intros (-> & Hb). exists b. now split.
Qed.

Lemma pairs_filter : forall p l a b,
  In (a, b) (pairs (filter p l)) <-> In (a, b) (pairs l) /\ p a = true /\ p b = true.
Proof.
  intros p l a b; induction l as [|x l IH]; cbn [filter pairs].
  - split; [intros []|intros ([] & _)].
  - destruct (p x) eqn:Px; cbn [pairs]; rewrite !in_app_iff, ?in_map_pair, ?filter_In, IH.
    + split.
      * intros [(-> & Hb & Pb)|(H & Pa & Pb)]; [now repeat split; [left|..]|]. repeat split; auto.
      * intros ([(-> & Hb)|H] & Pa & Pb); [left|right]; repeat split; auto.
    + split.
      * intros (H & Pa & Pb). repeat split; auto.
      * intros ([(-> & Hb)|H] & Pa & Pb); [congruence|]. repeat split; auto.
Qed.

Lemma filter_comp : forall {A} (f g : A -> bool) l,
  filter f (filter g l) = filter (fun x => g x && f x) l.
Proof.
  intros A f g l; induction l as [|x l IH]; cbn [filter]; [reflexivity|].
  destruct (g x); cbn [filter andb]; [destruct (f x)|]; now rewrite IH.
Qed.

Lemma tri_occl : forall sc w o, consistent sc w -> w_occl w o = true -> may_occlude sc o = true.
Proof.
  intros sc w o H Ho. destruct (H o) as [_ H2]. unfold may_occlude.
  destruct (occluding (fl sc o)); cbn in *; congruence.
Qed.

Lemma tri_coll : forall sc w o, consistent sc w -> w_allow w o = false -> may_collide sc o = true.
Proof.
  intros sc w o H Ho. destruct (H o) as [H1 _]. unfold may_collide.
  destruct (allow_coll (fl sc o)); cbn in *; congruence.
Qed.

(* the occluders a 'visible from' requirement uses at run time are the ones the spec names *)
Lemma occluders_possible : forall sc w s t, consistent sc w ->
  filter (w_occl w) (others s t (possible_occluders sc)) = occluders_spec sc w s t.
Proof.
  intros sc w s t H. unfold others, possible_occluders, occluders_spec.
  rewrite !filter_comp. apply filter_ext. intro o.
  destruct (w_occl w o) eqn:E; [|now rewrite !andb_false_r].
  rewrite (tri_occl sc w o H E). reflexivity.
Qed.

Lemma occluders_all : forall sc w s t,
  filter (w_occl w) (others s t (objs sc)) = occluders_spec sc w s t.
Proof. intros. unfold others, occluders_spec. now rewrite filter_comp. Qed.

(* ------------------------------------------------------------------ membership *)
Lemma in_defaults : forall sc l r, default_requirements sc = Some l ->
  (In r l <->
     r = RBlanket (objs sc)
  \/ (exists a b, r = RInter a b /\ In (a, b) (pairs (filter (may_collide sc) (objs sc))))
  \/ (exists o, r = RContain o /\ In o (objs sc) /\ has_container (fl sc o) = true)
  \/ (exists i s, r = RVis s i (others s i (possible_occluders sc)) /\ In i (insts sc) /\ observing (fl sc i) = Some s)
  \/ (exists i s, r = RNotVis s i (others s i (possible_occluders sc)) /\ In i (insts sc) /\ non_observing (fl sc i) = Some s)
  \/ (exists o e, r = RVis e o (others e o (objs sc)) /\ In o (objs sc) /\ require_visible (fl sc o) = true
                  /\ ego sc = Some e /\ o <> e)).
Proof.
  intros sc l r D. unfold default_requirements in D.
  destruct (reqvis_reqs sc) as [rv|] eqn:RV; [|discriminate]. injection D as <-.
  assert (In r rv <-> exists o e, r = RVis e o (others e o (objs sc)) /\ In o (objs sc)
             /\ require_visible (fl sc o) = true /\ ego sc = Some e /\ o <> e) as Hrv.
  { unfold reqvis_reqs in RV. destruct (ego sc) as [e|] eqn:Ee.
    - injection RV as <-. rewrite in_flat_map. split.
      + intros (o & Ho & Hr). destruct (require_visible (fl sc o)) eqn:Q; [|destruct Hr].
        destruct (o =? e) eqn:Oe; cbn [negb andb] in Hr; [destruct Hr|].
        destruct Hr as [<-|[]]. exists o, e. apply Nat.eqb_neq in Oe. now repeat split.
      + intros (o & e' & -> & Ho & Q & Ee' & Ne). injection Ee' as <-. exists o. split; [exact Ho|].
        rewrite Q. apply Nat.eqb_neq in Ne. rewrite Ne. now left.
    - destruct (existsb _ _); [discriminate|]. injection RV as <-. split; [intros []|].
      intros (o & e & _ & _ & _ & X & _). discriminate. }
  cbn [In]. unfold inter_reqs, contain_reqs, vis_reqs, notvis_reqs.
  rewrite !in_app_iff, !in_map_iff, !in_flat_map, Hrv. clear Hrv.
  split.
  - intros [H|[H|[H|[H|[H|H]]]]].
    + left. now symmetry.
    + right; left. destruct H as ([a b] & <- & Hp). now exists a, b.
    + right; right; left. destruct H as (o & <- & Ho). apply filter_In in Ho. now exists o.
    + right; right; right; left. destruct H as (i & Hi & Hr).
      destruct (observing (fl sc i)) as [s|] eqn:O; [|destruct Hr]. destruct Hr as [<-|[]]. now exists i, s.
    + right; right; right; right; left. destruct H as (i & Hi & Hr).
      destruct (non_observing (fl sc i)) as [s|] eqn:O; [|destruct Hr]. destruct Hr as [<-|[]]. now exists i, s.
    + right; right; right; right; right. exact H.
  - intros [H|[H|[H|[H|[H|H]]]]].
    + left. now symmetry.
    + right; left. destruct H as (a & b & -> & Hp). now exists (a, b).
    + right; right; left. destruct H as (o & -> & Ho & Hc). exists o. split; [reflexivity|].
      apply filter_In. now split.
    + right; right; right; left. destruct H as (i & s & -> & Hi & O). exists i. split; [exact Hi|].
      rewrite O. now left.
    + right; right; right; right; left. destruct H as (i & s & -> & Hi & O). exists i. split; [exact Hi|].
      rewrite O. now left.
    + right; right; right; right; right. exact H.
Qed.

(* ------------------------------------------------------------------ defaults_complete *)
Theorem defaults_complete : forall sc w l, consistent sc w -> default_requirements sc = Some l ->
  (SceneOK sc w <-> all_hold w l).
Proof.
  intros sc w l C D. split.
  - intros OK r Hr Ho. apply (in_defaults sc l r D) in Hr.
    destruct Hr as [->|[(a & b & -> & Hp)|[(o & -> & Ho' & Hc)|[(i & s & -> & Hi & O)|[(i & s & -> & Hi & O)|(o & e & -> & Ho' & Q & E & Ne)]]]]].
    + discriminate.
    + apply pairs_filter in Hp. destruct Hp as (Hp & _ & _). cbn [dfals].
      destruct (w_allow w a) eqn:Aa; [reflexivity|]. destruct (w_allow w b) eqn:Ab; [reflexivity|].
      cbn [orb]. now apply (ok_disjoint sc w OK).
    + cbn [dfals]. now rewrite (ok_contained sc w OK o Ho' Hc).
    + cbn [dfals]. rewrite (occluders_possible sc w s i C). now rewrite (ok_visible sc w OK i s Hi O).
    + cbn [dfals]. rewrite (occluders_possible sc w s i C). now apply (ok_notvisible sc w OK).
    + cbn [dfals]. rewrite occluders_all. now rewrite (ok_reqvis sc w OK o e Ho' Q E Ne).
  - intro H. constructor.
    + intros a b Hp Aa Ab.
      assert (In (RInter a b) l) as Hin.
      { apply (in_defaults sc l _ D). right; left. exists a, b. split; [reflexivity|].
        apply pairs_filter. repeat split; [exact Hp|eapply tri_coll; eauto..]. }
      specialize (H _ Hin eq_refl). cbn [dfals] in H. now rewrite Aa, Ab in H.
    + intros o Ho Hc.
      assert (In (RContain o) l) as Hin by (apply (in_defaults sc l _ D); right; right; left; now exists o).
      specialize (H _ Hin eq_refl). cbn [dfals] in H. now apply negb_false_iff in H.
    + intros i s Hi O.
      assert (In (RVis s i (others s i (possible_occluders sc))) l) as Hin
        by (apply (in_defaults sc l _ D); right; right; right; left; now exists i, s).
      specialize (H _ Hin eq_refl). cbn [dfals] in H. rewrite (occluders_possible sc w s i C) in H.
      now apply negb_false_iff in H.
    + intros i s Hi O.
      assert (In (RNotVis s i (others s i (possible_occluders sc))) l) as Hin
        by (apply (in_defaults sc l _ D); right; right; right; right; left; now exists i, s).
      specialize (H _ Hin eq_refl). cbn [dfals] in H. now rewrite (occluders_possible sc w s i C) in H.
    + intros o e Ho Q E Ne.
      assert (In (RVis e o (others e o (objs sc))) l) as Hin
        by (apply (in_defaults sc l _ D); right; right; right; right; right; now exists o, e).
      specialize (H _ Hin eq_refl). cbn [dfals] in H. rewrite occluders_all in H.
      now apply negb_false_iff in H.
Qed.

(* the optional blanket pre-check can only reject scenes a mandatory requirement rejects too,
   given that surfaces that collide belong to solids that intersect (C04's subject) *)
Theorem blanket_implied : forall sc w l, consistent sc w -> default_requirements sc = Some l ->
  (forall a b, w_surf w a b = true -> w_inter w a b = true) ->
  forall r, In r l -> doptional r = true -> dfals w r = true ->
  exists r', In r' l /\ doptional r' = false /\ dfals w r' = true.
Proof.
  intros sc w l C D S r Hr Ho Hf. apply (in_defaults sc l r D) in Hr.
  destruct Hr as [->|[(a & b & -> & _)|[(o & -> & _)|[(i & s & -> & _)|[(i & s & -> & _)|(o & e & -> & _)]]]]];
    try discriminate.
  cbn [dfals] in Hf. apply existsb_exists in Hf. destruct Hf as ([a b] & Hp & Hs). cbn [fst snd] in Hs.
  apply pairs_filter in Hp. destruct Hp as (Hp & Aa & Ab).
  apply negb_true_iff in Aa. apply negb_true_iff in Ab.
  exists (RInter a b). repeat split.
  - apply (in_defaults sc l _ D). right; left. exists a, b. split; [reflexivity|].
    apply pairs_filter. repeat split; [exact Hp|eapply tri_coll; eauto..].
  - cbn [dfals]. rewrite Aa, Ab. cbn [orb]. now apply S.
Qed.

(* ------------------------------------------------------------------ through the checker *)
Lemma number_nth : forall l st i d, i < length l ->
  In (mkReq (st + i) (doptional (nth i l d)) true) (number st l).
Proof.
  unfold number. induction l as [|x l IH]; intros st i d Hi; cbn [length] in Hi; [lia|].
  cbn [length seq combine map nth]. destruct i as [|i].
  - left. cbn [fst snd]. now rewrite Nat.add_0_r.
  - right. rewrite Nat.add_succ_r. change (S (st + i)) with (S st + i). apply IH. lia.
Qed.

Theorem accepted_scene_ok : forall lt st durs sc w l users u,
  consistent sc w -> default_requirements sc = Some l ->
  (forall q, In q users -> length l <= rid q) ->
  snd (check_with lt st (number 0 l ++ users) (dsample w l u) durs) = Accept ->
  SceneOK sc w /\ (forall q, In q users -> active q = true -> optional q = false -> u (rid q) = false).
Proof.
  intros lt st durs sc w l users u C D Hu Hacc.
  apply accept_sound in Hacc. unfold all_mandatory_hold in Hacc. split.
  - apply (defaults_complete sc w l C D). intros r Hr Ho.
    destruct (In_nth l r (RContain 0) Hr) as (i & Hi & E).
    pose proof (number_nth l 0 i (RContain 0) Hi) as Hin. rewrite E in Hin. cbn [Nat.add] in Hin.
    specialize (Hacc _ (in_or_app _ _ _ (or_introl Hin)) eq_refl Ho). cbn [rid] in Hacc.
    unfold dsample in Hacc. apply Nat.ltb_lt in Hi. rewrite Hi in Hacc. now rewrite E in Hacc.
  - intros q Hq Ha Ho. specialize (Hacc q (in_or_app _ _ _ (or_intror Hq)) Ha Ho).
    unfold dsample in Hacc. specialize (Hu q Hq). apply Nat.ltb_ge in Hu. now rewrite Hu in Hacc.
Qed.

(* ------------------------------------------------------------------ the one-shot iterator (F3) *)
Definition all_hold_b (w : world) (l : list dreq) : bool :=
  forallb (fun r => doptional r || negb (dfals w r)) l.

Lemma all_hold_b_ok : forall w l, all_hold_b w l = true -> all_hold w l.
Proof.
  unfold all_hold_b, all_hold; intros w l H r Hr Ho. rewrite forallb_forall in H.
  specialize (H r Hr). rewrite Ho in H. cbn [orb] in H. now apply negb_true_iff in H.
Qed.

(* ego 0; objects 1 and 2 both 'visible from ego'; 3 is an occluding wall that hides 2 *)
Definition f3_flags (i : nat) : inst :=
  mkInst TFalse false (if (i =? 1) || (i =? 2) then Some 0 else None) None false TTrue.
Definition f3_scen : scen := mkScen [0; 1; 2; 3] [0; 1; 2; 3] (Some 0) f3_flags.
Definition f3_world : world :=
  mkWorld (fun _ => false) (fun _ => true) (fun _ _ => false) (fun _ _ => false) (fun _ => true)
          (fun s t occ => if t =? 2 then match occ with [] => true | _ => false end else true).

Theorem defaults_oneshot_refuted : exists sc w l,
  consistent sc w /\ default_requirements_oneshot sc = Some l /\ all_hold w l /\ ~ SceneOK sc w.
Proof.
  exists f3_scen, f3_world.
  eexists. split; [|split; [vm_compute; reflexivity|split]].
  - intro o. unfold f3_scen, f3_flags, f3_world; cbn. now split.
  - apply all_hold_b_ok. vm_compute. reflexivity.
  - intro OK. pose proof (ok_visible _ _ OK 2 0) as H. vm_compute in H.
    specialize (H (or_intror (or_intror (or_introl eq_refl))) eq_refl). discriminate.
Qed.

(* ------------------------------------------------------------------ converse: no valid scene is rejected *)
Lemma number_In_inv : forall l st q d, In q (number st l) ->
  exists i, i < length l /\ q = mkReq (st + i) (doptional (nth i l d)) true.
Proof.
  unfold number. induction l as [|x l IH]; intros st q d H; cbn [length seq combine map] in H; [destruct H|].
  destruct H as [<-|H].
  - exists 0. cbn [length nth fst snd]. split; [lia|]. now rewrite Nat.add_0_r.
  - destruct (IH (S st) q d H) as (i & Hi & ->). exists (S i). cbn [length nth]. split; [lia|].
    now rewrite Nat.add_succ_r.
Qed.

Theorem scene_ok_accepted : forall lt st durs sc w l users u,
  consistent sc w -> default_requirements sc = Some l ->
  (forall a b, w_surf w a b = true -> w_inter w a b = true) ->
  (forall q, In q users -> length l <= rid q /\ optional q = false) ->
  SceneOK sc w ->
  (forall q, In q users -> active q = true -> u (rid q) = false) ->
  snd (check_with lt st (number 0 l ++ users) (dsample w l u) durs) = Accept.
Proof.
  intros lt st durs sc w l users u C D S Hu OK Huser.
  assert (all_hold w l) as AH by (now apply (defaults_complete sc w l C D)).
  assert (forall i, i < length l -> dsample w l u i = dfals w (nth i l (RContain 0))) as DS.
  { intros i Hi. unfold dsample. apply Nat.ltb_lt in Hi. now rewrite Hi. }
  apply accept_iff.
  - intros r Hr Ha Ho Hs. apply in_app_or in Hr. destruct Hr as [Hr|Hr].
    + destruct (number_In_inv l 0 r (RContain 0) Hr) as (i & Hi & ->). cbn [Nat.add rid optional] in *.
      rewrite (DS i Hi) in Hs.
      destruct (blanket_implied sc w l C D S (nth i l (RContain 0)) (nth_In l _ Hi) Ho Hs) as (r' & Hr' & Ho' & Hs').
      rewrite (AH r' Hr' Ho') in Hs'. discriminate.
    + destruct (Hu r Hr) as [_ X]. congruence.
  - intros r Hr Ha Ho. apply in_app_or in Hr. destruct Hr as [Hr|Hr].
    + destruct (number_In_inv l 0 r (RContain 0) Hr) as (i & Hi & ->). cbn [Nat.add rid optional] in *.
      rewrite (DS i Hi). apply AH; [now apply nth_In|exact Ho].
    + destruct (Hu r Hr) as [Hge _]. unfold dsample. apply Nat.ltb_ge in Hge. rewrite Hge. now apply Huser.
Qed.
