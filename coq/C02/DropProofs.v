(* C02 round 3 — what the optional (blanket collision) requirement can and cannot be relied on for.
   The weighted checker drops optional requirements that sort last; once dropped, a requirement is not run, so
   the verdict is a function of the answers of the requirements actually run only.  Hence a scene that only the
   optional requirement would have rejected IS accepted whenever that requirement is dropped -- which a collision-free
   history makes happen (reachability witness below): the mandatory pairwise requirements must be exact on their own
   ([optional_implied] is necessary for accept_iff, not just sufficient). *)
From Coq Require Import ZArith List Bool Lia.
From Scenic Require Import C02.Checker C02.CheckerProofs.
Import ListNotations.
Local Open Scope Z_scope.

Lemma run_list_ext : forall l s s' durs st,
  (forall r, In r l -> s (rid r) = s' (rid r)) ->
  run_list s durs st l = run_list s' durs st l.
Proof.
  induction l as [| a l IH]; intros s s' durs st H; simpl; auto.
  rewrite <- (H a) by (left; reflexivity).
  destruct (s (rid a)); auto. apply IH. intros r Hr. apply H. right. exact Hr.
Qed.

(* the verdict (and the new metrics) depend only on what the sample says about the requirements that are run *)
Theorem verdict_depends_only_on_run : forall lt st rs s s' durs,
  (forall r, In r (sorted_requirements_with lt rs) -> s (rid r) = s' (rid r)) ->
  check_with lt st rs s durs = check_with lt st rs s' durs.
Proof. intros. unfold check_with. apply run_list_ext. assumption. Qed.

(* the list that is run never ends with an optional requirement *)
Lemma dto_last_mandatory : forall l d, drop_trailing_optional l <> [] ->
  optional (last (drop_trailing_optional l) d) = false.
Proof.
  induction l as [| a l IH]; intros d H; simpl in *; [congruence |].
  destruct (drop_trailing_optional l) as [| b t] eqn:E.
  - destruct (optional a) eqn:O; [congruence | simpl; exact O].
  - change (optional (last (b :: t) d) = false). apply IH. congruence.
Qed.

Theorem sorted_never_ends_optional : forall lt rs d, sorted_requirements_with lt rs <> [] ->
  optional (last (sorted_requirements_with lt rs) d) = false.
Proof. intros. unfold sorted_requirements_with in *. apply dto_last_mandatory. assumption. Qed.

(* only optional requirements are ever left out *)
Theorem not_run_is_optional : forall lt rs r, In r rs -> active r = true ->
  ~ In r (sorted_requirements_with lt rs) -> optional r = true.
Proof.
  intros lt rs r Hin Ha Hn. destruct (optional r) eqn:O; auto.
  exfalso. apply Hn. apply sorted_mandatory; auto.
Qed.

(* Reachability: ONE sample in which nothing is falsified and the optional requirement (rid 0) is the slower one leaves a
   state (buffer size 1) in which it sorts last and is dropped; the next sample, falsified by the optional requirement ONLY,
   is accepted.  So the optional requirement does not protect against an inexact mandatory one. *)
Theorem optional_dropped_reachable :
  exists (B : nat) (rs : list req) (h : list step) (s : sample) (durs : list Z),
    let st := run_history B (init_state B 2) h in
    s 0%nat = true /\ all_mandatory_hold rs s /\ ~ all_active_hold rs s /\
    sorted_requirements B st rs = [mkReq 1 false true] /\
    snd (check B st rs s durs) = Accept.
Proof.
  exists 1%nat, [mkReq 0 true true; mkReq 1 false true],
         [mkStep [mkReq 0 true true; mkReq 1 false true] (fun _ => false) [5; 1]],
         (fun i => Nat.eqb i 0), [1].
  cbv zeta. split; [reflexivity |]. split; [| split; [| split; [vm_compute; reflexivity | vm_compute; reflexivity]]].
  - intros r [E | [E | []]] Ha Ho; subst; simpl in *; congruence.
  - intro H. specialize (H (mkReq 0 true true) (or_introl eq_refl) eq_refl). simpl in H. congruence.
Qed.

(* [optional_implied] cannot be dropped from accept_iff / verdict_order_independent *)
Theorem optional_implied_necessary :
  exists (B : nat) (st : cstate) (rs : list req) (s : sample) (durs : list Z),
    st_inv B st /\ ~ optional_implied rs s /\ snd (check B st rs s durs) = Accept /\ ~ all_active_hold rs s.
Proof.
  exists 1%nat, [mkRS [(1, 5)] (1, 5); mkRS [(1, 1)] (1, 1)], [mkReq 0 true true; mkReq 1 false true],
         (fun i => Nat.eqb i 0), [1].
  split; [| split; [| split; [vm_compute; reflexivity |]]].
  - constructor; [| constructor; [| constructor]]; unfold rs_inv; simpl;
      (split; [reflexivity | split; [reflexivity | constructor; [right; reflexivity | constructor]]]).
  - intro H. destruct (H (mkReq 0 true true) (or_introl eq_refl) eq_refl eq_refl eq_refl) as [r' [Hin [Ha [Ho Hs]]]].
    destruct Hin as [E | [E | []]]; subst; simpl in *; congruence.
  - intro H. specialize (H (mkReq 0 true true) (or_introl eq_refl) eq_refl). simpl in H. congruence.
Qed.
