(* C11 — property theorems.  Statements only: each is closed by [exact] of a lemma proved in
   coq/C11/, followed by Print Assumptions.
   [mon] is rv_ltl's monitor exactly as written, [run] Scenic's per-step glue, [fltl] finite-trace
   LTL with strong next/until.  B4: BT = TRUE, BPT = PRESUMABLY_TRUE, BPF = PRESUMABLY_FALSE,
   BF = FALSE. *)
From Coq Require Import List Bool Arith.
From Scenic Require Import C11.LTL C11.LTLProofs.
Import ListNotations.

(* the final verdict is truthy exactly when the trace satisfies the formula, for every formula
   in which each [until] is evaluated at offset 0 only, and every trace *)
Theorem C11_accept_iff : forall phi tr, top_until phi = true ->
  is_truthy (mon phi tr 0) = fltl phi tr 0.
Proof. intros phi tr H; exact (accept_iff phi H tr). Qed.
Print Assumptions C11_accept_iff.

(* a FALSE verdict on a prefix means that no continuation satisfies the formula *)
Theorem C11_early_reject_sound : forall phi u, early_fragment phi = true -> u <> [] ->
  mon phi u 0 = BF -> forall w, fltl phi (u ++ w) 0 = false.
Proof. exact early_reject_sound. Qed.
Print Assumptions C11_early_reject_sound.

(* ... and a TRUE verdict that every continuation does *)
Theorem C11_early_accept_sound : forall phi u, early_fragment phi = true -> u <> [] ->
  mon phi u 0 = BT -> forall w, fltl phi (u ++ w) 0 = true.
Proof. exact early_accept_sound. Qed.
Print Assumptions C11_early_accept_sound.

(* the whole run (update every step, reject at once on FALSE, reject at the end on a falsy last
   verdict) accepts exactly the traces that satisfy the formula *)
Theorem C11_run_accept_iff : forall phi tr, early_fragment phi = true -> tr <> [] ->
  (run phi tr = Accept <-> fltl phi tr 0 = true).
Proof. exact run_accept_iff. Qed.
Print Assumptions C11_run_accept_iff.

(* a rejection strictly before the end of the scenario happens only when no continuation of the
   steps seen so far could satisfy the formula *)
Theorem C11_run_early_reject_sound : forall phi tr t, early_fragment phi = true ->
  run phi tr = Reject t -> S t < length tr -> forall w, fltl phi (firstn (S t) tr ++ w) 0 = false.
Proof. exact run_early_reject_sound. Qed.
Print Assumptions C11_run_early_reject_sound.

(* [always p] for a non-temporal p that is false in the current step is FALSE at once *)
Theorem C11_always_atom_false_rejects : forall p u s, nontemporal p = true ->
  eval_now p s = false -> verdict (Always p) (u ++ [s]) = BF.
Proof. intros p u s; exact (always_false_now p u s). Qed.
Print Assumptions C11_always_atom_false_rejects.

(* ... and the run rejects exactly at the first step in which the condition is false *)
Theorem C11_always_rejects_at_first_false : forall p u s w, nontemporal p = true ->
  (forall r, In r u -> eval_now p r = true) -> eval_now p s = false ->
  run (Always p) (u ++ s :: w) = Reject (length u).
Proof. exact always_rejects_at_first_false. Qed.
Print Assumptions C11_always_rejects_at_first_false.

(* non-temporal sub-formulas are evaluated in the current step only, with the ordinary Boolean
   meaning of and / or / not / implies *)
Theorem C11_nontemporal_current_step : forall p tr i, nontemporal p = true ->
  mon p tr i = b4_of_bool (eval_now p (nth i tr [])).
Proof. intros p tr i H; exact (mon_nontemporal p H tr i). Qed.
Print Assumptions C11_nontemporal_current_step.

Theorem C11_bool_connectives : forall a b : bool,
  neg (b4_of_bool a) = b4_of_bool (negb a) /\
  meet (meet BT (b4_of_bool a)) (b4_of_bool b) = b4_of_bool (a && b) /\
  join (join BF (b4_of_bool a)) (b4_of_bool b) = b4_of_bool (a || b) /\
  join (join BF (neg (b4_of_bool a))) (b4_of_bool b) = b4_of_bool (implb a b).
Proof. exact b4_bool_connectives. Qed.
Print Assumptions C11_bool_connectives.

(* compile-time requirements are also checked when the scene is sampled (falsifiedByInner): a
   scene is discarded only when no continuation of its initial valuation satisfies the formula *)
Theorem C11_scene_check_reject_sound : forall phi b s0 w, early_fragment phi = true ->
  run_site b phi (s0 :: w) = SRejectScene -> forall w', fltl phi (s0 :: w') 0 = false.
Proof. exact run_site_scene_reject_sound. Qed.
Print Assumptions C11_scene_check_reject_sound.

(* ... with or without that check, the simulation is accepted exactly when the whole trace
   satisfies the formula *)
Theorem C11_site_accept_iff : forall phi b tr, early_fragment phi = true -> tr <> [] ->
  (run_site b phi tr = SAccept <-> fltl phi tr 0 = true).
Proof. exact run_site_accept_iff. Qed.
Print Assumptions C11_site_accept_iff.

(* ... a scene the check discards is one the run would have rejected at step 0 (any formula),
   and without the check the outcome is the run's *)
Theorem C11_scene_reject_is_step0 : forall phi s0 w,
  run_site true phi (s0 :: w) = SRejectScene -> run phi (s0 :: w) = Reject 0.
Proof. exact run_site_scene_reject_is_step0. Qed.
Print Assumptions C11_scene_reject_is_step0.

Theorem C11_site_no_check : forall phi tr,
  run_site false phi tr = match run phi tr with Accept => SAccept | Reject t => SReject t end.
Proof. exact run_site_no_check. Qed.
Print Assumptions C11_site_no_check.

(* the reference semantics has the usual dualities, and the monitor's derived operators are the
   dual forms by construction: always p = not eventually not p, implies = or-not,
   eventually p = (p implies p) until p *)
Theorem C11_reference_dualities : forall p q tr i,
  fltl (Always p) tr i = fltl (Not (Eventually (Not p))) tr i /\
  fltl (Eventually p) tr i = fltl (Until (Implies p p) p) tr i /\
  fltl (Implies p q) tr i = fltl (Or (Not p) q) tr i /\
  mon (Always p) tr i = mon (Not (Eventually (Not p))) tr i /\
  mon (Implies p q) tr i = mon (Or (Not p) q) tr i.
Proof.
  intros p q tr i. split; [exact (fltl_always_dual p tr i)|].
  split; [exact (fltl_eventually_until p tr i)|].
  split; [exact (fltl_implies_or p q tr i)|].
  split; [exact (mon_always_dual p tr i) | exact (mon_implies_or p q tr i)].
Qed.
Print Assumptions C11_reference_dualities.

(* for every formula (inside or outside the fragments): the run rejects at the first update whose
   verdict is FALSE, and otherwise at the end exactly when the last verdict is falsy *)
Theorem C11_run_by_verdicts : forall phi tr,
  run phi tr = match first_BF (verdicts phi tr) 0 with
               | Some t => Reject t
               | None => if is_falsy (last (verdicts phi tr) BT) then Reject (length tr - 1) else Accept
               end.
Proof. exact run_by_verdicts. Qed.
Print Assumptions C11_run_by_verdicts.

(* F5: outside the fragments the faithful model of rv_ltl violates the property *)
Theorem C11_nested_until_refuted :
  exists f tr, fltl f tr 0 = true /\ run f tr = Reject 3 /\ verdict f tr = BF.
Proof. exact nested_until_refuted. Qed.
Print Assumptions C11_nested_until_refuted.

Theorem C11_until_pending_rhs_refuted :
  exists f u w, top_until f = true /\ mon f u 0 = BF /\ fltl f (u ++ w) 0 = true /\
                run f (u ++ w) = Reject 1.
Proof. exact until_pending_rhs_refuted. Qed.
Print Assumptions C11_until_pending_rhs_refuted.

(* non-vacuity: the fragments contain formulas with every operator, the hypotheses of the
   implications are satisfiable, and the strong/weak distinctions are as stated *)
Example C11_examples :
  early_fragment (Implies (Always (Or (Atom 0) (Next (Atom 1))))
                          (Until (Eventually (Atom 0)) (Not (Atom 1)))) = true /\
  top_until (Until (Atom 0) (Eventually (Atom 1))) = true /\
  early_fragment (Until (Atom 0) (Eventually (Atom 1))) = false /\
  top_until (Always (Until (Atom 0) (Atom 1))) = false /\
  mon (Always (Atom 0)) [[true]; [false]] 0 = BF /\
  run (Always (Atom 0)) [[true]; [false]; [true]] = Reject 1 /\
  mon (Eventually (Atom 0)) [[false]; [true]] 0 = BT /\
  run (Next (Atom 0)) [[true]] = Reject 0 /\ fltl (Next (Atom 0)) [[true]] 0 = false /\
  run (Until (Atom 0) (Atom 1)) [[true; false]; [true; false]] = Reject 1 /\
  run (Until (Atom 0) (Atom 1)) [[true; false]; [false; true]] = Accept /\
  run (Eventually (Atom 0)) [[false]; [false]] = Reject 1 /\
  run (Not (Next (Atom 0))) [[false]] = Accept /\
  run_site true (Always (Atom 0)) [[false]; [true]] = SRejectScene /\
  run_site false (Always (Atom 0)) [[false]; [true]] = SReject 0 /\
  run_site true (Eventually (Atom 0)) [[false]; [true]] = SAccept.
Proof. vm_compute. repeat split; reflexivity. Qed.
