(* C18 — property theorems.  Statements only: each is closed by [exact] of a lemma proved in
   coq/C18/, followed by Print Assumptions. *)
From Coq Require Import ZArith List.
From Scenic Require Import C18.Codec C18.CodecProofs C18.SampleProofs C18.Replay C18.ReplayProofs.
Import ListNotations.
Open Scope Z_scope.

(* decode . encode = id for integers of every width the format admits *)
Theorem C18_read_write_int : forall z bs rest,
  write_int z = Some bs -> read_int (bs ++ rest) = OK (z, rest).
Proof. exact read_write_int. Qed.
Print Assumptions C18_read_write_int.

(* every strict prefix of an integer's encoding is refused *)
Theorem C18_read_int_truncated : forall z bs p,
  write_int z = Some bs -> strict_prefix p bs -> read_int p = Err ETrunc.
Proof. exact read_int_truncated. Qed.
Print Assumptions C18_read_int_truncated.

Theorem C18_write_int_bytes : forall z bs, write_int z = Some bs -> forall b, In b bs -> 0 <= b < 256.
Proof. exact write_int_bytes. Qed.
Print Assumptions C18_write_int_bytes.

(* every codec (int, bool, float/Vector/Orientation payloads, str/bytes, None) round-trips *)
Theorem C18_read_write_value : forall t v b rest,
  write_value t v = Some b -> read_value t (b ++ rest) = OK (v, rest).
Proof. exact read_write_value. Qed.
Print Assumptions C18_read_write_value.

Theorem C18_read_value_truncated : forall t v b p,
  write_value t v = Some b -> strict_prefix p b -> exists e, read_value t p = Err e.
Proof. exact read_value_truncated. Qed.
Print Assumptions C18_read_value_truncated.

(* decoding the encoding of a sample over ANY dependency DAG (shared nodes, multiplexers whose
   unchosen branches are skipped, nodes reached both directly and through a branch) yields exactly
   the primitive values that were sampled and consumes exactly the encoding *)
Theorem C18_sample_roundtrip : forall g pval, wf_dag g -> forall deps bs rest,
  enc_sample g pval deps = Some bs ->
  exists pe, dec_sample g deps (bs ++ rest) = OK (pe, rest) /\ forall j v, plook j pe = Some v -> v = pval j.
Proof. exact sample_roundtrip. Qed.
Print Assumptions C18_sample_roundtrip.

(* every strict prefix (truncation) of a sample's encoding is refused with an error *)
Theorem C18_sample_truncated : forall g pval, wf_dag g -> forall deps bs p,
  enc_sample g pval deps = Some bs -> strict_prefix p bs -> exists e, dec_sample g deps p = Err e.
Proof. exact sample_truncated. Qed.
Print Assumptions C18_sample_truncated.

(* data is accepted only when it carries this scenario's format version, program hash and options hash *)
Theorem C18_header_accepts_only_own : forall exp s r,
  length (h_ast exp) = 4%nat -> length (h_opts exp) = 4%nat ->
  read_header exp s = OK r ->
  exists v, length v = 2%nat /\ le_decode v = h_version exp /\ s = v ++ h_ast exp ++ h_opts exp ++ r.
Proof. exact header_accepts_only_own. Qed.
Print Assumptions C18_header_accepts_only_own.

(* divergence is reported exactly when |actual - expected| exceeds the tolerance *)
Theorem C18_diverged_iff : forall e a tol, 0 <= tol ->
  values_have_diverged e a tol = true <-> tol < Z.abs (a - e).
Proof. exact diverged_iff. Qed.
Print Assumptions C18_diverged_iff.

(* non-vacuity: boundary cases are as stated; a DAG with a shared node and a multiplexer round-trips *)
Example C18_examples :
  write_int 300 = Some [253; 44; 1] /\ write_int (-1) = Some [253; 255; 255] /\
  write_int 252 = Some [252] /\ write_int (2^31) = Some [255; 5; 0; 0; 0; 128; 0] /\
  write_int (2^2040) = None /\ read_int [253; 44] = Err ETrunc.
Proof. vm_compute. repeat split; reflexivity. Qed.

Definition ex_dag : list node := [NPrim TInt; NPrim TInt; NPrim TInt; NMux 0%nat [1%nat; 2%nat]; NDet [3%nat; 1%nat] [3%nat; 1%nat]].
Definition ex_pval (i:nat) : val := match i with 0%nat => VInt 1 | 1%nat => VInt 300 | _ => VInt 7 end.
Example C18_dag_example :
  wf_dag ex_dag /\ enc_sample ex_dag ex_pval [4%nat; 3%nat] = Some [1; 7; 253; 44; 1] /\
  dec_sample ex_dag [4%nat; 3%nat] [1; 7; 253; 44; 1] = OK ([(1%nat, VInt 300); (2%nat, VInt 7); (0%nat, VInt 1)], []).
Proof.
  split; [|vm_compute; split; reflexivity].
  split.
  - intros i n H d Hd. unfold ex_dag in H.
    do 5 (destruct i as [|i]; [simpl in H; inversion H; subst; simpl in Hd; repeat (destruct Hd as [<-|Hd]; [repeat constructor|]); try contradiction|]).
    destruct i; discriminate.
  - intros i es ds H. unfold ex_dag in H.
    do 5 (destruct i as [|i]; [simpl in H; inversion H; subst; reflexivity|]).
    destruct i; discriminate.
Qed.

(* ---- conditioning (Scenario.conditionOn, pruning): the two hypotheses of the round trip, separately.
   [dag_ordered]: dependencies are numbered before their users.  [conditioned_consistent]: at every
   deterministic node the encoder (Samplable.serializeValue) and the decoder (Samplable.deserializeValue)
   walk the same dependency list — the code reads `self._conditioned._dependencies` at both places; the
   exporter observes the two walks separately and the check decodes with the decoder's lists. *)
Theorem C18_conditioned_roundtrip : forall g pval, dag_ordered g -> conditioned_consistent g -> forall deps bs rest,
  enc_sample g pval deps = Some bs ->
  exists pe, dec_sample g deps (bs ++ rest) = OK (pe, rest) /\ forall j v, plook j pe = Some v -> v = pval j.
Proof. exact conditioned_roundtrip. Qed.
Print Assumptions C18_conditioned_roundtrip.

(* whatever has been conditioned to whatever ([cg]: every node with its own and its proxy's dependency list):
   if encoder and decoder agree on following the proxy, the walks are consistent; the code as it is
   ([code_view]: both follow it at deterministic nodes, primitive and multiplexer nodes ignore it) round-trips
   and refuses every truncation *)
Theorem C18_view_consistent : forall b cg, conditioned_consistent (map (view b b) cg).
Proof. exact view_consistent. Qed.
Print Assumptions C18_view_consistent.

Theorem C18_code_view_roundtrip : forall cg pval, dag_ordered (map code_view cg) -> forall deps bs rest,
  enc_sample (map code_view cg) pval deps = Some bs ->
  exists pe, dec_sample (map code_view cg) deps (bs ++ rest) = OK (pe, rest) /\ forall j v, plook j pe = Some v -> v = pval j.
Proof. exact code_view_roundtrip. Qed.
Print Assumptions C18_code_view_roundtrip.

Theorem C18_code_view_truncated : forall cg pval, dag_ordered (map code_view cg) -> forall deps bs p,
  enc_sample (map code_view cg) pval deps = Some bs -> strict_prefix p bs -> exists e, dec_sample (map code_view cg) deps p = Err e.
Proof. exact code_view_truncated. Qed.
Print Assumptions C18_code_view_truncated.

(* the hypothesis is needed (and this is also the non-vacuity example: a conditioned DAG that round-trips
   under code_view): encoder following the proxy, decoder not => own encoding refused / silently misread *)
Theorem C18_conditioned_inconsistent_refuted :
  let cg := condition_to 1 [] ci_cg in
  dag_ordered (map (view true false) cg) /\
  enc_sample (map (view true false) cg) ci_pv [1%nat; 2%nat] = Some [9] /\
  dec_sample (map (view true false) cg) [1%nat; 2%nat] [9] = Err ETrunc /\
  dec_sample (map code_view cg) [1%nat; 2%nat] [9] = OK ([(2%nat, VInt 9)], []) /\
  (exists pe, dec_sample (map (view true false) cg) [1%nat; 2%nat] [9; 9] = OK (pe, []) /\ plook 0%nat pe = Some (VInt 9) /\ ci_pv 0%nat = VInt 5).
Proof. exact conditioned_inconsistent_refuted. Qed.
Print Assumptions C18_conditioned_inconsistent_refuted.

(* ===================== the replay stream (coq/C18/Replay.v) ===================== *)

(* what a replayed run-time draw records: decoding an encoded sample and re-encoding the decoder's
   table of values gives back exactly the bytes read *)
Theorem C18_sample_roundtrip_reencode : forall g pval, wf_dag g -> forall deps bs rest,
  enc_sample g pval deps = Some bs ->
  exists pe, dec_sample g deps (bs ++ rest) = OK (pe, rest) /\ enc_sample g (pv_of pe) deps = Some bs.
Proof. exact sample_roundtrip_reencode. Qed.
Print Assumptions C18_sample_roundtrip_reencode.

(* replay_reproduces: for EVERY deterministic simulation program p (any tree of run-time draw requests
   over any well-founded DAGs and of object updates), every random generator w1 of the recording and
   w2 of the replaying process, every divergence predicate that never reports equal values, and every
   combination of enableDivergenceCheck / continueAfterDivergence: the replay makes exactly the
   recorded draws and completes; with the same enableDivergenceCheck it re-records the same bytes *)
Theorem C18_replay_reproduces : forall dv, (forall t v, dv t v v = false) ->
  forall p wr cont1 w1 tr out, prog_wf p ->
  simulate dv wr cont1 p [] w1 = R tr out Completed -> nonempty_draws tr ->
  forall wr2 cont2 w2, exists out2,
    simulate dv wr2 cont2 p out w2 = R tr out2 Completed /\ (wr2 = wr -> out2 = out).
Proof. exact replay_reproduces. Qed.
Print Assumptions C18_replay_reproduces.

(* rerecord_identical (what seeded/C18-1 broke) *)
Theorem C18_rerecord_identical : forall dv, (forall t v, dv t v v = false) ->
  forall p wr cont1 w1 tr out, prog_wf p ->
  simulate dv wr cont1 p [] w1 = R tr out Completed -> nonempty_draws tr ->
  forall cont2 w2, simulate dv wr cont2 p out w2 = R tr out Completed.
Proof. exact rerecord_identical. Qed.
Print Assumptions C18_rerecord_identical.

(* replay_prefix: EVERY truncation s of a recorded replay is either refused, or the run is exactly a
   fresh simulation whose first m draws are the recorded ones and whose later draws are fresh *)
Theorem C18_replay_prefix : forall dv, (forall t v, dv t v v = false) ->
  forall p wr cont1 w1 tr out, prog_wf p ->
  simulate dv wr cont1 p [] w1 = R tr out Completed ->
  forall s t, out = s ++ t -> forall wr2 cont2 w2,
  (exists e tr' o', simulate dv wr2 cont2 p s w2 = R tr' o' (Failed e)) \/
  (exists m, simulate dv wr2 cont2 p s w2 = simulate dv wr2 cont2 p [] (splice m w1 w2)).
Proof. exact replay_prefix. Qed.
Print Assumptions C18_replay_prefix.

(* divergence check interleaved with the draws: a replaying simulator p' that asks for the same draws
   and whose dynamic properties stay within the tolerance reproduces the draws ... *)
Theorem C18_replay_within_tolerance : forall dv p p', within (props_within dv) p p' ->
  forall wr cont1 w1 tr out,
  simulate dv wr cont1 p [] w1 = R tr out Completed -> nonempty_draws tr ->
  forall wr2 cont2 w2, exists out2, simulate dv wr2 cont2 p' out w2 = R tr out2 Completed.
Proof. exact replay_within_tolerance. Qed.
Print Assumptions C18_replay_within_tolerance.

(* ... and one in which some dynamic property of some object leaves the tolerance is reported *)
Theorem C18_replay_divergence_detected : forall dv p p', diverges dv p p' ->
  forall cont1 w1 tr out,
  simulate dv true cont1 p [] w1 = R tr out Completed -> nonempty_draws tr ->
  forall wr2 w2, exists tr' o', simulate dv wr2 false p' out w2 = R tr' o' Diverged.
Proof. exact replay_divergence_detected. Qed.
Print Assumptions C18_replay_divergence_detected.

(* the model's valuesHaveDiverged satisfies the hypothesis above, and on integers it is |a-e| > tol *)
Theorem C18_diverged_val_refl : forall tol t v, diverged_val tol t v v = false.
Proof. exact diverged_val_refl. Qed.
Theorem C18_diverged_val_int : forall k e a, 0 <= k ->
  diverged_val (k, 0) TInt (VInt e) (VInt a) = true <-> k < Z.abs (a - e).
Proof. exact diverged_val_int. Qed.
Print Assumptions C18_diverged_val_int.

(* the recording as it was before fix-C18-replay-shared-dependency (one memo for all run-time draws)
   VIOLATES the property: a dependency shared by two draws is written once and read twice *)
Theorem C18_shared_memo_refuted : exists g pv r1 r2 b,
  wf_dag g /\ record_two_shared_memo g pv pv r1 r2 = Some b /\
  exists pe rest, dec_sample g [r1] b = OK (pe, rest) /\ dec_sample g [r2] rest = Err ETrunc.
Proof. exact shared_memo_refuted. Qed.
Print Assumptions C18_shared_memo_refuted.

(* non-vacuity: a program with two draws and divergence data satisfies the hypotheses; its replay is
   12 + 6 bytes; cutting it inside the second draw is refused; a drifted simulator is reported *)
Definition ex_g : list node := [NPrim TInt].
Definition ex_one : val := VFix [0; 0; 0; 0; 0; 0; 240; 63].       (* 1.0 *)
Definition ex_two : val := VFix [0; 0; 0; 0; 0; 0; 0; 64].         (* 2.0 *)
Definition ex_prog (x:val) : prog :=
  PDraw ex_g 0%nat (fun _ => PUpdate [(TFloat, x)] (PDraw ex_g 0%nat (fun _ => PDone))).
Definition ex_w (n:nat) (_:nat) : val := VInt (300 + Z.of_nat n).
Definition ex_tol : dyadic := (1, -1).                               (* 0.5 *)
Example C18_replay_example :
  prog_wf (ex_prog ex_one) /\
  simulate (diverged_val ex_tol) true false (ex_prog ex_one) [] ex_w =
    R [[253; 44; 1]; [253; 45; 1]] [2; 0; 1; 0; 0; 0; 253; 44; 1; 0; 0; 0; 0; 0; 0; 240; 63; 253; 45; 1] Completed /\
  nonempty_draws [[253; 44; 1]; [253; 45; 1]] /\
  r_end (simulate (diverged_val ex_tol) true false (ex_prog ex_one)
           [2; 0; 1; 0; 0; 0; 253; 44; 1; 0; 0; 0; 0; 0; 0; 240; 63; 253; 45] ex_w) = Failed ETrunc /\
  diverges (diverged_val ex_tol) (ex_prog ex_one) (ex_prog ex_two) /\
  r_end (simulate (diverged_val ex_tol) true false (ex_prog ex_two)
           [2; 0; 1; 0; 0; 0; 253; 44; 1; 0; 0; 0; 0; 0; 0; 240; 63; 253; 45; 1] ex_w) = Diverged.
Proof.
  assert (Hg : wf_dag ex_g).
  { split.
    - intros i n H d Hd. destruct i as [|[|i]]; cbn in H; inversion H; subst; cbn in Hd; contradiction.
    - intros i es ds H. destruct i as [|[|i]]; cbn in H; inversion H. }
  split.
  { constructor; [exact Hg|]. intros _. constructor; [cbn; discriminate|].
    constructor; [exact Hg|]. intros _. constructor. }
  split; [vm_compute; reflexivity|].
  split; [repeat constructor; discriminate|].
  split; [vm_compute; reflexivity|].
  split; [|vm_compute; reflexivity].
  constructor; [exact Hg|]. intros _. constructor.
  - constructor. vm_compute. reflexivity.
  - cbn. discriminate.
  - cbn. discriminate.
Qed.
