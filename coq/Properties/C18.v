(* C18 — property theorems.  Statements only: each is closed by [exact] of a lemma proved in
   coq/C18/, followed by Print Assumptions. *)
From Coq Require Import ZArith List.
From Scenic Require Import C18.Codec C18.CodecProofs.
Import ListNotations.
Open Scope Z_scope.

(* decode . encode = id for integers of every width the format admits *)
Theorem C18_read_write_int : forall z bs rest,
  write_int z = Some bs -> read_int (bs ++ rest) = OK (z, rest).
Proof. exact read_write_int. Qed.
Print Assumptions C18_read_write_int.

(* every strict prefix of an integer's encoding is refused *)
Theorem C18_read_int_truncated : forall z bs p,
  write_int z = Some bs -> strict_prefix p bs -> read_int p = Err ETrunc.
Proof. exact read_int_truncated. Qed.
Print Assumptions C18_read_int_truncated.

Theorem C18_write_int_bytes : forall z bs, write_int z = Some bs -> forall b, In b bs -> 0 <= b < 256.
Proof. exact write_int_bytes. Qed.
Print Assumptions C18_write_int_bytes.

(* divergence is reported exactly when |actual - expected| exceeds the tolerance *)
Theorem C18_diverged_iff : forall e a tol, 0 <= tol ->
  values_have_diverged e a tol = true <-> tol < Z.abs (a - e).
Proof. exact diverged_iff. Qed.
Print Assumptions C18_diverged_iff.

(* non-vacuity: the 600-digit limit is reachable and the boundary cases are as stated *)
Example C18_examples :
  write_int 300 = Some [253; 44; 1] /\ write_int (-1) = Some [253; 255; 255] /\
  write_int 252 = Some [252] /\ write_int (2^31) = Some [255; 5; 0; 0; 0; 128; 0] /\
  write_int (2^2040) = None /\ read_int [253; 44] = Err ETrunc.
Proof. vm_compute. repeat split; reflexivity. Qed.
