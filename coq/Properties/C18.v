(* C18 — property theorems.  Statements only: each is closed by [exact] of a lemma proved in
   coq/C18/, followed by Print Assumptions. *)
From Coq Require Import ZArith List.
From Scenic Require Import C18.Codec C18.CodecProofs C18.SampleProofs.
Import ListNotations.
Open Scope Z_scope.

(* decode . encode = id for integers of every width the format admits *)
Theorem C18_read_write_int : forall z bs rest,
  write_int z = Some bs -> read_int (bs ++ rest) = OK (z, rest).
Proof. exact read_write_int. Qed.
Print Assumptions C18_read_write_int.

(* every strict prefix of an integer's encoding is refused *)
Theorem C18_read_int_truncated : forall z bs p,
  write_int z = Some bs -> strict_prefix p bs -> read_int p = Err ETrunc.
Proof. exact read_int_truncated. Qed.
Print Assumptions C18_read_int_truncated.

Theorem C18_write_int_bytes : forall z bs, write_int z = Some bs -> forall b, In b bs -> 0 <= b < 256.
Proof. exact write_int_bytes. Qed.
Print Assumptions C18_write_int_bytes.

(* every codec (int, bool, float/Vector/Orientation payloads, str/bytes, None) round-trips *)
Theorem C18_read_write_value : forall t v b rest,
  write_value t v = Some b -> read_value t (b ++ rest) = OK (v, rest).
Proof. exact read_write_value. Qed.
Print Assumptions C18_read_write_value.

Theorem C18_read_value_truncated : forall t v b p,
  write_value t v = Some b -> strict_prefix p b -> exists e, read_value t p = Err e.
Proof. exact read_value_truncated. Qed.
Print Assumptions C18_read_value_truncated.

(* decoding the encoding of a sample over ANY dependency DAG (shared nodes, multiplexers whose
   unchosen branches are skipped, nodes reached both directly and through a branch) yields exactly
   the primitive values that were sampled and consumes exactly the encoding *)
Theorem C18_sample_roundtrip : forall g pval, wf_dag g -> forall deps bs rest,
  enc_sample g pval deps = Some bs ->
  exists pe, dec_sample g deps (bs ++ rest) = OK (pe, rest) /\ forall j v, plook j pe = Some v -> v = pval j.
Proof. exact sample_roundtrip. Qed.
Print Assumptions C18_sample_roundtrip.

(* every strict prefix (truncation) of a sample's encoding is refused with an error *)
Theorem C18_sample_truncated : forall g pval, wf_dag g -> forall deps bs p,
  enc_sample g pval deps = Some bs -> strict_prefix p bs -> exists e, dec_sample g deps p = Err e.
Proof. exact sample_truncated. Qed.
Print Assumptions C18_sample_truncated.

(* data is accepted only when it carries this scenario's format version, program hash and options hash *)
Theorem C18_header_accepts_only_own : forall exp s r,
  length (h_ast exp) = 4%nat -> length (h_opts exp) = 4%nat ->
  read_header exp s = OK r ->
  exists v, length v = 2%nat /\ le_decode v = h_version exp /\ s = v ++ h_ast exp ++ h_opts exp ++ r.
Proof. exact header_accepts_only_own. Qed.
Print Assumptions C18_header_accepts_only_own.

(* divergence is reported exactly when |actual - expected| exceeds the tolerance *)
Theorem C18_diverged_iff : forall e a tol, 0 <= tol ->
  values_have_diverged e a tol = true <-> tol < Z.abs (a - e).
Proof. exact diverged_iff. Qed.
Print Assumptions C18_diverged_iff.

(* non-vacuity: boundary cases are as stated; a DAG with a shared node and a multiplexer round-trips *)
Example C18_examples :
  write_int 300 = Some [253; 44; 1] /\ write_int (-1) = Some [253; 255; 255] /\
  write_int 252 = Some [252] /\ write_int (2^31) = Some [255; 5; 0; 0; 0; 128; 0] /\
  write_int (2^2040) = None /\ read_int [253; 44] = Err ETrunc.
Proof. vm_compute. repeat split; reflexivity. Qed.

Definition ex_dag : list node := [NPrim TInt; NPrim TInt; NPrim TInt; NMux 0%nat [1%nat; 2%nat]; NDet [3%nat; 1%nat]].
Definition ex_pval (i:nat) : val := match i with 0%nat => VInt 1 | 1%nat => VInt 300 | _ => VInt 7 end.
Example C18_dag_example :
  wf_dag ex_dag /\ enc_sample ex_dag ex_pval [4%nat; 3%nat] = Some [1; 7; 253; 44; 1] /\
  dec_sample ex_dag [4%nat; 3%nat] [1; 7; 253; 44; 1] = OK ([(1%nat, VInt 300); (2%nat, VInt 7); (0%nat, VInt 1)], []).
Proof.
  split; [|vm_compute; split; reflexivity].
  intros i n H d Hd. unfold ex_dag in H.
  do 5 (destruct i as [|i]; [simpl in H; inversion H; subst; simpl in Hd; repeat (destruct Hd as [<-|Hd]; [repeat constructor|]); try contradiction|]).
  destruct i; discriminate.
Qed.
