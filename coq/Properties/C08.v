(* C08 — property theorems.  Statements only: each is closed by [exact] of a lemma proved in coq/C08/. *)
From Coq Require Import ZArith QArith Qround Qabs List Bool.
From Scenic Require Import C08.Relations C08.RelationsProofs C08.Prune C08.PruneProofs.
Import ListNotations.
Open Scope Q_scope.

(* every bound the (repaired) matcher extracts from a comparison chain is implied by the requirement,
   under every valuation of the bounded quantities and of all other sub-expressions, whatever `is`/`in` mean *)
Theorem C08_match_bounds_sound : forall other nu om c tab q lo hi,
  match_bounds true c = Some tab -> In (q, (lo, hi)) tab -> holds other nu om c ->
  lo_ok lo (nu q) /\ hi_ok hi (nu q).
Proof. exact match_bounds_sound. Qed.
Print Assumptions C08_match_bounds_sound.

(* F11: the matcher as it was derives Q <= 5 from Q != 5 *)
Theorem C08_match_bounds_ne_refuted :
  exists c tab q hi nu,
    match_bounds false c = Some tab /\ In (q, (None, Some hi)) tab /\
    holds (fun _ _ _ => True) nu (fun _ => 0) c /\ ~ nu q <= hi.
Proof. exact match_bounds_ne_refuted. Qed.
Print Assumptions C08_match_bounds_ne_refuted.

Theorem C08_dist_clamp_sound : forall b l u d,
  0 <= d -> lo_ok (fst b) d -> hi_ok (snd b) d -> dist_clamp b = Some (l, u) -> l <= d /\ hi_ok u d.
Proof. exact dist_clamp_sound. Qed.
Print Assumptions C08_dist_clamp_sound.

Theorem C08_rh_clamp_sound : forall pi b l u x,
  - pi <= x <= pi -> lo_ok (fst b) x -> hi_ok (snd b) x -> rh_clamp pi b = Some (l, u) -> l <= x <= u.
Proof. exact rh_clamp_sound. Qed.
Print Assumptions C08_rh_clamp_sound.

(* relative-heading ranges: sound for un-normalised differences of non-wrapping arcs ... *)
Theorem C08_rh_range_sound_unnormalised : forall pi bh oL oR th tL tR p tp,
  let lower := normalize pi (bh + oL) in let upper := normalize pi (bh + oR) in
  let tlower := normalize pi (th + tL) in let tupper := normalize pi (th + tR) in
  lower <= upper -> tlower <= tupper ->
  lower <= p <= upper -> tlower <= tp <= tupper ->
  fst (rh_range pi bh oL oR th tL tR) <= tp - p <= snd (rh_range pi bh oL oR th tL tR).
Proof. exact rh_range_sound_unnormalised. Qed.
Print Assumptions C08_rh_range_sound_unnormalised.

(* ... but refuted for the actual (normalised) relative heading at the +-pi seam (F12) *)
Theorem C08_rh_range_refuted :
  exists pi bh th, 3 < pi /\
    let r := rh_range pi bh 0 0 th 0 0 in
    let actual := normalize pi (th - bh) in
    (qleb (fst r) actual && qleb actual (snd r)) = false
    /\ rh_overlap r 0 1 = false
    /\ (qleb 0 actual && qleb actual 1) = true.
Proof. exact rh_range_refuted. Qed.
Print Assumptions C08_rh_range_refuted.

(* the geometric core of containment pruning, in any metric space *)
Theorem C08_erosion_sound : forall (P : Type) (dist : P -> P -> Q),
  (forall a b c, dist a c <= dist a b + dist b c) -> (forall a b, dist a b == dist b a) ->
  forall (C : P -> Prop) pos centre r d,
    ball_in' P dist C centre r -> dist pos centre <= d -> ball_in' P dist C pos (r - d).
Proof. exact erosion_sound. Qed.
Print Assumptions C08_erosion_sound.

Theorem C08_erode_iterations_safe : forall maxErosion h,
  0 < h -> inject_Z (erode_iterations maxErosion h) * h <= maxErosion - h.
Proof. exact erode_iterations_safe. Qed.
Print Assumptions C08_erode_iterations_safe.

Theorem C08_buffer_iterations_fixed_sufficient : forall minBuffer pitch ext,
  0 < pitch -> 0 < ext ->
  minBuffer <= inject_Z (buffer_iterations_fixed minBuffer pitch ext) * target_pitch pitch ext.
Proof. exact buffer_iterations_fixed_sufficient. Qed.
Print Assumptions C08_buffer_iterations_fixed_sufficient.

(* F13 (arithmetic part) *)
Theorem C08_buffer_iterations_sufficient_refuted :
  exists minBuffer pitch ext, 0 < pitch /\ 0 < ext /\
    inject_Z (buffer_iterations_asis minBuffer pitch) * target_pitch pitch ext < minBuffer.
Proof. exact buffer_iterations_sufficient_refuted. Qed.
Print Assumptions C08_buffer_iterations_sufficient_refuted.

(* pruning to any region containing all accepted positions keeps the accepted outcomes, with multiplicities *)
Theorem C08_conditioning_preserves : forall (A : Type) (base : list A) (req k : A -> bool),
  (forall a, In a base -> req a = true -> k a = true) ->
  filter req (filter k base) = filter req base.
Proof. exact conditioning_preserves. Qed.
Print Assumptions C08_conditioning_preserves.

Example C08_examples :
  match_bounds true {| c_left := TConst 2; c_rest := [(LtE, TAtom 0); (Lt, TConst 9)] |} = Some [(0%nat, (Some 2, Some 9))] /\
  match_bounds true {| c_left := TAbs (TSub (TAtom 1) (TConst 3)); c_rest := [(Lt, TConst 1)] |} = Some [(1%nat, (Some (-1 + 3), Some (1 + 3)))] /\
  match_bounds true {| c_left := TAtom 0; c_rest := [(NotEq, TConst 5)] |} = Some [].
Proof. vm_compute. repeat split. Qed.
