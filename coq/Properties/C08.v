(* C08 — property theorems.  Statements only: each is closed by [exact] of a lemma proved in coq/C08/. *)
From Coq Require Import ZArith QArith Qround Qabs List Bool.
From Scenic Require Import C08.Relations C08.RelationsProofs C08.Prune C08.PruneProofs C08.Visibility C08.VisibilityProofs.
Import ListNotations.
Open Scope Q_scope.

(* every bound the (repaired) matcher extracts from a comparison chain is implied by the requirement,
   under every valuation of the bounded quantities and of all other sub-expressions, whatever `is`/`in` mean *)
Theorem C08_match_bounds_sound : forall other nu om c tab q lo hi,
  match_bounds true c = Some tab -> In (q, (lo, hi)) tab -> holds other nu om c ->
  lo_ok lo (nu q) /\ hi_ok hi (nu q).
Proof. exact match_bounds_sound. Qed.
Print Assumptions C08_match_bounds_sound.

(* F11: the matcher as it was derives Q <= 5 from Q != 5 *)
Theorem C08_match_bounds_ne_refuted :
  exists c tab q hi nu,
    match_bounds false c = Some tab /\ In (q, (None, Some hi)) tab /\
    holds (fun _ _ _ => True) nu (fun _ => 0) c /\ ~ nu q <= hi.
Proof. exact match_bounds_ne_refuted. Qed.
Print Assumptions C08_match_bounds_ne_refuted.

Theorem C08_dist_clamp_sound : forall b l u d,
  0 <= d -> lo_ok (fst b) d -> hi_ok (snd b) d -> dist_clamp b = Some (l, u) -> l <= d /\ hi_ok u d.
Proof. exact dist_clamp_sound. Qed.
Print Assumptions C08_dist_clamp_sound.

Theorem C08_rh_clamp_sound : forall pi b l u x,
  - pi <= x <= pi -> lo_ok (fst b) x -> hi_ok (snd b) x -> rh_clamp pi b = Some (l, u) -> l <= x <= u.
Proof. exact rh_clamp_sound. Qed.
Print Assumptions C08_rh_clamp_sound.

(* relative-heading ranges: sound for un-normalised differences of non-wrapping arcs ... *)
Theorem C08_rh_range_sound_unnormalised : forall pi bh oL oR th tL tR p tp,
  let lower := normalize pi (bh + oL) in let upper := normalize pi (bh + oR) in
  let tlower := normalize pi (th + tL) in let tupper := normalize pi (th + tR) in
  lower <= upper -> tlower <= tupper ->
  lower <= p <= upper -> tlower <= tp <= tupper ->
  fst (rh_range pi bh oL oR th tL tR) <= tp - p <= snd (rh_range pi bh oL oR th tL tR).
Proof. exact rh_range_sound_unnormalised. Qed.
Print Assumptions C08_rh_range_sound_unnormalised.

(* ... but refuted for the actual (normalised) relative heading at the +-pi seam (F12) *)
Theorem C08_rh_range_refuted :
  exists pi bh th, 3 < pi /\
    let r := rh_range pi bh 0 0 th 0 0 in
    let actual := normalize pi (th - bh) in
    (qleb (fst r) actual && qleb actual (snd r)) = false
    /\ rh_overlap r 0 1 = false
    /\ (qleb 0 actual && qleb actual 1) = true.
Proof. exact rh_range_refuted. Qed.
Print Assumptions C08_rh_range_refuted.

(* the geometric core of containment pruning, in any metric space *)
Theorem C08_erosion_sound : forall (P : Type) (dist : P -> P -> Q),
  (forall a b c, dist a c <= dist a b + dist b c) -> (forall a b, dist a b == dist b a) ->
  forall (C : P -> Prop) pos centre r d,
    ball_in' P dist C centre r -> dist pos centre <= d -> ball_in' P dist C pos (r - d).
Proof. exact erosion_sound. Qed.
Print Assumptions C08_erosion_sound.

Theorem C08_erode_iterations_safe : forall maxErosion h,
  0 < h -> inject_Z (erode_iterations maxErosion h) * h <= maxErosion - h.
Proof. exact erode_iterations_safe. Qed.
Print Assumptions C08_erode_iterations_safe.

Theorem C08_buffer_iterations_fixed_sufficient : forall minBuffer pitch ext,
  0 < pitch -> 0 < ext ->
  minBuffer <= inject_Z (buffer_iterations_fixed minBuffer pitch ext) * target_pitch pitch ext.
Proof. exact buffer_iterations_fixed_sufficient. Qed.
Print Assumptions C08_buffer_iterations_fixed_sufficient.

(* F13 (arithmetic part) *)
Theorem C08_buffer_iterations_sufficient_refuted :
  exists minBuffer pitch ext, 0 < pitch /\ 0 < ext /\
    inject_Z (buffer_iterations_asis minBuffer pitch) * target_pitch pitch ext < minBuffer.
Proof. exact buffer_iterations_sufficient_refuted. Qed.
Print Assumptions C08_buffer_iterations_sufficient_refuted.

(* pruning to any region containing all accepted positions keeps the accepted outcomes, with multiplicities *)
Theorem C08_conditioning_preserves : forall (A : Type) (base : list A) (req k : A -> bool),
  (forall a, In a base -> req a = true -> k a = true) ->
  filter req (filter k base) = filter req base.
Proof. exact conditioning_preserves. Qed.
Print Assumptions C08_conditioning_preserves.

Example C08_examples :
  match_bounds true {| c_left := TConst 2; c_rest := [(LtE, TAtom 0); (Lt, TConst 9)] |} = Some [(0%nat, (Some 2, Some 9))] /\
  match_bounds true {| c_left := TAbs (TSub (TAtom 1) (TConst 3)); c_rest := [(Lt, TConst 1)] |} = Some [(1%nat, (Some (-1 + 3), Some (1 + 3)))] /\
  match_bounds true {| c_left := TAtom 0; c_rest := [(NotEq, TConst 5)] |} = Some [].
Proof. vm_compute. repeat split. Qed.

(* ---------------------------------------------------------------- visibility plumbing (round 2) *)
(* maxDistanceBetween: in every scene (any metric space) that satisfies the visibility specifiers and the distance
   requirements, and whose visible distances / camera offsets / radii respect their static bounds, the two centres
   are at most the returned bound apart -- for all four visibility branches and the requirement scan *)
Theorem C08_max_distance_sound : forall (P : Type) (dist : P -> P -> Q),
  (forall a b c, dist a c <= dist a b + dist b c) -> (forall a b, dist a b == dist b a) ->
  forall (pos cam : nat -> P) (pts : nat -> P -> Prop) (vdist : nat -> Q) (ego : nat) (objs : list vobj) (rels : list (list drel)),
    (forall k v, vd_up (nth k objs no_obj) = Some v -> vdist k <= v) ->
    (forall k c, cam_hyp (nth k objs no_obj) = Some c -> dist (pos k) (cam k) <= c) ->
    (forall k r, rad_up (nth k objs no_obj) = Some r -> forall x, pts k x -> dist (pos k) x <= r) ->
    (forall k, req_vis (nth k objs no_obj) = true -> sees P dist cam pts vdist ego k) ->
    (forall k j, observer (nth k objs no_obj) = Some j -> sees P dist cam pts vdist j k) ->
    (forall i t u, In (t, Some u) (nth i rels []) -> dist (pos i) (pos t) <= u) ->
    forall fixed i j d, max_distance_between fixed ego objs rels i j = EFin d -> dist (pos i) (pos j) <= d.
Proof. exact max_distance_sound. Qed.
Print Assumptions C08_max_distance_sound.

(* the observer's visibleDistance and the OBSERVED object's radius: swapping them is unsound *)
Theorem C08_vis_bound_swapped_refuted :
  exists (o t : vobj) (d : Q), vis_bound t o = Some d /\ exists q, vis_bound o t = Some q /\ d < q.
Proof. exact vis_bound_swapped_refuted. Qed.
Print Assumptions C08_vis_bound_swapped_refuted.

(* pruneVisibility: the sampled point of an object seen through a view region lies in the view region buffered by
   radius + maxDistance (so intersecting the base with any superset of that buffer loses nothing) *)
Theorem C08_visibility_buffer_sound : forall (P : Type) (dist : P -> P -> Q),
  (forall a b c, dist a c <= dist a b + dist b c) ->
  forall (pos : nat -> P) (pts : nat -> P -> Prop) (view : P -> Prop) k (base : P) radius maxDistance,
    dist base (pos k) <= maxDistance ->
    (forall x, pts k x -> dist (pos k) x <= radius) ->
    (exists x, pts k x /\ view x) ->
    buffered P dist view (radius + maxDistance) base.
Proof. exact visibility_buffer_sound. Qed.
Print Assumptions C08_visibility_buffer_sound.

(* relative-heading ranges, wrapping arcs included: every un-normalised difference of headings lying between
   two of the points the code lists is inside the returned range *)
Theorem C08_rh_range_sound_hull : forall pi bh oL oR th tL tR p tp a b c d,
  In a (rh_points pi bh oL oR) -> In b (rh_points pi bh oL oR) -> a <= p <= b ->
  In c (rh_points pi th tL tR) -> In d (rh_points pi th tL tR) -> c <= tp <= d ->
  fst (rh_range pi bh oL oR th tL tR) <= tp - p <= snd (rh_range pi bh oL oR th tL tR).
Proof. exact rh_range_sound_hull. Qed.
Print Assumptions C08_rh_range_sound_hull.

(* F12 repaired (fix-C08-rh-wrap): testing the range shifted by -2pi, 0, 2pi never drops a pair of cells in which
   the NORMALISED relative heading of some admissible pair of headings satisfies the requirement's bounds *)
Theorem C08_rh_overlap_fixed_sound : forall pi bh oL oR th tL tR p tp a b c d lowerBound upperBound,
  0 < pi ->
  In a (rh_points pi bh oL oR) -> In b (rh_points pi bh oL oR) -> a <= p <= b ->
  In c (rh_points pi th tL tR) -> In d (rh_points pi th tL tR) -> c <= tp <= d ->
  - pi <= p <= pi -> - pi <= tp <= pi ->
  lowerBound <= normalize pi (tp - p) <= upperBound ->
  rh_overlap_fixed pi (rh_range pi bh oL oR th tL tR) lowerBound upperBound = true.
Proof. exact rh_overlap_fixed_sound. Qed.
Print Assumptions C08_rh_overlap_fixed_sound.

Theorem C08_rh_overlap_fixed_repairs_witness :
  let pi := 22 # 7 in let r := rh_range pi 3 0 0 (-3) 0 0 in
  rh_overlap r 0 1 = false /\ rh_overlap_fixed pi r 0 1 = true.
Proof. exact rh_overlap_fixed_repairs_witness. Qed.
Print Assumptions C08_rh_overlap_fixed_repairs_witness.

(* bufferHelper's retry loop ends: the pitch doubles up to 1, where the bounding-box path cannot fail *)
Theorem C08_buffer_retry_terminates : forall (R : Type) (attempt : Q -> option R),
  (forall p, 1 <= p -> attempt p <> None) ->
  forall k p, 1 <= inject_Z (2 ^ Z.of_nat k) * p -> retry R attempt (S k) p <> None.
Proof. exact buffer_retry_terminates. Qed.
Print Assumptions C08_buffer_retry_terminates.
Theorem C08_buffer_retry_terminates_0_15 : forall (R : Type) (attempt : Q -> option R),
  (forall p, 1 <= p -> attempt p <> None) -> retry R attempt 4 pruning_pitch <> None.
Proof. exact buffer_retry_terminates_0_15. Qed.
Print Assumptions C08_buffer_retry_terminates_0_15.

(* pruneContainment's retry loop as it is: always attempts at PRUNING_PITCH, so a single failure loops forever *)
Theorem C08_erosion_retry_asis_refuted :
  exists attempt : Q -> option unit,
    (forall p, ~ p == pruning_pitch -> attempt p <> None) /\
    forall fuel, retry_asis unit attempt fuel pruning_pitch = None.
Proof. exact erosion_retry_asis_refuted. Qed.
Print Assumptions C08_erosion_retry_asis_refuted.
(* repaired (attempt at the current pitch, give up after pitch 1): always ends *)
Theorem C08_erosion_retry_giveup_terminates : forall (R : Type) (attempt : Q -> option R) k p,
  1 <= inject_Z (2 ^ Z.of_nat k) * p -> retry_giveup R attempt (S k) p <> None.
Proof. exact erosion_retry_giveup_terminates. Qed.
Print Assumptions C08_erosion_retry_giveup_terminates.

(* checkConditionedCycle ends on every finite dependency graph (n nodes, out-degree <= D), cyclic or not *)
Theorem C08_cycle_check_terminates : forall (deps : nat -> list nat) (n D : nat),
  (forall v, (v < n)%nat -> Forall (fun d => (d < n)%nat) (deps v)) ->
  (forall v, (length (deps v) <= D)%nat) ->
  forall a b, (a < n)%nat -> check_cycle deps (D * n + D + 1) a b <> None.
Proof. exact cycle_check_terminates. Qed.
Print Assumptions C08_cycle_check_terminates.

Example C08_visibility_examples :
  (* ego (visibleDistance 60, radius 1) observes object 1 (visibleDistance 50, radius 2): both directions 62 *)
  let objs := [mk_vobj (Some 60) (Some 0) (Some 1) false None; mk_vobj (Some 50) (Some 0) (Some 2) false (Some 0%nat)] in
  max_distance_between false 0 objs [[]; []] 0 1 = EFin 62 /\ max_distance_between false 0 objs [[]; []] 1 0 = EFin 62 /\
  (* an unknown bound makes min(inf, None) raise; repaired: skipped *)
  max_distance_between false 0 [mk_vobj (Some 50) None (Some 1) false None; mk_vobj (Some 50) (Some 0) (Some 2) true None] [[]; []] 0 1 = EErr /\
  max_distance_between true 0 [mk_vobj (Some 50) None (Some 1) false None; mk_vobj (Some 50) (Some 0) (Some 2) true None] [[]; [(0%nat, Some 7)]] 1 0 = EFin 7 /\
  (let deps := fun v => match v with 0 => [1; 2] | 1 => [3] | 2 => [3] | _ => [] end%nat in
   check_cycle deps 11 0 3 = Some true /\ check_cycle deps 11 3 0 = Some false).
Proof. vm_compute. repeat split. Qed.

(* ---- round 3: the bounding-box fast path of MeshVolumeRegion._bufferOverapproximate (pitch >= 1), used by
   pruneVisibility when the observer's view region is random.  [buffer_box bounds b] is the (position, dimension)
   pair per axis of the returned BoxRegion: midpoint of the bounds, extent + 2 b.  Any point whose sup-norm
   distance to a point of the bounding box is <= b (in particular any point within Euclidean distance b) lies
   in the returned box; any dimension. *)
Theorem C08_buffer_box_sufficient : forall bounds b p q,
  in_bounds bounds p -> sup_within b p q -> in_box (buffer_box bounds b) q.
Proof. exact buffer_box_sufficient. Qed.
Print Assumptions C08_buffer_box_sufficient.

Theorem C08_buffer_box_sufficient_euclid : forall l1 h1 l2 h2 l3 h3 b x1 x2 x3 y1 y2 y3,
  0 <= b ->
  in_bounds [(l1, h1); (l2, h2); (l3, h3)] [x1; x2; x3] ->
  sqdist3 (x1, x2, x3) (y1, y2, y3) <= b * b ->
  in_box (buffer_box [(l1, h1); (l2, h2); (l3, h3)] b) [y1; y2; y3].
Proof. exact buffer_box_sufficient_euclid. Qed.
Print Assumptions C08_buffer_box_sufficient_euclid.

(* each face of the returned box is exactly b outside the bounds *)
Theorem C08_buffer_box_faces : forall lo hi b,
  box_mid lo hi - box_ext lo hi b / 2 == lo - b /\ box_mid lo hi + box_ext lo hi b / 2 == hi + b.
Proof. exact buffer_box_faces. Qed.
Print Assumptions C08_buffer_box_faces.

(* 2 b is needed: a box grown by k b in total with k < 2 (k = 1: `extents + minBuffer`) misses, for every
   non-empty bounding interval and every positive buffer, a point within b of the bounds *)
Theorem C08_buffer_box_k_insufficient : forall k lo hi b,
  k < 2 -> 0 < b -> lo <= hi ->
  in_bounds [(lo, hi)] [hi] /\ sup_within b [hi] [hi + b] /\ ~ in_box (buffer_box_k k [(lo, hi)] b) [hi + b].
Proof. exact buffer_box_k_insufficient. Qed.
Print Assumptions C08_buffer_box_k_insufficient.

(* non-vacuity: hypotheses of C08_buffer_box_sufficient are satisfiable (corner (3,-2,1) of the box moved by 1/2 on two axes) *)
Example C08_buffer_box_example :
  in_bounds [(1, 3); (-2, 2); (0, 1)] [3; -2; 1] /\ sup_within (1 # 2) [3; -2; 1] [7 # 2; -5 # 2; 1]
  /\ in_box (buffer_box [(1, 3); (-2, 2); (0, 1)] (1 # 2)) [7 # 2; -5 # 2; 1]
  /\ box_mid 1 3 == 2 /\ box_ext 1 3 (1 # 2) == 3.
Proof. exact buffer_box_example. Qed.
