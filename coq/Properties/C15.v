(* C15 — property theorems.  Statements only: each is closed by [exact] of a lemma proved in
   coq/C15/ (or coq/C02/), followed by Print Assumptions. *)
From Coq Require Import ZArith List Bool Permutation.
From Scenic Require Import C02.Checker C02.CheckerProofs C15.Determinism C15.DeterminismProofs.
Import ListNotations.

(* randomness consumed while checking does not perturb the user-visible stream *)
Theorem C15_rng_restore : forall saved k, restore saved (skip k saved) = saved.
Proof. exact rng_restore. Qed.
Print Assumptions C15_rng_restore.

(* wall-clock cost keys, buffer state and clock cannot change accept/reject (from C02) *)
Theorem C15_verdict_indep_of_keys : forall lt lt' st st' rs s durs durs',
  optional_implied rs s ->
  is_accept (snd (check_with lt st rs s durs)) = is_accept (snd (check_with lt' st' rs s durs')).
Proof. exact verdict_order_independent. Qed.
Print Assumptions C15_verdict_indep_of_keys.

(* scene, iteration count and RNG state returned do not depend on any adversarial parameter,
   provided the dependency tuple does not depend on the container order *)
Theorem C15_output_indep_of_adversary : forall n P pi pi' A A' r,
  optional_ok P r -> deps_order_fixed P pi pi' ->
  generate n P (gather_set pi) A r = generate n P (gather_set pi') A' r.
Proof. exact output_indep_of_adversary. Qed.
Print Assumptions C15_output_indep_of_adversary.

(* repaired collection: no such proviso is left *)
Theorem C15_output_indep_of_adversary_ordered : forall n P A A' r, optional_ok P r ->
  generate n P gather_ordered A r = generate n P gather_ordered A' r.
Proof. exact output_indep_of_adversary_ordered. Qed.
Print Assumptions C15_output_indep_of_adversary_ordered.

Theorem C15_gather_ordered_spec : forall bs,
  NoDup (gather_ordered bs) /\ (forall x, In x (gather_ordered bs) <-> In x (concat bs)).
Proof. exact gather_ordered_spec. Qed.
Print Assumptions C15_gather_ordered_spec.

(* F2: with requirement dependencies gathered in a set, two admissible iteration orders give
   different values to the same random variable *)
Theorem C15_deps_order_refuted : exists P pi pi' n A r,
  (forall l, Permutation (pi l) l) /\ (forall l, Permutation (pi' l) l) /\
  value_of 0 (generate n P (gather_set pi) A r) <> value_of 0 (generate n P (gather_set pi') A r).
Proof. exact deps_order_refuted. Qed.
Print Assumptions C15_deps_order_refuted.

(* the j-th scene of a batch depends on the seed and j only, not on what the checker learnt *)
Theorem C15_batch_indep_of_history : forall m n P gather A A' j j' r,
  (forall r, optional_ok P r) ->
  batch m n P gather A j r = batch m n P gather A' j' r.
Proof. exact batch_indep_of_history. Qed.
Print Assumptions C15_batch_indep_of_history.

Theorem C15_no_optional_ok : forall P, (forall u, In u (p_reqs P) -> q_optional u = false) ->
  forall r, optional_ok P r.
Proof. exact no_optional_ok. Qed.
Print Assumptions C15_no_optional_ok.

(* non-vacuity: the witness program satisfies the hypothesis and generates something *)
Example C15_examples :
  (forall r, optional_ok f2_prog r)
  /\ value_of 1 (generate 1 f2_prog gather_ordered adv0 rng0) = Some (Some 1%Z)
  /\ gather_ordered [[3; 1]; [1; 2; 3]; [0]] = [3; 1; 2; 0].
Proof.
  split; [|split; vm_compute; reflexivity].
  apply no_optional_ok. intros u [<-|[]]. reflexivity.
Qed.
