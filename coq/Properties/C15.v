(* C15 — property theorems.  Statements only: each is closed by [exact] of a lemma proved in
   coq/C15/ (or coq/C02/), followed by Print Assumptions. *)
From Coq Require Import ZArith List Bool Permutation.
From Coq Require Import Sorted.
From Scenic Require Import C02.Checker C02.CheckerProofs C15.Determinism C15.DeterminismProofs
  C15.SpecOrder C15.SpecOrderProofs C15.RegionSampler C15.RegionSamplerProofs.
Import ListNotations.

(* randomness consumed while checking does not perturb the user-visible stream *)
Theorem C15_rng_restore : forall saved k, restore saved (skip k saved) = saved.
Proof. exact rng_restore. Qed.
Print Assumptions C15_rng_restore.

(* wall-clock cost keys, buffer state and clock cannot change accept/reject (from C02) *)
Theorem C15_verdict_indep_of_keys : forall lt lt' st st' rs s durs durs',
  optional_implied rs s ->
  is_accept (snd (check_with lt st rs s durs)) = is_accept (snd (check_with lt' st' rs s durs')).
Proof. exact verdict_order_independent. Qed.
Print Assumptions C15_verdict_indep_of_keys.

(* scene, iteration count and RNG state returned do not depend on any adversarial parameter,
   provided the dependency tuple does not depend on the container order *)
Theorem C15_output_indep_of_adversary : forall n P pi pi' A A' r,
  optional_ok P r -> deps_order_fixed P pi pi' ->
  generate n P (gather_set pi) A r = generate n P (gather_set pi') A' r.
Proof. exact output_indep_of_adversary. Qed.
Print Assumptions C15_output_indep_of_adversary.

(* repaired collection: no such proviso is left *)
Theorem C15_output_indep_of_adversary_ordered : forall n P A A' r, optional_ok P r ->
  generate n P gather_ordered A r = generate n P gather_ordered A' r.
Proof. exact output_indep_of_adversary_ordered. Qed.
Print Assumptions C15_output_indep_of_adversary_ordered.

Theorem C15_gather_ordered_spec : forall bs,
  NoDup (gather_ordered bs) /\ (forall x, In x (gather_ordered bs) <-> In x (concat bs)).
Proof. exact gather_ordered_spec. Qed.
Print Assumptions C15_gather_ordered_spec.

(* F2: with requirement dependencies gathered in a set, two admissible iteration orders give
   different values to the same random variable *)
Theorem C15_deps_order_refuted : exists P pi pi' n A r,
  (forall l, Permutation (pi l) l) /\ (forall l, Permutation (pi' l) l) /\
  value_of 0 (generate n P (gather_set pi) A r) <> value_of 0 (generate n P (gather_set pi') A r).
Proof. exact deps_order_refuted. Qed.
Print Assumptions C15_deps_order_refuted.

(* the j-th scene of a batch depends on the seed and j only, not on what the checker learnt *)
Theorem C15_batch_indep_of_history : forall m n P gather A A' j j' r,
  (forall r, optional_ok P r) ->
  batch m n P gather A j r = batch m n P gather A' j' r.
Proof. exact batch_indep_of_history. Qed.
Print Assumptions C15_batch_indep_of_history.

Theorem C15_no_optional_ok : forall P, (forall u, In u (p_reqs P) -> q_optional u = false) ->
  forall r, optional_ok P r.
Proof. exact no_optional_ok. Qed.
Print Assumptions C15_no_optional_ok.

(* ---------------------------------------------------------------- specifier resolution order *)
(* sorted(deps) is a sort, and its output is determined by the SET: any iteration order of the
   dependency set (string hashes, PYTHONHASHSEED) gives the same requiredProperties tuple *)
Theorem C15_sorted_deps_canonical : forall l l',
  Permutation l l' -> nsort l = nsort l' /\ Sorted le (nsort l) /\ Permutation (nsort l) l.
Proof. exact sorted_deps_canonical. Qed.
Print Assumptions C15_sorted_deps_canonical.

(* the order in which _resolveSpecifiers evaluates the specifiers (hence the insertion order of the
   object's property dict) is the same for all iteration orders pi, pi' of the dependency sets *)
Theorem C15_spec_order_indep_of_hash : forall pi pi' specs,
  (forall l, Permutation (pi l) l) -> (forall l, Permutation (pi' l) l) ->
  resolve (present_sorted pi) specs = resolve (present_sorted pi') specs
  /\ prop_order (present_sorted pi) specs = prop_order (present_sorted pi') specs.
Proof. exact spec_order_indep_of_hash. Qed.
Print Assumptions C15_spec_order_indep_of_hash.

(* ... and so are the values drawn, the order of the draws and the RNG state after sampling an
   object whose sampling dependencies are its property values in dict order *)
Theorem C15_draws_indep_of_hash : forall pi pi' specs g obj pn ev deps r,
  (forall l, Permutation (pi l) l) -> (forall l, Permutation (pi' l) l) ->
  sample_all (object_dag g obj pn (present_sorted pi) specs) ev deps r
  = sample_all (object_dag g obj pn (present_sorted pi') specs) ev deps r.
Proof. exact draws_indep_of_hash. Qed.
Print Assumptions C15_draws_indep_of_hash.

(* every specifier is evaluated (the search loses none) *)
Theorem C15_spec_order_complete : forall present specs i, i < length specs -> In i (resolve present specs).
Proof. exact resolve_complete. Qed.
Print Assumptions C15_spec_order_complete.

(* seeded regression C15-2 (requiredProperties = tuple(deps)): two iteration orders of the same sets
   give different property orders and a different value to the same random property *)
Theorem C15_spec_order_unsorted_refuted : exists specs pi pi' g obj pn ev deps r,
  (forall l, Permutation (pi l) l) /\ (forall l, Permutation (pi' l) l) /\
  prop_order (present_raw pi) specs <> prop_order (present_raw pi') specs /\
  lookup (ss_memo (sample_all (object_dag g obj pn (present_raw pi) specs) ev deps r)) 0
  <> lookup (ss_memo (sample_all (object_dag g obj pn (present_raw pi') specs) ev deps r)) 0.
Proof. exact resolve_unsorted_refuted. Qed.
Print Assumptions C15_spec_order_unsorted_refuted.

(* ---------------------------------------------------------------- private generators *)
(* any number of draws from private generators (default_rng(seed) objects) leaves the global
   generator untouched; in general the global cursor moves by the number of global draws *)
Theorem C15_private_draws_keep_global : forall ops w,
  (forallb is_private ops = true -> w_glob (run_ops ops w) = w_glob w)
  /\ w_glob (run_ops ops w) = skip (n_global ops) (w_glob w).
Proof. exact private_draws_keep_global. Qed.
Print Assumptions C15_private_draws_keep_global.

(* scene, iteration count and returned RNG state do not depend on what the checks do to ANY
   generator (arbitrary op sequences per rejection iteration), nor on the other adversaries *)
Theorem C15_output_indep_of_check_randomness : forall n P gather A A' ops ops' r, optional_ok P r ->
  generate_ops n P gather A ops r = generate_ops n P gather A' ops' r.
Proof. exact generate_ops_indep. Qed.
Print Assumptions C15_output_indep_of_check_randomness.

(* with the restore hoisted out of the rejection loop the output is still right as long as checks
   draw from private generators only ... *)
Theorem C15_late_restore_private_ok : forall n P gather A ops r,
  (forall k, forallb is_private (ops k) = true) ->
  generate_late n P gather A ops r = generate n P gather A r.
Proof. exact generate_late_private_ok. Qed.
Print Assumptions C15_late_restore_private_ok.

(* ... but (seeded regression C15-1) global draws made while checking a rejected candidate show *)
Theorem C15_late_restore_refuted : exists P n A ops ops' r,
  (forall r, optional_ok P r) /\
  value_of 0 (generate_late n P gather_ordered A ops r) <> value_of 0 (generate_late n P gather_ordered A ops' r).
Proof. exact late_restore_refuted. Qed.
Print Assumptions C15_late_restore_refuted.

(* non-vacuity: the witness program satisfies the hypothesis and generates something *)
Example C15_examples :
  (forall r, optional_ok f2_prog r)
  /\ value_of 1 (generate 1 f2_prog gather_ordered adv0 rng0) = Some (Some 1%Z)
  /\ gather_ordered [[3; 1]; [1; 2; 3]; [0]] = [3; 1; 2; 0].
Proof.
  split; [|split; vm_compute; reflexivity].
  apply no_optional_ok. intros u [<-|[]]. reflexivity.
Qed.

(* non-vacuity of the new statements: `total: self.alpha + self.beta` before alpha and beta resolves to
   alpha, beta, total whichever way the set {alpha, beta} is iterated; a reversal is a permutation; an op
   sequence with private draws only exists and leaves the cursor; one with global draws moves it *)
Example C15_examples_spec :
  prop_order (present_sorted (fun l => l)) specs_w = [0; 1; 2]
  /\ prop_order (present_sorted (@rev nat)) specs_w = [0; 1; 2]
  /\ prop_order (present_raw (@rev nat)) specs_w = [1; 0; 2]
  /\ (forall l : list nat, Permutation (rev l) l)
  /\ forallb is_private [PNew Z.of_nat; PDraw 0; PDraw 0] = true
  /\ cursor (w_glob (run_ops [PNew Z.of_nat; PDraw 0; PDraw 0] (mkW rng0 []))) = 0
  /\ cursor (w_glob (run_ops [GDraw; PNew Z.of_nat; PDraw 0; GDraw] (mkW rng0 []))) = 2
  /\ value_of 0 (generate_late 3 late_prog gather_ordered adv0 (fun _ => []) rng0) = Some (Some 1%Z).
Proof.
  repeat split; try (vm_compute; reflexivity).
  intro l. apply Permutation_sym, Permutation_rev.
Qed.

(* ---------------------------------------------------------------------------------------------------------
   Round 3: region samplers as functions of the two seeded global streams (Python's `random`, NumPy's global
   generator); [entropy] = what the OS hands to a generator created without a seed, different in every process *)

(* a sampler whose draws all come from the seeded streams returns the same value and leaves the same machine
   state whatever the process's entropy *)
Theorem C15_region_sampler_indep_of_entropy : forall e e' s m,
  seeded s = true -> rsample e s m = rsample e' s m.
Proof. exact sample_seeded_indep. Qed.
Print Assumptions C15_region_sampler_indep_of_entropy.

(* whole scenes (any number of region samplers, any acceptance test, any iteration bound): values, both stream
   cursors and the number of iterations coincide in all processes *)
Theorem C15_region_scene_indep_of_entropy : forall e e' n ss ok m,
  forallb seeded ss = true -> gen_scene e n ss ok m = gen_scene e' n ss ok m.
Proof. exact gen_scene_seeded_indep. Qed.
Print Assumptions C15_region_scene_indep_of_entropy.

(* VoxelRegion.uniformPointInner as it is (index from Python's stream, offset from NumPy's stream) *)
Theorem C15_voxel_sampler_deterministic : forall pts scale e e' m,
  rsample e (voxel pts scale) m = rsample e' (voxel pts scale) m.
Proof. exact voxel_deterministic. Qed.
Print Assumptions C15_voxel_sampler_deterministic.

(* drawing from the two streams in the other order gives the same two values and the same state *)
Theorem C15_draws_across_streams_commute : forall e m,
  let '(u, m1) := sstep e m NpDraw in let '(i, m2) := sstep e m1 PyDraw in
  let '(i', m1') := sstep e m PyDraw in let '(u', m2') := sstep e m1' NpDraw in
  u = u' /\ i = i' /\ m2 = m2'.
Proof. exact draws_across_streams_commute. Qed.
Print Assumptions C15_draws_across_streams_commute.

(* seeded regression C15-3 (offset from numpy.random.default_rng()): every rsample still lies in the voxel chosen
   by the seeded stream, for every entropy ... *)
Theorem C15_voxel_entropy_stays_in_voxel : forall pts scale e m, (0 < scale)%Z ->
  (voxel_base pts (s_py (m_st m)) <= fst (rsample e (voxel_bug pts scale) m) < voxel_base pts (s_py (m_st m)) + scale)%Z.
Proof. exact voxel_bug_in_voxel. Qed.
Print Assumptions C15_voxel_entropy_stays_in_voxel.

(* ... yet the position differs between two processes with the same seeds, while both seeded streams end in the
   same state (so a comparison of RNG states alone cannot see it: positions must be compared bit for bit) *)
Theorem C15_voxel_entropy_refuted : exists pts scale m e e',
  (0 < scale)%Z /\ fst (rsample e (voxel_bug pts scale) m) <> fst (rsample e' (voxel_bug pts scale) m)
  /\ snd (rsample e (voxel_bug pts scale) m) = snd (rsample e' (voxel_bug pts scale) m).
Proof. exact voxel_entropy_refuted. Qed.
Print Assumptions C15_voxel_entropy_refuted.

Theorem C15_region_scene_entropy_refuted : exists ss ok n m e e',
  fst (fst (gen_scene e n ss ok m)) <> fst (fst (gen_scene e' n ss ok m))
  /\ m_st (snd (fst (gen_scene e n ss ok m))) = m_st (snd (fst (gen_scene e' n ss ok m))).
Proof. exact gen_scene_entropy_refuted. Qed.
Print Assumptions C15_region_scene_entropy_refuted.

(* non-vacuity: seeded samplers exist (the voxel sampler, a scene of two of them) and compute something; the
   regressed sampler is not seeded; a rejection loop that rejects the first candidate uses two iterations *)
Example C15_examples_region :
  seeded (voxel [10; 20; 30]%Z 8%Z) = true
  /\ forallb seeded [voxel [10; 20; 30]%Z 8%Z; voxel [1; 2]%Z 4%Z] = true
  /\ seeded (voxel_bug [10; 20; 30]%Z 8%Z) = false
  /\ fst (rsample (fun _ => 0%Z) (voxel [10; 20; 30]%Z 8%Z) (mkM (mkS (mkRng Z.of_nat 1) (mkRng Z.of_nat 5)) 0)) = 25%Z
  /\ snd (gen_scene (fun _ => 0%Z) 5 [voxel [10; 20; 30]%Z 8%Z] (fun vs => match vs with [v] => Z.leb 20 v | _ => false end) m0) = 2.
Proof. repeat split; vm_compute; reflexivity. Qed.
