(* C02 — property theorems.  Statements only: each is closed by [exact] of a lemma proved in
   coq/C02/, followed by Print Assumptions. *)
From Coq Require Import ZArith List Bool Sorted.
From Scenic Require Import C02.Checker C02.CheckerProofs C02.Defaults C02.DefaultsProofs C02.Basic C02.BasicProofs C02.DropProofs.
Import ListNotations.

(* An accepted sample satisfies every active mandatory requirement — for EVERY comparison
   function (hence every cost key, buffer history and clock), every checker state and every
   sequence of durations. *)
Theorem C02_accept_sound : forall (lt : req -> req -> bool) (st : cstate) rs s durs,
  snd (check_with lt st rs s durs) = Accept ->
  forall r, In r rs -> active r = true -> optional r = false -> s (rid r) = false.
Proof. exact accept_sound. Qed.
Print Assumptions C02_accept_sound.

(* the concrete checker (cost key from the buffers) is an instance, after any history *)
Theorem C02_accept_sound_after_history : forall B n h rs s durs,
  snd (check B (run_history B (init_state B n) h) rs s durs) = Accept -> all_mandatory_hold rs s.
Proof. intros B n h rs s durs. exact (accept_sound _ _ rs s durs). Qed.
Print Assumptions C02_accept_sound_after_history.

Theorem C02_accept_complete : forall lt st rs s durs,
  (forall r, In r rs -> active r = true -> s (rid r) = false) ->
  snd (check_with lt st rs s durs) = Accept.
Proof. exact accept_complete. Qed.
Print Assumptions C02_accept_complete.

(* a rejection names a requirement of the list that is active and really falsified *)
Theorem C02_reject_sound : forall lt st rs s durs k,
  snd (check_with lt st rs s durs) = Reject k ->
  exists r, In r rs /\ active r = true /\ rid r = k /\ s k = true.
Proof. exact reject_sound. Qed.
Print Assumptions C02_reject_sound.

Theorem C02_accept_iff : forall lt st rs s durs, optional_implied rs s ->
  (snd (check_with lt st rs s durs) = Accept <-> all_mandatory_hold rs s).
Proof. exact accept_iff. Qed.
Print Assumptions C02_accept_iff.

Theorem C02_verdict_order_independent : forall lt lt' st st' rs s durs durs',
  optional_implied rs s ->
  is_accept (snd (check_with lt st rs s durs)) = is_accept (snd (check_with lt' st' rs s durs')).
Proof. exact verdict_order_independent. Qed.
Print Assumptions C02_verdict_order_independent.

(* buffers keep length bufferSize, running sums equal the buffers' sums, accepted in {0,1} *)
Theorem C02_metrics_inv : forall B n h,
  st_inv B (run_history B (init_state B n) h) /\ length (run_history B (init_state B n) h) = n.
Proof. exact metrics_inv. Qed.
Print Assumptions C02_metrics_inv.

Theorem C02_rej_prob_bounds : forall B r, rs_inv B r -> (0 <= fst (sums r) <= Z.of_nat B)%Z.
Proof. exact rs_inv_bounds. Qed.
Print Assumptions C02_rej_prob_bounds.

Theorem C02_metrics_untouched : forall B st rs s durs i,
  (forall r, In r rs -> active r = true -> rid r <> i) ->
  get (fst (check B st rs s durs)) i = get st i.
Proof. exact metrics_untouched. Qed.
Print Assumptions C02_metrics_untouched.

Theorem C02_sorted_by_cost : forall B st rs,
  Sorted (le_of (key_lt B st)) (isort (key_lt B st) (filter active rs)).
Proof. exact sorted_by_cost. Qed.
Print Assumptions C02_sorted_by_cost.

(* the built-in requirements hold exactly when the scene is OK (repaired occluder lists) *)
Theorem C02_defaults_complete : forall sc w l, consistent sc w -> default_requirements sc = Some l ->
  (SceneOK sc w <-> forall r, In r l -> doptional r = false -> dfals w r = false).
Proof. exact defaults_complete. Qed.
Print Assumptions C02_defaults_complete.

Theorem C02_blanket_implied : forall sc w l, consistent sc w -> default_requirements sc = Some l ->
  (forall a b, w_surf w a b = true -> w_inter w a b = true) ->
  forall r, In r l -> doptional r = true -> dfals w r = true ->
  exists r', In r' l /\ doptional r' = false /\ dfals w r' = true.
Proof. exact blanket_implied. Qed.
Print Assumptions C02_blanket_implied.

Theorem C02_accepted_scene_ok : forall lt st durs sc w l users u,
  consistent sc w -> default_requirements sc = Some l ->
  (forall q, In q users -> length l <= rid q) ->
  snd (check_with lt st (number 0 l ++ users) (dsample w l u) durs) = Accept ->
  SceneOK sc w /\ (forall q, In q users -> active q = true -> optional q = false -> u (rid q) = false).
Proof. exact accepted_scene_ok. Qed.
Print Assumptions C02_accepted_scene_ok.

(* F3: with the one-shot iterator the requirement list can hold on a scene that is not OK *)
Theorem C02_defaults_oneshot_refuted : exists sc w l,
  consistent sc w /\ default_requirements_oneshot sc = Some l /\
  (forall r, In r l -> doptional r = false -> dfals w r = false) /\ ~ SceneOK sc w.
Proof. exact defaults_oneshot_refuted. Qed.
Print Assumptions C02_defaults_oneshot_refuted.

(* non-vacuity: hypotheses are satisfiable; trailing optionals are dropped, inner ones kept *)
Example C02_examples :
  let rs := [mkReq 0 true true; mkReq 1 false true; mkReq 2 false false; mkReq 3 true true] in
  map rid (sorted_requirements 4 (init_state 4 4) rs) = [0; 1]
  /\ snd (check 4 (init_state 4 4) rs (fun i => Nat.eqb i 3) [5; 5]%Z) = Accept
  /\ snd (check 4 (init_state 4 4) rs (fun i => Nat.eqb i 0) [5; 5]%Z) = Reject 0
  /\ optional_implied rs (fun i => Nat.eqb i 1)
  /\ (exists l, default_requirements f3_scen = Some l /\ length l = 9)
  /\ consistent f3_scen f3_world.
Proof.
  cbv zeta. split; [vm_compute; reflexivity|]. split; [vm_compute; reflexivity|].
  split; [vm_compute; reflexivity|]. split.
  - intros r Hr _ Ho Hs. cbn in Hr.
    destruct Hr as [<-|[<-|[<-|[<-|[]]]]]; cbn in *; discriminate.
  - split; [eexists; split; vm_compute; reflexivity|].
    intro o. unfold f3_scen, f3_flags, f3_world; cbn. now split.
Qed.

(* converse: a scene that is OK and satisfies the selected user requirements is never rejected,
   whatever the order (given that colliding surfaces belong to intersecting solids) *)
Theorem C02_scene_ok_accepted : forall lt st durs sc w l users u,
  consistent sc w -> default_requirements sc = Some l ->
  (forall a b, w_surf w a b = true -> w_inter w a b = true) ->
  (forall q, In q users -> length l <= rid q /\ optional q = false) ->
  SceneOK sc w ->
  (forall q, In q users -> active q = true -> u (rid q) = false) ->
  snd (check_with lt st (number 0 l ++ users) (dsample w l u) durs) = Accept.
Proof. exact scene_ok_accepted. Qed.
Print Assumptions C02_scene_ok_accepted.

(* ---- round 2 ---------------------------------------------------------------------------------------- *)
(* The sort of sortedRequirements is STABLE, for every comparison function: a class of elements none of which
   is strictly smaller than another keeps its list order. *)
Theorem C02_sort_stable : forall (A : Type) (lt : A -> A -> bool) (p : A -> bool),
  (forall x y, p x = true -> p y = true -> lt y x = false) ->
  forall l, filter p (isort lt l) = filter p l.
Proof. exact (@isort_stable). Qed.
Print Assumptions C02_sort_stable.

(* For the concrete cost key: the requirements that TIE with a given key (neither strictly smaller by the
   cross-multiplied comparison, e.g. 1/2 and 2/4, or equal running sums) keep their declaration order. *)
Theorem C02_ties_keep_order : forall B st q rs,
  let p := fun r => cost_tie (cost_of (Z.of_nat B) (get st (rid r))) (cost_of (Z.of_nat B) (get st (rid q))) in
  filter p (isort (key_lt B st) (filter active rs)) = filter p (filter active rs).
Proof. exact sorted_ties_with_keep_order. Qed.
Print Assumptions C02_ties_keep_order.

(* and dropping the trailing optional requirements only removes a suffix of the sorted list *)
Theorem C02_sorted_requirements_prefix : forall lt rs,
  exists t, isort lt (filter active rs) = sorted_requirements_with lt rs ++ t /\
            Forall (fun r => optional r = true) t.
Proof. exact sorted_requirements_prefix. Qed.
Print Assumptions C02_sorted_requirements_prefix.

(* BasicChecker (scenic.core.sample_checking): accepted samples satisfy every active mandatory requirement,
   a rejection names an active falsified requirement, and its accept/reject verdict agrees with the weighted
   checker's for every order / state / clock of the latter and either setting of initialCollisionCheck. *)
Theorem C02_basic_accept_sound : forall icc rs s,
  basic_check icc rs s = Accept ->
  forall r, In r (map b_req rs) -> active r = true -> optional r = false -> s (rid r) = false.
Proof. exact basic_accept_sound. Qed.
Print Assumptions C02_basic_accept_sound.

Theorem C02_basic_reject_sound : forall icc rs s k, basic_check icc rs s = Reject k ->
  exists r, In r (map b_req rs) /\ active r = true /\ rid r = k /\ s k = true.
Proof. exact basic_reject_sound. Qed.
Print Assumptions C02_basic_reject_sound.

Theorem C02_basic_accept_iff : forall icc rs s, optional_implied (map b_req rs) s ->
  (basic_check icc rs s = Accept <-> all_mandatory_hold (map b_req rs) s).
Proof. exact basic_accept_iff. Qed.
Print Assumptions C02_basic_accept_iff.

Theorem C02_basic_agrees_with_weighted : forall icc rs s lt st durs,
  optional_implied (map b_req rs) s ->
  is_accept (basic_check icc rs s) = is_accept (snd (check_with lt st (map b_req rs) s durs)).
Proof. exact basic_agrees_with_weighted. Qed.
Print Assumptions C02_basic_agrees_with_weighted.

Example C02_basic_example :
  let rs := [mkB (mkReq 0 true true) true false; mkB (mkReq 1 false true) false true;
             mkB (mkReq 2 false true) false true; mkB (mkReq 3 false true) false true] in
  let s := fun i => Nat.eqb i 0 || Nat.eqb i 2 in
  basic_check true rs s = Reject 0 /\ basic_check false rs s = Reject 2 /\
  basic_check true rs (fun _ => false) = Accept.
Proof. exact basic_example. Qed.

(* non-vacuity of the stability theorem: three requirements with all-zero buffers tie and stay in order,
   while a cheaper one moves in front of them *)
Example C02_stable_example :
  isort (fun a b : nat * nat => Nat.ltb (fst a) (fst b)) [(2, 0); (1, 1); (2, 2); (1, 3); (2, 4)]%nat
  = [(1, 1); (1, 3); (2, 0); (2, 2); (2, 4)]%nat.
Proof. reflexivity. Qed.

(* ================================================================== round 3: what the optional blanket check cannot be relied on for *)
(* the verdict and the new metrics depend only on what the sample says about the requirements actually run *)
Theorem C02_verdict_depends_only_on_run : forall (lt : req -> req -> bool) st rs s s' durs,
  (forall r, In r (sorted_requirements_with lt rs) -> s (rid r) = s' (rid r)) ->
  check_with lt st rs s durs = check_with lt st rs s' durs.
Proof. exact verdict_depends_only_on_run. Qed.
Print Assumptions C02_verdict_depends_only_on_run.

Theorem C02_sorted_never_ends_optional : forall (lt : req -> req -> bool) rs d, sorted_requirements_with lt rs <> [] ->
  optional (last (sorted_requirements_with lt rs) d) = false.
Proof. exact sorted_never_ends_optional. Qed.
Print Assumptions C02_sorted_never_ends_optional.

Theorem C02_not_run_is_optional : forall (lt : req -> req -> bool) rs r, In r rs -> active r = true ->
  ~ In r (sorted_requirements_with lt rs) -> optional r = true.
Proof. exact not_run_is_optional. Qed.
Print Assumptions C02_not_run_is_optional.

(* after ONE collision-free sample in which it was the slower requirement, the optional requirement is dropped, and a sample that
   only it falsifies is accepted: the mandatory pairwise requirements must be exact on their own (seeded/C02-4) *)
Theorem C02_optional_dropped_reachable :
  exists (B : nat) (rs : list req) (h : list step) (s : sample) (durs : list Z),
    let st := run_history B (init_state B 2) h in
    s 0%nat = true /\ all_mandatory_hold rs s /\ ~ all_active_hold rs s /\
    sorted_requirements B st rs = [mkReq 1 false true] /\
    snd (check B st rs s durs) = Accept.
Proof. exact optional_dropped_reachable. Qed.
Print Assumptions C02_optional_dropped_reachable.

Theorem C02_optional_implied_necessary :
  exists (B : nat) (st : cstate) (rs : list req) (s : sample) (durs : list Z),
    st_inv B st /\ ~ optional_implied rs s /\ snd (check B st rs s durs) = Accept /\ ~ all_active_hold rs s.
Proof. exact optional_implied_necessary. Qed.
Print Assumptions C02_optional_implied_necessary.
