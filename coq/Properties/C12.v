(* C12 — property theorems.  Statements only: each is closed by [exact] of a lemma proved in
   coq/C12/DynProofs.v about the DynCore model (coq/C12/Dyn.v); the specification vocabulary
   (event classes, step shapes) is in coq/C12/Spec.v. *)
From Coq Require Import List Arith Bool QArith.
From Scenic Require C11.LTL.
From Scenic Require Import C12.Dyn C12.Spec C12.DynProofs C12.DoFor C12.Silent.
Import ListNotations.
Local Open Scope nat_scope.

(* Every iteration of the main loop, for every program, truth table, fuel and schedule: a complete
   step has the documented shape Scenario* Record* Monitor* TermCheck* Behavior_sigma(1)* ..
   Behavior_sigma(k)* Actions(sigma) SimStep Clock Update*, executeActions receives exactly the
   scheduled agents in schedule order (each exactly once), the clock advances by one, one state and one
   action-log entry are added; a terminating step is a prefix of that shape with no simulator event. *)
Theorem C12_step_order : forall qsub fuel P w mx sched s r evs,
  sim_step qsub fuel P w mx sched s = (r, evs) ->
  match r with
  | Next s' => complete_step_shape (nobjects P) (sched (time s)) (time s) evs /\
               time s' = S (time s) /\ traj s' = S (traj s) /\ (exists acts, actlog s' = acts :: actlog s) /\
               (forall m, mx = Some (S m) -> time s < S m)
  | Stop k s' => final_step_shape (sched (time s)) evs /\ time s' = time s /\
                 (forall ty, k = RDone ty -> traj s' = S (traj s) /\ actlog s' = actlog s /\
                     (ty = TTimeLimit -> exists m, mx = Some (S m) /\ S m <= time s))
  end.
Proof. exact sim_step_shape. Qed.
Print Assumptions C12_step_order.

(* the code of agent a's behaviour (and of its sub-behaviours, interrupt handlers, ...) only ever logs
   as agent a; compose blocks and the scenarios they invoke only log scenario events *)
Theorem C12_phase_events : forall fuel P w t,
  (forall m ib o subs k, Forall (ev_class m) (revents (run fuel P w t m ib o subs k))) /\
  (forall st, Forall is_scen_ev (snd (step_scen fuel P w t st))).
Proof. exact run_class. Qed.
Print Assumptions C12_phase_events.

(* nothing after termination: the whole log is complete steps followed by one final prefix *)
Theorem C12_nothing_after_termination : forall qsub n fuel P w mx sched s res evs,
  sim_loop qsub n fuel P w mx sched s = (res, evs) ->
  loop_log_shape (nobjects P) sched (time s) (r_time res) evs /\ time s <= r_time res.
Proof. exact sim_loop_shape. Qed.
Print Assumptions C12_nothing_after_termination.

(* one state per step, one action entry per executed step, the step limit is exact *)
Theorem C12_one_state_one_action_entry_step_limit_exact : forall qsub n fuel P w mx sched res evs,
  simulate qsub n fuel P w mx sched = (res, evs) -> is_done (r_kind res) ->
  r_traj res = r_time res + 1 /\ length (r_actions res) = r_time res /\
  (forall m, mx = Some (S m) -> r_time res <= S m /\ (r_kind res = RDone TTimeLimit -> r_time res = S m)) /\
  (mx = None -> r_kind res <> RDone TTimeLimit).
Proof. exact simulate_counts. Qed.
Print Assumptions C12_one_state_one_action_entry_step_limit_exact.

(* terminate after n steps on the top-level scenario *)
Theorem C12_terminate_after_exact : forall qsub n0 fuel P w mx sched sc n res evs,
  nth_error (p_scenarios P) 0 = Some sc -> s_limit sc = Some (inject_Z (Z.of_nat n)) ->
  simulate qsub n0 fuel P w mx sched = (res, evs) -> is_done (r_kind res) ->
  r_time res <= n /\ (r_time res = n -> r_kind res = RDone TScenarioComplete).
Proof. exact terminate_after_exact. Qed.
Print Assumptions C12_terminate_after_exact.

(* a scenario (at any nesting depth) whose time limit is reached stops before running its compose block;
   otherwise its elapsed time grows by exactly one per step *)
Theorem C12_scenario_elapsed : forall fuel P w t sid el k mons reqs subs st' e,
  step_scen fuel P w t (SState sid el k mons reqs subs) = (SCont st', e) ->
  (exists k' reqs' subs' er, st' = SState sid (S el) k' mons reqs' subs' /\ update_reqs P w t sid reqs = (reqs', false, er)) /\
  (forall sc, nth_error (p_scenarios P) sid = Some sc -> limit_reached sc el = false).
Proof. exact scen_elapsed. Qed.

(* The sub-order inside the scenario phase (documented steps 1a, 1b, then 1d/1e): the temporal-requirement
   monitors of the scenario are updated FIRST, with the valuation of the current step -- a verdict FALSE
   rejects at once, having evaluated nothing else; THEN the time limit is looked at: a scenario that has
   reached its limit stops having logged exactly the monitor updates (its compose block and `terminate when`
   conditions do not run), and is accepted iff no monitor (its own or of a running sub-scenario) has a
   falsy verdict over the histories that INCLUDE this last step. *)
Theorem C12_requirements_before_time_limit : forall f P w t sid el k mons reqs subs sc reqs' er,
  nth_error (p_scenarios P) sid = Some sc ->
  (update_reqs P w t sid reqs = (reqs', true, er) ->
   step_scen (S f) P w t (SState sid el k mons reqs subs) = (SBad OReject, er)) /\
  (limit_reached sc el = true -> update_reqs P w t sid reqs = (reqs', false, er) ->
   step_scen (S f) P w t (SState sid el k mons reqs subs) =
   (if stop_ok P (SState sid el k mons reqs' subs) then (SStopped, er) else (SBad OReject, er))).
Proof.
  intros; split; [exact (scen_req_false_rejects f P w t sid el k mons reqs subs sc reqs' er H)
                 | exact (scen_limit_stops f P w t sid el k mons reqs subs sc reqs' er H)].
Qed.
(* ... where updating appends the current valuation to every monitor's history (no monitor is skipped) *)
Theorem C12_requirement_update_appends_current_step : forall P w t sid rs rs' er,
  update_reqs P w t sid rs = (rs', false, er) ->
  Forall2 (fun r r' => fst r' = fst r /\
                       snd r' = match nth_error (p_reqs P) (fst r) with
                                | Some (_, cs) => snd r ++ [map (eval w t) cs]
                                | None => snd r end) rs rs'.
Proof. exact update_reqs_shape. Qed.
Print Assumptions C12_requirements_before_time_limit.
Print Assumptions C12_requirement_update_appends_current_step.
Print Assumptions C12_scenario_elapsed.

(* do/wait ... for/until: started at the time the statement is reached ... *)
Theorem C12_do_for_enters : forall f P w t m ib o subs b lim ss k0,
  run (S f) P w t m ib o subs (FSeq (SDoFor b lim :: ss) :: k0) =
  run f P w t m ib o subs (FTry true o [SDoRaw b] None [(CSince t lim, [SAbort], None)] :: FSeq [SCheck] :: FSeq ss :: k0).
Proof. exact do_for_enters. Qed.
Theorem C12_wait_for_enters : forall f P w t m ib o subs lim ss k0,
  run (S f) P w t m ib o subs (FSeq (SWaitFor lim :: ss) :: k0) =
  run f P w t m ib o subs (FTry true o wait_forever None [(CSince t lim, [SAbort], None)] :: FSeq [SCheck] :: FSeq ss :: k0).
Proof. exact wait_for_enters. Qed.
Theorem C12_do_until_enters : forall f P w t m ib o subs b c ss k0,
  run (S f) P w t m ib o subs (FSeq (SDoUntil b c :: ss) :: k0) =
  run f P w t m ib o subs (FTry true o [SDoRaw b] None [(c, [SAbort], None)] :: FSeq [SCheck] :: FSeq ss :: k0).
Proof. exact do_until_enters. Qed.
Theorem C12_wait_until_enters : forall f P w t m ib o subs c ss k0,
  run (S f) P w t m ib o subs (FSeq (SWaitUntil c :: ss) :: k0) =
  run f P w t m ib o subs (FTry true o wait_forever None [(c, [SAbort], None)] :: FSeq [SCheck] :: FSeq ss :: k0).
Proof. exact wait_until_enters. Qed.
(* ... the condition of `for n steps` holds from exactly n steps after the start ... *)
Theorem C12_for_steps_condition : forall w t t0 n, t0 <= t ->
  (eval w t (CSince t0 (inject_Z (Z.of_nat n))) = true <-> t0 + n <= t).
Proof. exact csince_steps. Qed.
(* ... at the first resumption where the condition holds the statement ends WITHOUT resuming its body
   (do_for_steps_exact, do_until_exact, wait_for/until: no action of the sub-behaviour at that step) ... *)
Theorem C12_do_for_until_ends_exact : forall f P w t m ib o subs fresh o' body bk c k',
  (fresh = false -> all_true w t (inv_of P o') = true) -> eval w t c = true ->
  run (S (S f)) P w t m ib o subs (FTry fresh o' body bk [(c, [SAbort], None)] :: k') =
  run (S f) P w t m ib o' (match m with MScen _ => [] | _ => subs end) k'.
Proof. exact try_abort_fires. Qed.
(* ... and before that every resumption resumes the body, whose yield is the statement's yield *)
Theorem C12_do_for_until_resumes_body : forall f P w t m ib o subs o' body kb c k' y kb' e subs1,
  all_true w t (inv_of P o') = true -> eval w t c = false ->
  run f P w t m true o' subs kb = (OYield y kb', e, subs1) ->
  run (S f) P w t m ib o subs (FTry false o' body (Some kb) [(c, [SAbort], None)] :: k') =
  (OYield y (FTry false o' body (Some kb') [(c, [SAbort], None)] :: k'), e, subs1).
Proof. exact try_body_resumes. Qed.
Print Assumptions C12_do_for_until_ends_exact.
Print Assumptions C12_do_for_until_resumes_body.

(* END TO END, at the level of the agent's generator: `do B for n steps` where B keeps acting (`while True: take a`,
   no guards) and the caller has no invariants.  [drive fuel n t0 …] resumes the generator in n consecutive time
   steps starting at the step t0 in which the statement is reached: it yields B's action exactly n times, the
   statement staying suspended in between; the NEXT resumption (step t0 + n) executes what follows the statement
   without resuming B; for n = 0 the statement ends at once.  Hence exactly n action entries come from B. *)
Theorem C12_do_for_exactly_n_actions : forall P w b a o m n t0 ss k0,
  nth_error (p_behaviors P) b = Some {| b_pre := []; b_inv := []; b_body := [SWhile (CConst true) [STake a]] |} ->
  inv_of P o = [] -> match m with MScen _ => False | _ => True end ->
  forall f ib subs,
  (0 < n -> drive P w o m (12 + f) n t0 ib subs (FSeq (SDoFor b (lim n) :: ss) :: k0) =
            Some (repeat [a] n, kstmt b o n t0 ss k0 false (Some (kb b a o)))) /\
  (forall bk fresh, run (S (S (S f))) P w (t0 + n) m ib o subs (kstmt b o n t0 ss k0 fresh bk) =
                    run f P w (t0 + n) m ib o subs (FSeq ss :: k0)) /\
  (n = 0 -> run (S (S (S (S f)))) P w t0 m ib o subs (FSeq (SDoFor b (lim n) :: ss) :: k0) =
            run f P w t0 m ib o subs (FSeq ss :: k0)).
Proof. exact do_for_end_to_end. Qed.
Print Assumptions C12_do_for_exactly_n_actions.

(* terminate when: stops in the step in which a condition is true, and only then *)
Theorem C12_terminate_when_exact : forall P w t sc sid el mons reqs k' subs' e,
  (existsb (eval w t) (s_termwhen sc) = true ->
   fst (scen_fin P w t sc sid el mons reqs k' subs' e) =
   (if stop_ok P (SState sid el k' mons reqs subs') then SStopped else SBad OReject)) /\
  (existsb (eval w t) (s_termwhen sc) = false -> (match k' with None => has_compose sc | Some _ => false end) = false ->
   fst (scen_fin P w t sc sid el mons reqs k' subs' e) = SCont (SState sid (S el) k' mons reqs subs')).
Proof. intros; split; [exact (terminate_when_stops P w t sc sid el mons reqs k' subs' e) | exact (terminate_when_continues P w t sc sid el mons reqs k' subs' e)]. Qed.
Print Assumptions C12_terminate_when_exact.

(* non-vacuity: a behaviour `take 1; do B1 for 2 steps; take 2` with B1 = `while True: take 5`, a monitor,
   a record, terminate after 5 steps: the model's run, its shape hypotheses are satisfiable *)
Definition ex_prog : program :=
  {| p_behaviors := [ {| b_pre := []; b_inv := []; b_body := [STake 1; SDoFor 1 (inject_Z 2); STake 2] |};
                      {| b_pre := []; b_inv := []; b_body := [SWhile (CConst true) [STake 5]] |} ];
     p_monitors := [ [SWhile (CConst true) [SMark 7; SWait]] ];
     p_scenarios := [ {| s_pre := []; s_inv := []; s_limit := Some (inject_Z 5); s_termwhen := [];
                         s_monitors := [0]; s_reqs := []; s_compose := None; s_records := []; s_termsim := [] |} ];
     p_objects := [Some 0]; p_rec_init := []; p_records := [3]; p_rec_final := []; p_termsim := []; p_reqs := [] |}.
Example C12_example :
  let '(res, evs) := simulate true 50 100 ex_prog {| w_tab := [] |} (Some 9) (fun _ => [0]) in
  r_kind res = RDone TScenarioComplete /\ r_time res = 5 /\ r_traj res = 6 /\
  r_actions res = [[(0, [1])]; [(0, [5])]; [(0, [5])]; [(0, [2])]; [(0, [])]] /\
  firstn 8 evs = [EUpdate 0; ERecord 3; EMonitor 0 7; EActions [(0, [1])]; ESimStep 0; EClock 1; EUpdate 0; ERecord 3].
Proof. vm_compute. repeat split; reflexivity. Qed.

(* non-vacuity of the requirement theorems (and the shape of the bug class they exclude): top-level scenario
   with `terminate after 2 steps`; `require eventually c0` with c0 true ONLY in step 2 (the step in which the
   limit fires) is accepted, `require always c0` with c0 false ONLY in step 2 is rejected, and the last events of
   the accepted run are the monitor update of step 2 followed by the record of that step: nothing else ran *)
Definition ex_req_prog (f : LTL.formula) : program :=
  {| p_behaviors := []; p_monitors := [];
     p_scenarios := [ {| s_pre := []; s_inv := []; s_limit := Some (inject_Z 2); s_termwhen := [];
                         s_monitors := []; s_reqs := [0]; s_compose := None; s_records := []; s_termsim := [] |} ];
     p_objects := [None]; p_rec_init := []; p_records := [3]; p_rec_final := []; p_termsim := [];
     p_reqs := [(f, [CTab 0])] |}.
Example C12_requirement_sees_limit_step :
  (let '(res, evs) := simulate true 50 100 (ex_req_prog (LTL.Eventually (LTL.Atom 0))) {| w_tab := [[false; false; true]] |} None (fun _ => []) in
   r_kind res = RDone TScenarioComplete /\ r_time res = 2 /\ skipn (length evs - 2) evs = [EReq 0 0 0; ERecord 3]) /\
  (let '(res, evs) := simulate true 50 100 (ex_req_prog (LTL.Always (LTL.Atom 0))) {| w_tab := [[true; true; false]] |} None (fun _ => []) in
   r_kind res = RRejected /\ r_time res = 2) /\
  (let '(res, evs) := simulate true 50 100 (ex_req_prog (LTL.Always (LTL.Atom 0))) {| w_tab := [[false; true; true]] |} None (fun _ => []) in
   r_kind res = RSceneRejected).
Proof. vm_compute. repeat split; reflexivity. Qed.

(* ---- a scenario that has stopped contributes no events, conditions or records (coq/C12/Silent.v).
   `_subScenarios` = the list of RUNNING sub-scenario instances; the per-step traversals (record statements,
   `terminate simulation when` conditions of sub-scenarios) range over that tree only. *)
(* an instance whose _step reports that it stopped is not in the list the parent keeps: the new list is exactly the
   continuing instances, in order *)
Theorem C12_stopped_subscenario_leaves_list : forall recscen subs l e,
  step_subs recscen subs = (l, None, e) -> l = continued recscen subs.
Proof. exact step_subs_keeps_only_running. Qed.
(* when the last sub-scenario of a `do` has finished, the compose block goes on in the same step with the EMPTY list,
   whatever follows -- it need not execute another `do` -- and a following `wait` yields with the empty list *)
Theorem C12_do_finished_continues_with_empty_list : forall f P w t sid ib o subs first k' e,
  step_subs (step_scen f P w t) subs = ([], None, e) ->
  run (S f) P w t (MScen sid) ib o subs (FScen first :: k') = emit e (run f P w t (MScen sid) ib o [] k').
Proof. exact do_finished_continues_with_empty_list. Qed.
Theorem C12_wait_after_do_keeps_empty_list : forall f P w t sid ib o ss k0,
  run (S f) P w t (MScen sid) ib o [] (FSeq (SWait :: ss) :: k0) = (OYield (YActs []) (FCheck o :: FSeq ss :: k0), [], []).
Proof. exact wait_after_do_keeps_empty_list. Qed.
(* the handler of `do S for/until` empties the list *)
Theorem C12_stop_subs_empties_list : forall f P w t m ib o subs ss k0,
  stops_ok P subs = true ->
  run (S f) P w t m ib o subs (FSeq (SStopSubs :: ss) :: k0) = run f P w t m ib o [] (FSeq ss :: k0).
Proof. exact stop_subs_empties_list. Qed.
(* stopped_scenario_silent: with no running sub-scenario left after the scenario phase of a step, the records
   evaluated and the simulation-termination conditions checked in that step are exactly the top-level scenario's *)
Theorem C12_stopped_scenario_silent : forall fuel P w s st',
  subs_of st' = [] ->
  phase_record_all fuel P w s (SCont st') = phase_record P s /\
  check_all_termsim P w (time s) (subs_of st') = check_termsim w (time s) 0 (p_termsim P).
Proof. exact stopped_scenario_silent. Qed.
(* and in general the records / conditions of the tree are those of the classes of the instances in it *)
Theorem C12_tree_records_by_instance : forall P st, tree_records P st = flat_map (class_records P) (tree_sids st).
Proof. exact tree_records_by_instance. Qed.
Theorem C12_tree_termsim_by_instance : forall P st, tree_termsim P st = flat_map (class_termsim P) (tree_sids st).
Proof. exact tree_termsim_by_instance. Qed.
(* non-vacuity: Main = `do S1(); wait; wait`, S1 = `terminate after 1 steps`, `record r100`, `terminate simulation when
   <true from step 1 on>`: S1 runs step 0 only; the simulation ends with scenarioComplete at step 3, one sample *)
Example C12_stopped_scenario_silent_example :
  let P := {| p_behaviors := []; p_monitors := [];
     p_scenarios := [ {| s_pre := []; s_inv := []; s_limit := None; s_termwhen := []; s_monitors := []; s_reqs := [];
                         s_compose := Some [SDoScen [1]; SWait; SWait]; s_records := []; s_termsim := [] |};
                      {| s_pre := []; s_inv := []; s_limit := Some (1 # 1)%Q; s_termwhen := []; s_monitors := []; s_reqs := [];
                         s_compose := Some [SWhile (CConst true) [SWait]]; s_records := [100]; s_termsim := [(100, CTab 0)] |} ];
     p_objects := [None]; p_rec_init := []; p_records := []; p_rec_final := []; p_termsim := []; p_reqs := [] |} in
  let r := simulate false 20 200 P {| w_tab := [[false; true; true; true; true]] |} (Some 10) (fun _ => []) in
  r_kind (fst r) = RDone TScenarioComplete /\ r_time (fst r) = 3 /\
  filter (fun e => match e with ERecord _ | ETermCheck _ => true | _ => false end) (snd r) = [ERecord 100; ETermCheck 100].
Proof. vm_compute. repeat split; reflexivity. Qed.
Print Assumptions C12_stopped_scenario_silent.
Print Assumptions C12_do_finished_continues_with_empty_list.
Print Assumptions C12_stopped_subscenario_leaves_list.
