(* C19 — property theorems.  Statements only: each is closed by [exact] of a lemma proved in
   coq/C19/ (on top of coq/C01/Prob), followed by Print Assumptions. *)
From Coq Require Import QArith ZArith List Bool Permutation Qround.
From Scenic Require Import C01.Prob C01.ProbProofs C01.ChoiceProofs C01.RangeProofs C19.Choose C19.ChooseProofs C19.RangeDraws.
Import ListNotations.
Open Scope Q_scope.

(* with >= 2 enabled items, the i-th is picked with probability w_i / sum of enabled weights *)
Theorem C19_choose_prob : forall ws i, (2 <= length ws)%nat -> (i < length ws)%nat ->
  mass (Nat.eqb i) (pick_pos ws) == nth i ws 0 / qsum ws.
Proof. exact choose_prob. Qed.
Print Assumptions C19_choose_prob.

Theorem C19_choose_single_no_draw : forall w, pick_pos [w] = Ret O.
Proof. exact choose_single_no_draw. Qed.
Print Assumptions C19_choose_single_no_draw.

(* the picked item is a listed item whose precondition holds at the current step *)
Theorem C19_choose_exactly_one : forall P t items,
  leaves (fun it => In it items /\ item_enabled P t it = true) (pick_item P t items).
Proof. exact choose_exactly_one. Qed.
Print Assumptions C19_choose_exactly_one.

Theorem C19_deadlock_rejects : forall P t items,
  filter (item_enabled P t) items = [] -> pick_item P t items = Rej.
Proof. exact deadlock_rejects. Qed.
Print Assumptions C19_deadlock_rejects.

(* every completed shuffle runs each listed item exactly once, whatever the enabledness history *)
Theorem C19_shuffle_permutation : forall en dur fuel items clock,
  (length items <= fuel)%nat ->
  leaves (fun l => Permutation l (map fst items)) (shuffle_order en dur fuel items clock).
Proof. exact shuffle_permutation. Qed.
Print Assumptions C19_shuffle_permutation.

(* each stage is a pick (hence weight-proportional, by C19_choose_prob) among the not-yet-run
   items enabled at that stage's step *)
Theorem C19_shuffle_stage : forall en dur f it0 r clock,
  shuffle_order en dur (S f) (it0 :: r) clock =
  bind (pick_pos (map snd (filter (fun it => en clock (fst it)) (it0 :: r))))
       (fun k => let it := nth k (filter (fun it => en clock (fst it)) (it0 :: r)) (O, 0) in
                 bind (shuffle_order en dur f (drop (fst it) (it0 :: r)) (clock + dur (fst it)))
                      (fun rest => Ret (fst it :: rest))).
Proof. exact shuffle_stage. Qed.
Print Assumptions C19_shuffle_stage.

(* the same two statements for the EXECUTABLE shuffle of [exec] (sub-behaviour bodies, run-time draws,
   nested choose/shuffle and rejections in between): every shuffle that returns before the simulation's
   time limit has run each listed item exactly once; no fuel hypothesis (fuel exhaustion is [Rej]) *)
Theorem C19_shuffle_exec_permutation : forall P maxSteps fuel n items s,
  leaves (fun r => (time (fst r) < maxSteps)%nat -> Permutation (snd r) (map fst items))
         (shuffle P maxSteps fuel n items s).
Proof. exact shuffle_exec_permutation. Qed.
Print Assumptions C19_shuffle_exec_permutation.

Theorem C19_shuffle_exec_stage : forall P maxSteps f n it0 r s, Nat.leb maxSteps (time s) = false ->
  shuffle P maxSteps (S f) n (it0 :: r) s =
  bind (pick_item P (time s) (it0 :: r))
    (fun it => bind (exec P maxSteps f (body (beh P (fst (snd it)))) s)
       (fun s' => bind (shuffle P maxSteps f n (drop_pos (fst it) (it0 :: r)) s')
          (fun r' => Ret (fst r', fst it :: snd r')))).
Proof. exact shuffle_exec_stage. Qed.
Print Assumptions C19_shuffle_exec_stage.

(* Options({..}) construction: entries of weight 0 are dropped.  P(entry i) = w_i / sum of the weights for
   EVERY weight list (a zero-weight entry has probability 0; all weights zero: rejection), and no result
   ever has weight 0 *)
Theorem C19_options_prob : forall ws i, (i < length ws)%nat ->
  mass (Nat.eqb i) (options_tree ws) == nth i ws 0 / qsum ws.
Proof. exact options_prob. Qed.
Print Assumptions C19_options_prob.

Theorem C19_zero_weight_never_picked : forall ws,
  leaves (fun k => ~ nth k ws 0 == 0) (options_tree ws).
Proof. exact zero_weight_never_picked. Qed.
Print Assumptions C19_zero_weight_never_picked.

Theorem C19_choose_zero_weight_never : forall ws, (2 <= length ws)%nat ->
  leaves (fun k => ~ nth k ws 0 == 0) (pick_pos ws).
Proof. exact choose_zero_weight_never. Qed.
Print Assumptions C19_choose_zero_weight_never.

(* a run-time integer-range draw is uniform and independent of what happened before *)
Theorem C19_runtime_draw_product : forall (A : Type) lo hi (k : Z -> ptree A) (h : A -> Q), (lo <= hi)%Z ->
  expect h (bind (randint_tree lo hi) k) ==
  wsum (fun v => expect h (k v)) (zrange lo (Z.to_nat (hi - lo + 1))) /
  inject_Z (Z.of_nat (Z.to_nat (hi - lo + 1))).
Proof. exact @runtime_draw_product. Qed.
Print Assumptions C19_runtime_draw_product.

(* ---- round 3: run-time DiscreteRange with arbitrary rational / state-dependent endpoints, weighted form ---- *)
(* the statement draws once from the integers between the endpoint values at that moment *)
Theorem C19_exec_draw : forall P maxSteps f lo hi base rest s, Nat.leb maxSteps (time s) = false ->
  exec P maxSteps (S f) (SDrawTake lo hi base :: rest) s =
  bind (ndrange_tree (bval lo s) (bval hi s))
       (fun x => exec P maxSteps f rest (mkState (S (time s)) x ((time s, (base + x)%Z) :: log s))).
Proof. exact exec_draw. Qed.
Print Assumptions C19_exec_draw.
(* that draw yields exactly the integers k with lo <= k <= hi, uniformly (1 / their number) *)
Theorem C19_ndrange_law : forall lo hi k,
  mass (fun v => Z.eqb v k) (ndrange_tree lo hi) ==
  if in_range lo hi k then 1 / inject_Z (Qfloor hi - Qceiling lo + 1) else 0.
Proof. exact ndrange_law. Qed.
Print Assumptions C19_ndrange_law.
Theorem C19_in_range_spec : forall lo hi k,
  in_range lo hi k = true <-> (Qceiling lo <= k <= Qfloor hi)%Z.
Proof. exact in_range_spec. Qed.
Print Assumptions C19_in_range_spec.
Theorem C19_runtime_ndrange_product : forall (A : Type) lo hi (k : Z -> ptree A) (h : A -> Q),
  (Qceiling lo <= Qfloor hi)%Z ->
  let n := Z.to_nat (Qfloor hi - Qceiling lo + 1) in
  expect h (bind (ndrange_tree lo hi) k) ==
  wsum (fun v => expect h (k v)) (zrange (Qceiling lo) n) / inject_Z (Z.of_nat n).
Proof. exact @runtime_ndrange_product. Qed.
Print Assumptions C19_runtime_ndrange_product.
Theorem C19_runtime_ndrange_empty : forall (A : Type) lo hi (k : Z -> ptree A),
  (forall j, in_range lo hi j = false) -> bind (ndrange_tree lo hi) k = Rej.
Proof. exact @runtime_ndrange_empty. Qed.
Print Assumptions C19_runtime_ndrange_empty.
(* weighted range used directly: low + i with probability w_i / sum of the weights, nothing else *)
Theorem C19_exec_wrange : forall P maxSteps f lo ws base rest s, Nat.leb maxSteps (time s) = false ->
  exec P maxSteps (S f) (SWRangeTake lo ws base :: rest) s =
  bind (wrange_tree lo ws)
       (fun x => exec P maxSteps f rest (mkState (S (time s)) x ((time s, (base + x)%Z) :: log s))).
Proof. exact exec_wrange. Qed.
Print Assumptions C19_exec_wrange.
Theorem C19_wrange_prob : forall lo ws i, (i < length ws)%nat ->
  mass (fun z => Z.eqb z (lo + Z.of_nat i)) (wrange_tree lo ws) == nth i ws 0 / qsum ws.
Proof. exact wrange_prob. Qed.
Print Assumptions C19_wrange_prob.
Theorem C19_wrange_prob_out : forall lo ws z, (z < lo \/ lo + Z.of_nat (length ws) <= z)%Z ->
  mass (fun x => Z.eqb x z) (wrange_tree lo ws) == 0.
Proof. exact wrange_prob_out. Qed.
Print Assumptions C19_wrange_prob_out.
Theorem C19_runtime_wrange_product : forall (A : Type) lo ws (k : Z -> ptree A) (h : A -> Q),
  expect h (bind (wrange_tree lo ws) k) == expect (fun i => expect h (k (lo + i)%Z)) (weighted_tree ws).
Proof. exact @runtime_wrange_product. Qed.
Print Assumptions C19_runtime_wrange_product.

(* non-vacuity: at step 1, x = DiscreteRange(currentTime + 1/4, currentTime + 7/4) can only give 2;
   DiscreteRange(1/2, 5/2) gives 1 or 2; then DiscreteRange(x/2 - 1/2, x/2 + 1) computed from that x
   (x = 1: 0 or 1; x = 2: 1 or 2); then the weighted range 3..5 with weights 1, 2, 1 *)
Definition ex_P3 : program :=
  [ mkBeh GTrue [STake 7; SDrawTake (mkBnd (1#4) 1 0) (mkBnd (7#4) 1 0) 100;
                 SDrawTake (mkBnd (1#2) 0 0) (mkBnd (5#2) 0 0) 200;
                 SDrawTake (mkBnd (-1#2) 0 (1#2)) (mkBnd 1 0 (1#2)) 300;
                 SWRangeTake 3 [1; 2; 1] 400] ].
Example C19_example_ranges :
  map (fun x => (snd (fst x), match snd x with Some s => rev (map snd (log s)) | None => [] end))
      (paths (run_main ex_P3 8 20 0)) =
    [(1 # 16, [7; 102; 201; 300; 403]%Z); (1 # 8, [7; 102; 201; 300; 404]%Z); (1 # 16, [7; 102; 201; 300; 405]%Z);
     (1 # 16, [7; 102; 201; 301; 403]%Z); (1 # 8, [7; 102; 201; 301; 404]%Z); (1 # 16, [7; 102; 201; 301; 405]%Z);
     (1 # 16, [7; 102; 202; 301; 403]%Z); (1 # 8, [7; 102; 202; 301; 404]%Z); (1 # 16, [7; 102; 202; 301; 405]%Z);
     (1 # 16, [7; 102; 202; 302; 403]%Z); (1 # 8, [7; 102; 202; 302; 404]%Z); (1 # 16, [7; 102; 202; 302; 405]%Z)] /\
  run_main [mkBeh GTrue [SDrawTake (mkBnd (1#4) 0 0) (mkBnd (3#4) 0 0) 0]] 8 20 0 = Rej.
Proof. vm_compute. split; reflexivity. Qed.

(* non-vacuity: A enabled from step 1, B and C always; choose {A:1, B:2, C:1/2} then shuffle {A:1, B:3} *)
Definition ex_P : program :=
  [ mkBeh (GTimeGe 1) [STake 1]; mkBeh GTrue [STake 2]; mkBeh GTrue [STake 3; STake 4];
    mkBeh GTrue [SChoose [(0%nat, 1); (1%nat, 2); (2%nat, 1 # 2)]; SShuffle [(0%nat, 1); (1%nat, 3)];
                 SDrawTake (mkBnd 0 0 0) (mkBnd 2 0 0) 10; SRequire (1 # 4) 0; STake 20] ].
Example C19_example :
  length (paths (run_main ex_P 8 20 3)) = 24%nat /\
  Qred (rejmass (run_main ex_P 8 20 3)) = 1 # 12 /\
  Qred (mass (fun s => match rev (log s) with (_, a) :: _ => Z.eqb a 2 | [] => false end) (run_main ex_P 8 20 3)) = 11 # 15 /\
  Qred (mass (Nat.eqb 1) (pick_pos [1; 2; 1 # 2])) = 4 # 7 /\
  (* the same program as compose blocks with maxSteps = 5: one more step of code than as behaviours *)
  length (paths (run_program FBehavior ex_P 5 20 3)) = 18%nat /\
  length (paths (run_program FCompose ex_P 5 20 3)) = 24%nat.
Proof. vm_compute. repeat split; reflexivity. Qed.

(* non-vacuity of the executable-shuffle theorem and of the zero-weight lemmas: shuffle {B:1, C:2, A:1, B:0}
   from step 0 (A not yet enabled, the zero-weight B always last): 4 complete orders with their exact
   probabilities; {0, 0} with two enabled items rejects, a single enabled zero-weight item is run without a
   draw *)
Example C19_example_exec_shuffle :
  map (fun x => (snd (fst x), snd x))
      (paths (bind (shuffle ex_P 8 20 20 (number O [(1%nat, 1); (2%nat, 2); (0%nat, 1); (1%nat, 0)]) (mkState O 0 []))
                   (fun r => Ret (snd r)))) =
    [(2 # 9, Some [0; 1; 2; 3]%nat); (1 # 9, Some [0; 2; 1; 3]%nat);
     (1 # 3, Some [1; 0; 2; 3]%nat); (1 # 3, Some [1; 2; 0; 3]%nat)] /\
  pick_pos [0; 0] = Rej /\ pick_pos [0] = Ret O /\
  Qred (mass (Nat.eqb 2) (pick_pos [1; 0; 3])) = 3 # 4 /\ Qred (mass (Nat.eqb 1) (pick_pos [1; 0; 3])) = 0.
Proof. vm_compute. repeat split; reflexivity. Qed.
