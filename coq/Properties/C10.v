(* C10 — property theorems.  Statements only: each is closed by [exact] of a lemma proved in coq/C10/. *)
From Coq Require Import ZArith NArith List Bool.
From Scenic Require Import C10.Frontend C10.PEG C10.FrontendProofs.
Import ListNotations.

(* whatever step of compiling the top-level module or any (transitively) imported module raises - except inside
   veneer.activate / before it, see below - the veneer globals end exactly in the initial inactive state *)
Theorem C10_veneer_inactive_after : forall o r id imps,
  top_safe r = true -> nested_safe imps = true -> snd (scenario_from_stream o r id imps s0) = s0.
Proof. exact veneer_inactive_after. Qed.
Print Assumptions C10_veneer_inactive_after.

Theorem C10_veneer_reports_original : forall o r id imps,
  top_safe r = true -> nested_safe imps = true -> forall st, r = Some st -> fst (scenario_from_stream o r id imps s0) <> None.
Proof. exact veneer_reports_original. Qed.
Print Assumptions C10_veneer_reports_original.

(* refuted part: a raise before/inside veneer.activate is not recovered from (witnesses replayed on the real code
   by exception injection: findings F-C10-activate) *)
Theorem C10_veneer_not_restored_early_raise :
  scenario_from_stream default_opts (Some RNamespace) 1%N MNil s0
    = (Some EAssert, VS (-1) [] None false false [] None [] [] None)
  /\ scenario_from_stream (Opts true [5%N] None) (Some RActAfterIncr) 1%N MNil s0
    = (Some EIndex, VS 0 [] None true false [5%N] None [5%N] [] None)
  /\ scenario_from_stream default_opts None 1%N (MCons (Some RActAfterIncr) 2%N MNil MNil) s0
    = (Some EAssert, VS 1 [] (Some 1%N) false false [] None [1%N] [1%N] (Some 1%N)).
Proof. exact veneer_not_restored_early_raise. Qed.

(* Parser.parse: a tree only from a successful first pass; a failed first pass always ends in an error, the generic
   one unless an invalid_ rule raised a specific one *)
Theorem C10_two_pass_reports : forall (T E : Type) (run : bool -> rule_result T E) (generic : E),
  (forall t, parse run generic = PTree t -> run false = RTree t)
  /\ (run false = RNone -> exists e, parse run generic = PError e)
  /\ (run false = RNone -> (forall e, run true <> RRaise e) -> parse run generic = PError generic).
Proof. exact two_pass_reports. Qed.
Print Assumptions C10_two_pass_reports.

Theorem C10_error_line_in_range : forall (n : Z) (lines : list Z) (d : Z),
  Forall (fun l => (1 <= l <= n + 1)%Z) lines -> (1 <= d <= n + 1)%Z -> (1 <= farthest lines d <= n + 1)%Z.
Proof. exact error_line_in_range. Qed.
Print Assumptions C10_error_line_in_range.

(* PEG: the nullable analysis is sound, hence in a grammar that passes wf_check every iteration of every
   repetition consumes at least one token (no generated loop can spin) *)
Theorem C10_nullable_sound : forall G tbl, closed G tbl = true ->
  forall T e (s s' : list T), succ G T e s s' -> length s' = length s -> nul tbl e = true.
Proof. exact nullable_sound. Qed.
Print Assumptions C10_nullable_sound.

Theorem C10_wf_check_sound_loops : forall G tbl, closed G tbl = true -> wf_check G tbl = true ->
  forall r e b, In (r, e) G -> In b (rep_bodies e) ->
  forall T (s s' : list T), succ G T b s s' -> (length s' < length s)%nat.
Proof. exact wf_check_sound_loops. Qed.
Print Assumptions C10_wf_check_sound_loops.

(* non-vacuity: a normal compilation with a nested import, and a failing one, restore s0 *)
Example C10_examples :
  scenario_from_stream (Opts true [5%N] (Some 6%N)) None 1%N (MCons None 2%N (MCons (Some RParse) 3%N MNil MNil) MNil) s0
    = (Some (EUser RParse), s0)
  /\ scenario_from_stream default_opts None 1%N (MCons None 2%N MNil MNil) s0 = (None, s0)
  /\ wf_check [(1%N, PStar (PSeq (PTok 7%N) (POpt (PRule 1%N))))] [1%N] = true
  /\ wf_check [(1%N, PStar (POpt (PTok 7%N)))] [1%N] = false.
Proof. vm_compute. repeat split; reflexivity. Qed.

(* ------------------------------------------------------------------------------------------ round 2 *)
From Scenic Require Import C10.FrontendFixed C10.FrontendFixedProofs C10.LeftRec C10.LeftRecProofs.

(* the REPAIRED protocol (branch fix-C10-veneer-activate: veneer.activate does everything that can raise before it changes a
   global; _scenarioFromStream deactivates only what was activated): for ALL options, ALL import trees and ALL raise points -
   no top_safe / nested_safe hypotheses - the veneer ends in the initial inactive state and the reported exception is the
   first one raised in program order, never an AssertionError / IndexError of the protocol itself.
   (C10_veneer_not_restored_early_raise above stays as the refuted lemma about the original protocol.) *)
Theorem C10_veneer_restored_always_repaired : forall o r id imps,
  scenario_from_stream_fixed o r id imps s0 = (option_map EUser (first_raise r imps), s0).
Proof. exact scenario_from_stream_fixed_spec. Qed.
Print Assumptions C10_veneer_restored_always_repaired.

Theorem C10_veneer_inactive_after_repaired : forall o r id imps, snd (scenario_from_stream_fixed o r id imps s0) = s0.
Proof. exact veneer_inactive_after_fixed. Qed.
Print Assumptions C10_veneer_inactive_after_repaired.

Theorem C10_veneer_reports_user_exception_repaired : forall o r id imps e,
  fst (scenario_from_stream_fixed o r id imps s0) = Some e -> exists st', e = EUser st' /\ first_raise r imps = Some st'.
Proof. exact veneer_reports_user_fixed. Qed.
Print Assumptions C10_veneer_reports_user_exception_repaired.

(* both protocols agree wherever the original one recovers *)
Theorem C10_repaired_agrees_on_safe_points : forall o r id imps, top_safe r = true -> nested_safe imps = true ->
  scenario_from_stream_fixed o r id imps s0 = scenario_from_stream o r id imps s0.
Proof. exact fixed_agrees_on_safe. Qed.
Print Assumptions C10_repaired_agrees_on_safe_points.

(* left recursion: the leftmost-call graph analysis is sound for same-input invocations, and a grammar that passes the rank
   certificate has no cycle of same-input invocations that avoids pegen's memoised left-recursive leaders
   (instantiated on the regenerated scenic.gram in gen/C10Grammar.v: G_lr by vm_compute, G_cycles_through_leaders by exact) *)
Theorem C10_first_calls_sound : forall G tbl, closed G tbl = true ->
  forall T e (s : list T) r, inv0 G T e s r -> lreach G tbl (first_calls tbl e) r.
Proof. exact first_calls_sound. Qed.
Print Assumptions C10_first_calls_sound.

Theorem C10_lr_check_sound : forall G tbl leaders rank, lr_check G tbl leaders rank = true ->
  forall r0 mid, is_path (lstep G tbl) r0 mid r0 -> exists x, In x (r0 :: mid) /\ memN x leaders = true.
Proof. exact lr_check_sound. Qed.
Print Assumptions C10_lr_check_sound.

Theorem C10_lr_check_sound_semantic : forall G tbl leaders rank, closed G tbl = true -> lr_check G tbl leaders rank = true ->
  forall T (s : list T) r0 mid, is_path (sstep G T s) r0 mid r0 -> exists x, In x (r0 :: mid) /\ memN x leaders = true.
Proof. exact lr_check_sound_chain. Qed.
Print Assumptions C10_lr_check_sound_semantic.

Example C10_examples_round2 :
  scenario_from_stream_fixed default_opts (Some RNamespace) 1%N MNil s0 = (Some (EUser RNamespace), s0)
  /\ scenario_from_stream_fixed (Opts true [5%N] None) (Some RActAfterIncr) 1%N MNil s0 = (Some (EUser RActAfterIncr), s0)
  /\ scenario_from_stream_fixed default_opts None 1%N (MCons (Some RActAfterIncr) 2%N MNil MNil) s0 = (Some (EUser RActAfterIncr), s0)
  /\ lr_check [(1%N, PAlt (PSeq (PRule 1%N) (PSeq (PTok 7%N) (PRule 2%N))) (PRule 2%N)); (2%N, PTok 8%N)] [] [1%N] [(2%N, 0%N)] = true
  /\ lr_check [(1%N, PAlt (PSeq (PRule 1%N) (PSeq (PTok 7%N) (PRule 2%N))) (PRule 2%N)); (2%N, PTok 8%N)] [] [] [(1%N, 1%N); (2%N, 0%N)] = false.
Proof. vm_compute. repeat split; reflexivity. Qed.

(** Round 3: error-reporting actions.  The locator of [invalid_arguments] alternative 0 is total on EVERY shape of its sub-match
    (positional list / keyword list, either possibly empty, not both), names an argument of the call, and the variant that forgets
    the empty-keyword shape (seed C10-4) fails exactly on that shape. *)
From Scenic Require Import C10.ErrorActions.

Theorem C10_invalid_arguments_locator_total :
  forall (node : Type) (pos kw : list node), pos ++ kw <> nil -> exists n, locate node pos kw = Some n /\ In n (pos ++ kw).
Proof. exact locate_total. Qed.
Print Assumptions C10_invalid_arguments_locator_total.

Theorem C10_invalid_arguments_locator_is_last :
  forall (node : Type) (pos kw : list node) n, locate node pos kw = Some n ->
    (kw <> nil -> last_opt node kw = Some n) /\ (kw = nil -> last_opt node pos = Some n).
Proof. exact locate_is_last. Qed.
Print Assumptions C10_invalid_arguments_locator_is_last.

Theorem C10_locator_forgetting_a_shape_refuted :
  (forall (node : Type) (pos kw : list node), locate_kw_only node pos kw = None <-> kw = nil) /\
  (exists (pos kw : list nat), pos ++ kw <> nil /\ locate_kw_only nat pos kw = None).
Proof. split; [exact locate_kw_only_fails_iff | exact locate_kw_only_refuted]. Qed.
Print Assumptions C10_locator_forgetting_a_shape_refuted.

Example C10_locator_examples :
  locate nat (1 :: 2 :: nil)%nat nil = Some 2%nat /\ locate nat (1 :: nil)%nat (7 :: 8 :: nil)%nat = Some 8%nat /\ locate nat nil nil = None.
Proof. repeat split. Qed.
