(* C10 — property theorems.  Statements only: each is closed by [exact] of a lemma proved in coq/C10/. *)
From Coq Require Import ZArith NArith List Bool.
From Scenic Require Import C10.Frontend C10.PEG C10.FrontendProofs.
Import ListNotations.

(* whatever step of compiling the top-level module or any (transitively) imported module raises - except inside
   veneer.activate / before it, see below - the veneer globals end exactly in the initial inactive state *)
Theorem C10_veneer_inactive_after : forall o r id imps,
  top_safe r = true -> nested_safe imps = true -> snd (scenario_from_stream o r id imps s0) = s0.
Proof. exact veneer_inactive_after. Qed.
Print Assumptions C10_veneer_inactive_after.

Theorem C10_veneer_reports_original : forall o r id imps,
  top_safe r = true -> nested_safe imps = true -> forall st, r = Some st -> fst (scenario_from_stream o r id imps s0) <> None.
Proof. exact veneer_reports_original. Qed.
Print Assumptions C10_veneer_reports_original.

(* refuted part: a raise before/inside veneer.activate is not recovered from (witnesses replayed on the real code
   by exception injection: findings F-C10-activate) *)
Theorem C10_veneer_not_restored_early_raise :
  scenario_from_stream default_opts (Some RNamespace) 1%N MNil s0
    = (Some EAssert, VS (-1) [] None false false [] None [] [] None)
  /\ scenario_from_stream (Opts true [5%N] None) (Some RActAfterIncr) 1%N MNil s0
    = (Some EIndex, VS 0 [] None true false [5%N] None [5%N] [] None)
  /\ scenario_from_stream default_opts None 1%N (MCons (Some RActAfterIncr) 2%N MNil MNil) s0
    = (Some EAssert, VS 1 [] (Some 1%N) false false [] None [1%N] [1%N] (Some 1%N)).
Proof. exact veneer_not_restored_early_raise. Qed.

(* Parser.parse: a tree only from a successful first pass; a failed first pass always ends in an error, the generic
   one unless an invalid_ rule raised a specific one *)
Theorem C10_two_pass_reports : forall (T E : Type) (run : bool -> rule_result T E) (generic : E),
  (forall t, parse run generic = PTree t -> run false = RTree t)
  /\ (run false = RNone -> exists e, parse run generic = PError e)
  /\ (run false = RNone -> (forall e, run true <> RRaise e) -> parse run generic = PError generic).
Proof. exact two_pass_reports. Qed.
Print Assumptions C10_two_pass_reports.

Theorem C10_error_line_in_range : forall (n : Z) (lines : list Z) (d : Z),
  Forall (fun l => (1 <= l <= n + 1)%Z) lines -> (1 <= d <= n + 1)%Z -> (1 <= farthest lines d <= n + 1)%Z.
Proof. exact error_line_in_range. Qed.
Print Assumptions C10_error_line_in_range.

(* PEG: the nullable analysis is sound, hence in a grammar that passes wf_check every iteration of every
   repetition consumes at least one token (no generated loop can spin) *)
Theorem C10_nullable_sound : forall G tbl, closed G tbl = true ->
  forall T e (s s' : list T), succ G T e s s' -> length s' = length s -> nul tbl e = true.
Proof. exact nullable_sound. Qed.
Print Assumptions C10_nullable_sound.

Theorem C10_wf_check_sound_loops : forall G tbl, closed G tbl = true -> wf_check G tbl = true ->
  forall r e b, In (r, e) G -> In b (rep_bodies e) ->
  forall T (s s' : list T), succ G T b s s' -> (length s' < length s)%nat.
Proof. exact wf_check_sound_loops. Qed.
Print Assumptions C10_wf_check_sound_loops.

(* non-vacuity: a normal compilation with a nested import, and a failing one, restore s0 *)
Example C10_examples :
  scenario_from_stream (Opts true [5%N] (Some 6%N)) None 1%N (MCons None 2%N (MCons (Some RParse) 3%N MNil MNil) MNil) s0
    = (Some (EUser RParse), s0)
  /\ scenario_from_stream default_opts None 1%N (MCons None 2%N MNil MNil) s0 = (None, s0)
  /\ wf_check [(1%N, PStar (PSeq (PTok 7%N) (POpt (PRule 1%N))))] [1%N] = true
  /\ wf_check [(1%N, PStar (POpt (PTok 7%N)))] [1%N] = false.
Proof. vm_compute. repeat split; reflexivity. Qed.
