(* C20 — property theorems.  Statements only: each is closed by [exact] of a lemma proved in
   coq/C20/, followed by Print Assumptions. *)
From Coq Require Import List Bool PArith NArith ZArith FMapPositive.
From Scenic Require Import C20.Network C20.NetworkProofs C20.Framing C20.Pickle C20.MoreProofs C20.PathProofs.
Import ListNotations.

(* the certified linkage checker: if it accepts a network, every link is reciprocal (Reciprocal is the
   Prop-level specification in NetworkProofs.v: successor/predecessor, adjacent lanes, laneToLeft/Right,
   opposite groups, maneuvers listed by their start lane and intersection, connecting.successor = end) *)
Theorem C20_links_ok_sound : forall nt, links_ok nt = true -> Reciprocal nt.
Proof. exact links_ok_sound_lemma. Qed.
Print Assumptions C20_links_ok_sound.

(* when the checker reports failing (uid, rule) pairs, every OTHER (element, rule) holds *)
Theorem C20_links_bad_sound : forall nt bad, links_bad nt = bad -> ReciprocalExcept nt bad.
Proof. exact links_bad_sound. Qed.
Print Assumptions C20_links_bad_sound.

(* and what it reports is a genuine failure of that rule at an element of the network *)
Theorem C20_links_bad_complete : forall nt u r, In (u, r) (links_bad nt) ->
  exists e f, In e (elems nt) /\ uid e = u /\ In (r, f) (rules_links nt e) /\ ~ holds (index (elems nt)) f.
Proof. exact links_bad_complete. Qed.
Print Assumptions C20_links_bad_complete.

(* ownership both ways: lane in group.lanes <-> lane.group = group, sections, groups of a road, network lists *)
Theorem C20_hierarchy_ok_sound : forall nt, hierarchy_ok nt = true -> Hierarchy nt.
Proof. exact hierarchy_ok_sound_lemma. Qed.
Print Assumptions C20_hierarchy_ok_sound.

Theorem C20_hierarchy_bad_sound : forall nt bad, hierarchy_bad nt = bad -> HierarchyExcept nt bad.
Proof. exact hierarchy_bad_sound. Qed.
Print Assumptions C20_hierarchy_bad_sound.

(* the evaluator decides the rule language *)
Theorem C20_evalb_iff : forall m f, evalb m f = true <-> holds m f.
Proof. exact evalb_iff. Qed.
Print Assumptions C20_evalb_iff.

(* lookup returns an element of the network with the uid asked for; with distinct uids every element is found *)
Theorem C20_lookup_sound : forall nt u e, lookup nt u = Some e -> In e (elems nt) /\ uid e = u.
Proof. exact lookup_sound. Qed.
Print Assumptions C20_lookup_sound.

Theorem C20_lookup_complete : forall nt e, NoDup (map uid (elems nt)) -> In e (elems nt) -> lookup nt (uid e) = Some e.
Proof. exact lookup_complete. Qed.
Print Assumptions C20_lookup_complete.

(* equivalent networks are equal (every element, link, list and digest) *)
Theorem C20_net_equiv_sound : forall a b, net_equiv a b = true -> a = b.
Proof. exact net_equiv_eq. Qed.
Print Assumptions C20_net_equiv_sound.

(* findPointIn: the first exact container in priority order; else (tolerance > 0) the first within
   tolerance; else none *)
Theorem C20_find_first_exact : forall exact within tolpos l r,
  find_point_in exact within tolpos l = r <->
  (exists u, r = Some u /\ first_such exact l u) \/
  ((forall x, In x l -> exact x = false) /\ tolpos = true /\ exists u, r = Some u /\ first_such within l u) \/
  ((forall x, In x l -> exact x = false) /\ r = None /\ (tolpos = false \/ forall x, In x l -> within x = false)).
Proof. exact find_point_in_spec. Qed.
Print Assumptions C20_find_first_exact.

Theorem C20_find_member : forall exact within tolpos l u,
  find_point_in exact within tolpos l = Some u -> In u l /\ (exact u = true \/ (tolpos = true /\ within u = true)).
Proof. exact find_point_in_member. Qed.
Print Assumptions C20_find_member.

(* the cached network is used iff caching is on, the .snet exists, its header carries the current format
   version, the digest of the map file and the digest of the options, and its payload loads *)
Theorem C20_cache_used_iff : forall useCache cur d o snet ok, d <> [] -> o <> [] ->
  from_file useCache cur d o snet ok = FromCache <->
  (useCache = true /\ exists file, snet = Some file /\
   length (firstn 4 file) = 4%nat /\ length (firstn 8 (skipn 68 file)) = 8%nat /\
   le_decode (firstn 4 file) = cur /\ firstn 64 (skipn 4 file) = d /\ firstn 8 (skipn 68 file) = o /\
   length d = 64%nat /\ ok = true).
Proof. exact cache_used_iff_lemma. Qed.
Print Assumptions C20_cache_used_iff.

(* a cache written by dumpPickle for (version, map digest, options digest) is used exactly for that triple:
   changing the format version, the map (digest) or the options (digest) makes fromFile ignore it *)
Theorem C20_cache_ignored_when_changed : forall cur d o payload cur' d' o',
  (cur < 256 ^ 4)%N -> length d = 64%nat -> length o = 8%nat -> d' <> [] -> o' <> [] ->
  from_file true cur' d' o' (Some (dump_header cur d o ++ payload)) true = FromCache <->
  (cur = cur' /\ d = d' /\ o = o').
Proof. exact dumped_cache_roundtrip. Qed.
Print Assumptions C20_cache_ignored_when_changed.

(* distinct option maps (NUL-free keys and value strings) give distinct pre-images to the options hash *)
Theorem C20_options_framing_injective : forall k1 k2, kvs_ok k1 -> kvs_ok k2 -> frame k1 = frame k2 -> k1 = k2.
Proof. exact frame_injective. Qed.
Print Assumptions C20_options_framing_injective.

(* ---- non-vacuity: the network Scenic builds for LGSVL/Straight2LaneSame.xodr passes both checkers;
   breaking one back-link is reported at that element; cache decisions on concrete headers *)
Open Scope positive_scope.
Definition ex_elems (g : option positive) : list elem :=
  [mkLaneSec 2 11 N_ N_ (Some 6) (Some 7) (Some 8) (-1)%Z true [3] N_ (Some 3) N_ (Some 3);
   mkLaneSec 3 12 N_ N_ (Some 5) (Some 7) (Some 8) (-2)%Z true [2] (Some 2) N_ (Some 2) N_;
   mkRoadSec 4 13 N_ N_ (Some 8) [3;2] [3;2] [] [((-2)%Z,3);((-1)%Z,2)];
   mkLane 5 14 N_ N_ g (Some 8) [3] [6] [];
   mkLane 6 15 N_ N_ (Some 7) (Some 8) [2] [5] [];
   mkGroup 7 16 N_ N_ (Some 8) [5;6] N_ N_ N_ N_;
   mkRoad 8 17 N_ N_ (Some 7) N_ [5;6] [7] [4] [] []].
Definition ex_net (g : option positive) : net :=
  mkNet (ex_elems g) [2;3;4;5;6;7;8] [8] [] [8] [7] [5;6] [] [] [] [] [4] [3;2] false 0.

Example C20_example_ok : links_ok (ex_net (Some 7)) = true /\ hierarchy_ok (ex_net (Some 7)) = true /\
  hierarchy_bad (ex_net (Some 8)) = [(3, 42%N); (5, 31%N); (5, 33%N); (7, 37%N)] /\ net_equiv (ex_net (Some 7)) (ex_net (Some 8)) = false.
Proof. vm_compute. repeat split; reflexivity. Qed.

Example C20_example_find :
  find_point_in (fun u => Pos.eqb u 9) (fun u => Pos.leb 7 u) true [5;7;9] = Some 9 /\
  find_point_in (fun u => false) (fun u => Pos.leb 7 u) true [5;7;9] = Some 7 /\
  find_point_in (fun u => false) (fun u => Pos.leb 7 u) false [5;7;9] = None.
Proof. vm_compute. repeat split; reflexivity. Qed.

Example C20_example_frame :
  frame [([116%N], Some [49%N]); ([117%N], None)] = [0;75;116;0;86;49;0;75;117;0;86;0]%N.
Proof. reflexivity. Qed.

(* ---------------------------------------------------------------- round 2 *)
(* lookup_consistent: on a network accepted by the hierarchy checker, at a point where every road answers the
   containment queries like the union of its own lanes ([cover_at], re-evaluated by the kernel at every sampled
   point), laneAt and roadAt agree: the reported lane belongs to the reported road, and roadAt reports nothing
   exactly when laneAt reports nothing (tags of model_lookup: 2 = laneAt, 1 = roadAt). *)
Theorem C20_lookup_consistent : forall nt tolpos ex wi,
  hierarchy_ok nt = true -> cover_at nt (index (elems nt)) ex wi = true ->
  match model_lookup nt (index (elems nt)) tolpos 2 ex wi None with
  | Some l => exists le r, lookup nt l = Some le /\ kind_of le = KLane /\ road le = Some r /\
                model_lookup nt (index (elems nt)) tolpos 1 ex wi None = Some r
  | None => model_lookup nt (index (elems nt)) tolpos 1 ex wi None = None
  end.
Proof. exact lookup_consistent. Qed.
Print Assumptions C20_lookup_consistent.

(* reconnect_inverse: __getstate__ (single links -> _ElementPlaceholder(uid)) followed by Network.__setstate__
   (placeholders of the objects it walks -> elements[uid]) restores every inter-element reference exactly when
   the network passes [pickle_ok]: every object that holds a link is in Network.elements, or is a maneuver listed
   by a lane / intersection of the network, and links only to keys of Network.elements.  Otherwise loading raises
   KeyError or leaves a placeholder behind. *)
Theorem C20_reconnect_inverse : forall nt,
  setstate nt (index (elems nt)) (map getstate (elems nt)) = Some (map direct (elems nt)) <-> pickle_ok nt = true.
Proof. exact reconnect_inverse. Qed.
Print Assumptions C20_reconnect_inverse.

Theorem C20_pickle_bad_nil : forall nt, pickle_bad nt = [] <-> pickle_ok nt = true.
Proof. exact pickle_bad_nil. Qed.
Print Assumptions C20_pickle_bad_nil.

(* the maneuvers of a network accepted by both checkers are all reached by __setstate__ *)
Theorem C20_maneuvers_in_scope : forall nt e,
  links_ok nt = true -> hierarchy_ok nt = true -> In e (elems nt) -> kind_of e = KMan ->
  in_scope nt (index (elems nt)) e = true.
Proof. exact maneuvers_in_scope. Qed.
Print Assumptions C20_maneuvers_in_scope.

(* non-vacuity: the example network passes, the lane lookup is consistent at a point inside lane 5 / road 8;
   a maneuver that no lane lists (uid 9) or a link to an unregistered element (uid 99) is not restored *)
Example C20_example_round2 :
  pickle_ok (ex_net (Some 7)) = true /\
  cover_at (ex_net (Some 7)) (index (elems (ex_net (Some 7)))) [5; 8] [5; 6; 8] = true /\
  model_lookup (ex_net (Some 7)) (index (elems (ex_net (Some 7)))) true 2 [5; 8] [5; 6; 8] None = Some 5 /\
  model_lookup (ex_net (Some 7)) (index (elems (ex_net (Some 7)))) true 1 [5; 8] [5; 6; 8] None = Some 8 /\
  pickle_bad (mkNet (ex_elems (Some 7) ++ [mkMan 9 1%N (Some 5) (Some 6) N_ N_]) [2;3;4;5;6;7;8] [8] [] [8] [7] [5;6] [] [] [] [] [4] [3;2] false 0) = [9] /\
  pickle_bad (ex_net (Some 99)) = [5].
Proof. vm_compute. repeat split; reflexivity. Qed.

(* ---------------------------------------------------------------- round 3: entry paths of Network.fromFile *)
(* [from_path handlers e useCache writeCache cur mapd optd snet ok]: the path given to fromFile has entry kind [e]
   (.xodr / .snet / no extension / anything else), the directory holds base.xodr with digest [mapd] (None: no such
   file) and base.snet with content [snet]; [handlers] = [HXodr; HSnet] is the table in its iteration order.
   MAIN: through a map path (no extension, or .xodr) with the map file present, an unverified pickle is never
   returned: the result is never "pickle as it is", and it is the cache exactly when caching is on, the .snet exists
   and its header carries the current version, the digest of the CURRENT map and the digest of the CURRENT options
   (and the payload loads).  Holds for every directory state, so also after any history. *)
Theorem C20_path_cache_verified : forall e u w cur d o snet ok,
  (e = ENoExt \/ e = EXodr) -> d <> [] -> o <> [] ->
  from_path handlers e u w cur (Some d) o snet ok <> PPickleAsIs /\
  (from_path handlers e u w cur (Some d) o snet ok = PCache <->
   u = true /\ exists file, snet = Some file /\
     length (firstn 4 file) = 4%nat /\ length (firstn 8 (skipn 68 file)) = 8%nat /\
     le_decode (firstn 4 file) = cur /\ firstn 64 (skipn 4 file) = d /\ firstn 8 (skipn 68 file) = o /\
     length d = 64%nat /\ ok = true).
Proof. exact path_cache_verified. Qed.
Print Assumptions C20_path_cache_verified.

(* with the map present the extension-less path behaves exactly like the explicit .xodr path, whatever the cache *)
Theorem C20_path_noext_is_xodr : forall u w cur d o snet ok,
  from_path handlers ENoExt u w cur (Some d) o snet ok = from_path handlers EXodr u w cur (Some d) o snet ok.
Proof. exact path_noext_is_xodr. Qed.
Print Assumptions C20_path_noext_is_xodr.

(* a pickle is loaded as it is only when the caller named the .snet file or there is no map file to compare with *)
Theorem C20_path_pickle_as_is_no_map : forall e u w cur mapd o snet ok,
  from_path handlers e u w cur mapd o snet ok = PPickleAsIs -> e = ESnet \/ (e = ENoExt /\ mapd = None).
Proof. exact path_pickle_as_is_no_map. Qed.
Print Assumptions C20_path_pickle_as_is_no_map.

(* the parser runs only through a map path with the map present, and writes a cache iff writeCache *)
Theorem C20_path_parsed_only_map_entry : forall e u w cur mapd o snet ok b,
  from_path handlers e u w cur mapd o snet ok = PParsed b -> (e = ENoExt \/ e = EXodr) /\ b = w /\ exists d, mapd = Some d.
Proof. exact path_parsed_only_map_entry. Qed.
Print Assumptions C20_path_parsed_only_map_entry.

(* the cache file is rewritten exactly when the parser ran with writeCache (header of the current map and options);
   loading from a pickle or failing never touches it *)
Theorem C20_path_written : forall e u w cur mapd o snet ok payload,
  snet_after handlers e u w cur mapd o snet ok payload =
  match from_path handlers e u w cur mapd o snet ok, mapd with
  | PParsed true, Some d => Some (dump_header cur d o ++ payload)
  | _, _ => snet
  end.
Proof. exact path_written. Qed.
Print Assumptions C20_path_written.

(* write then read through any map path: the written cache is used exactly for the same version, map and options *)
Theorem C20_path_dump_roundtrip : forall e cur d o payload cur' d' o' w,
  (e = ENoExt \/ e = EXodr) ->
  (cur < 256 ^ 4)%N -> length d = 64%nat -> length o = 8%nat -> d' <> [] -> o' <> [] ->
  from_path handlers e true w cur' (Some d') o' (Some (dump_header cur d o ++ payload)) true = PCache <->
  (cur = cur' /\ d = d' /\ o = o').
Proof. exact path_dump_roundtrip. Qed.
Print Assumptions C20_path_dump_roundtrip.

(* the iteration order of the table is what the main theorem rests on: any table listing the pickled format first
   returns an existing pickle unverified for an extension-less path although the map is there (refutation of the
   property for that order; witness below) *)
Theorem C20_path_snet_first_refuted : forall hs u w cur d o file ok,
  from_pickle cur None None file ok = Loaded ->
  from_path (HSnet :: hs) ENoExt u w cur (Some d) o (Some file) ok = PPickleAsIs.
Proof. exact path_snet_first_unverified. Qed.
Print Assumptions C20_path_snet_first_refuted.

(* histories on one directory (loads through any entry, map replaced/removed, cache replaced/removed): every load
   through a map path with the map present never returns a pickle as it is and returns a cache only verified against
   the map and options of that very load *)
Theorem C20_history_cache_verified : forall cur okf payload ops mapd snet,
  Forall (fun ob => (o_entry ob = ENoExt \/ o_entry ob = EXodr) -> forall d, o_mapd ob = Some d -> d <> [] -> o_optd ob <> [] ->
     o_res ob <> PPickleAsIs /\
     (o_res ob = PCache -> o_use ob = true /\ exists file, o_snet ob = Some file /\
        length (firstn 4 file) = 4%nat /\ length (firstn 8 (skipn 68 file)) = 8%nat /\
        le_decode (firstn 4 file) = cur /\ firstn 64 (skipn 4 file) = d /\ firstn 8 (skipn 68 file) = o_optd ob /\
        length d = 64%nat /\ okf file = true))
    (run handlers cur okf payload ops mapd snet).
Proof. exact history_cache_verified. Qed.
Print Assumptions C20_history_cache_verified.

(* non-vacuity: stale cache (other map, other options) next to the map: ignored through both map paths, returned as
   it is through the explicit .snet path and by a table with the pickled format first; a 14-step history *)
Example C20_example_paths :
  from_path handlers ENoExt true false 7%N (Some (repeat 9%N 64)) (repeat 3%N 8) (Some stale_file) true = PParsed false /\
  from_path handlers EXodr true true 7%N (Some (repeat 9%N 64)) (repeat 3%N 8) (Some stale_file) true = PParsed true /\
  from_path handlers ESnet true false 7%N (Some (repeat 9%N 64)) (repeat 3%N 8) (Some stale_file) true = PPickleAsIs /\
  from_path handlers ENoExt true false 7%N (Some (repeat 1%N 64)) (repeat 2%N 8) (Some stale_file) true = PCache /\
  from_path handlers ENoExt true false 7%N None (repeat 3%N 8) (Some stale_file) true = PPickleAsIs /\
  from_path [HSnet; HXodr] ENoExt true false 7%N (Some (repeat 9%N 64)) (repeat 3%N 8) (Some stale_file) true = PPickleAsIs /\
  map o_res (run handlers 7%N (fun _ => true) []
    [OpLoad ENoExt true true oA; OpLoad ENoExt true true oA; OpLoad ENoExt true false oB; OpLoad EXodr true true oA;
     OpSetMap (Some dB); OpLoad ENoExt true true oA; OpLoad ENoExt true true oA; OpLoad ESnet true true oB;
     OpSetMap None; OpLoad ENoExt true true oB; OpLoad EXodr true true oB; OpSetSnet None; OpLoad ENoExt true true oA;
     OpLoad EOther true true oA] (Some dA) None)
  = [PParsed true; PCache; PParsed false; PCache; PParsed true; PCache; PPickleAsIs; PPickleAsIs; PNotFound; PNotFound; PUnknownFormat].
Proof. vm_compute. repeat split; reflexivity. Qed.
