(* C17 — visibility respects the view volume and occlusion: property theorems.
   Statements only; each is closed by [exact] of a lemma of coq/C17/VisibilityProofs.v. *)
From Coq Require Import QArith List Bool.
From Scenic Require Import C17.Vec C17.Visibility C17.VisibilityProofs.
Import ListNotations.
Open Scope Q_scope.

(* (1) With nothing occluding, a point is reported visible exactly when it lies in the view volume
   (distance, azimuth and altitude of R^-1 (p - c)); repaired transform.  atan2/asin/sqrt are
   oracles: atan2 positively homogeneous, asin a function on rationals-as-numbers, sqrt exact at the
   two vectors it is applied to. *)
Theorem C17_point_visible_iff_in_volume :
  forall (PI : Q) (atan2 : Q -> Q -> Q) (asin : Q -> Q) (norm : vec -> Q),
  0 < PI ->
  forall (O : Type) (odist : O -> Q) (hit : O -> vec -> list Q),
  (forall k y x : Q, 0 < k -> atan2 (k * y) (k * x) == atan2 y x) ->
  (forall a b : Q, a == b -> asin a == asin b) ->
  forall (c : vec) (R : option mat) (d h v : Q) (p : vec),
  0 <= d ->
  is_norm (norm (vsub p c)) (vsub p c) ->
  is_norm (norm (view_local R c p)) (view_local R c p) ->
  0 < norm (view_local R c p) ->
  point_visible PI atan2 asin norm O odist hit Fixed c R d h v p [] = true
  <-> in_volume PI atan2 asin c R d h v p.
Proof. exact point_visible_iff_in_volume. Qed.
Print Assumptions C17_point_visible_iff_in_volume.

(* F14: the transform of the unrepaired code (rotate the absolute position, then subtract the
   viewer position) reports a point straight ahead of a rotated viewer away from the origin as not
   visible. *)
Theorem C17_point_visible_old_refuted :
  exists c R d h v p,
    orthogonal R /\
    veq (local_vec Fixed (Some R) c p) (V3 0 1 0) /\
    veq (local_vec Old (Some R) c p) (V3 (-4) (-3) 0) /\
    point_visible toyPI toy_atan2 toy_asin toy_norm unit (fun _ => 0) (fun _ _ => []) Fixed c (Some R) d h v p [] = true /\
    point_visible toyPI toy_atan2 toy_asin toy_norm unit (fun _ => 0) (fun _ _ => []) Old c (Some R) d h v p [] = false.
Proof. exact point_visible_old_refuted. Qed.
Print Assumptions C17_point_visible_old_refuted.

(* ... and agrees with the repaired one exactly for viewers at the origin (or unrotated) *)
Theorem C17_old_agrees_at_origin : forall (R : option mat) (c p : vec),
  veq c vzero -> veq (local_vec Old R c p) (local_vec Fixed R c p).
Proof. exact old_agrees_at_origin. Qed.
Print Assumptions C17_old_agrees_at_origin.

(* the ray tested against occluders points from the camera to the target *)
Theorem C17_fixed_ray_points_at_target : forall (norm : vec -> Q) (m : mat) (c p : vec),
  orthogonal m ->
  veq (world_ray (Some m) (point_ray norm Fixed (Some m) c p))
      (vscale (/ norm (view_local (Some m) c p)) (vsub p c)).
Proof. exact fixed_ray_points_at_target. Qed.
Print Assumptions C17_fixed_ray_points_at_target.

(* (3) points: adding occluders never turns "not visible" into "visible"; a hit at or before the
   target blocks *)
Theorem C17_point_occlusion_monotone :
  forall (PI : Q) (atan2 : Q -> Q -> Q) (asin : Q -> Q) (norm : vec -> Q) (O : Type) (odist : O -> Q)
         (hit : O -> vec -> list Q) (x : xform) (c : vec) (R : option mat) (d h v : Q) (p : vec)
         (occs occs' : list O),
  incl occs occs' ->
  point_visible PI atan2 asin norm O odist hit x c R d h v p occs' = true ->
  point_visible PI atan2 asin norm O odist hit x c R d h v p occs = true.
Proof. exact point_occlusion_monotone. Qed.
Print Assumptions C17_point_occlusion_monotone.

Theorem C17_point_blocked_not_visible :
  forall (PI : Q) (atan2 : Q -> Q -> Q) (asin : Q -> Q) (norm : vec -> Q) (O : Type) (odist : O -> Q)
         (hit : O -> vec -> list Q) (x : xform) (c : vec) (R : option mat) (d h v : Q) (p : vec)
         (occs : list O) (o : O) (hd : Q),
  In o occs -> odist o <= d ->
  In hd (hit o (world_ray R (point_ray norm x R c p))) -> hd <= norm (vsub p c) ->
  point_visible PI atan2 asin norm O odist hit x c R d h v p occs = false.
Proof. exact point_blocked_not_visible. Qed.
Print Assumptions C17_point_blocked_not_visible.

(* (2) the angular-window optimisation for objects never discards a vertex strictly inside the view
   cone (ahead / behind-only / straddling, any h <= 2 pi) *)
Theorem C17_windows_cover :
  forall (PI h v : Q) (ahead behind : bool) (a0 : Q * Q) (angs : list (Q * Q)) (az alt : Q),
  0 <= h / 2 -> h / 2 <= PI -> 0 <= v / 2 ->
  In (az, alt) (a0 :: angs) ->
  - (h / 2) < az -> az < h / 2 -> - (v / 2) <= alt -> alt <= v / 2 ->
  exists ws : list window,
    view_windows PI h v ahead behind a0 angs = Some ws /\
    (exists w : window, In w ws /\ in_win w az alt).
Proof. exact windows_cover. Qed.
Print Assumptions C17_windows_cover.

(* (3) objects: the batched one-occluder-at-a-time filter = "some cast ray hits the target within
   the visible distance and no occluder at or before that hit"; monotone; all-blocked => not visible *)
Theorem C17_rays_visible_iff :
  forall (Ray O : Type) (target_hits : Ray -> list Q) (occ_hits : O -> Ray -> list Q) (d : Q)
         (batches : list (list Ray)) (occs : list O),
  rays_visible Ray O target_hits occ_hits d batches occs = true <->
  (exists (b : list Ray) (r : Ray), In b batches /\ In r b /\ ray_clear Ray O target_hits occ_hits d r occs).
Proof. exact rays_visible_iff. Qed.
Print Assumptions C17_rays_visible_iff.

Theorem C17_occlusion_monotone :
  forall (Ray O : Type) (target_hits : Ray -> list Q) (occ_hits : O -> Ray -> list Q) (d : Q)
         (batches : list (list Ray)) (occs occs' : list O),
  incl occs occs' ->
  rays_visible Ray O target_hits occ_hits d batches occs' = true ->
  rays_visible Ray O target_hits occ_hits d batches occs = true.
Proof. exact occlusion_monotone. Qed.
Print Assumptions C17_occlusion_monotone.

Theorem C17_occluded_all_rays_not_visible :
  forall (Ray O : Type) (target_hits : Ray -> list Q) (occ_hits : O -> Ray -> list Q) (d : Q)
         (batches : list (list Ray)) (occs : list O),
  (forall (b : list Ray) (r : Ray) (td : Q),
      In b batches -> In r b -> closest_within d (target_hits r) = Some td ->
      exists (o : O) (hd : Q), In o occs /\ In hd (occ_hits o r) /\ hd <= td) ->
  rays_visible Ray O target_hits occ_hits d batches occs = false.
Proof. exact occluded_all_rays_not_visible. Qed.
Print Assumptions C17_occluded_all_rays_not_visible.

Theorem C17_visible_needs_hit_in_range :
  forall (Ray O : Type) (target_hits : Ray -> list Q) (occ_hits : O -> Ray -> list Q) (d : Q)
         (batches : list (list Ray)) (occs : list O),
  rays_visible Ray O target_hits occ_hits d batches occs = true ->
  exists (b : list Ray) (r : Ray) (td : Q), In b batches /\ In r b /\ In td (target_hits r) /\ td <= d.
Proof. exact visible_needs_hit_in_range. Qed.
Print Assumptions C17_visible_needs_hit_in_range.

(* (4) plumbing: every (in)visibility requirement and the `can see` operator hand canSee every
   occluding object other than source and target *)
Theorem C17_requirement_occluders_complete : forall objects src tgt o,
  In o objects -> occluding o = true -> oid o <> src -> oid o <> tgt ->
  In o (req_occluders objects src tgt).
Proof. exact requirement_occluders_complete. Qed.
Print Assumptions C17_requirement_occluders_complete.

Theorem C17_op_occluders_exact : forall objects x y o,
  In o (op_occluders objects x y) <->
  In o objects /\ occluding o = true /\ x <> Some (oid o) /\ y <> Some (oid o).
Proof. exact op_occluders_exact. Qed.
Print Assumptions C17_op_occluders_exact.

Theorem C17_default_requirements_occluders_complete :
  forall objects observing nonobserving ego reqvis r o,
  In r (default_visibility_reqs false objects observing nonobserving ego reqvis) ->
  In o objects -> occluding o = true -> oid o <> rsrc r -> oid o <> rtgt r -> In o (rocc r).
Proof. exact default_requirements_occluders_complete. Qed.
Print Assumptions C17_default_requirements_occluders_complete.

(* F3 (owned by C02): the shared one-shot iterator starves the second requirement *)
Theorem C17_default_requirements_occluders_refuted :
  exists objects observing r o,
    In r (default_visibility_reqs true objects observing [] 0%nat []) /\
    In o objects /\ occluding o = true /\ oid o <> rsrc r /\ oid o <> rtgt r /\ ~ In o (rocc r).
Proof. exact default_requirements_occluders_refuted. Qed.
Print Assumptions C17_default_requirements_occluders_refuted.

(* non-vacuity: the oracle hypotheses of the first theorem are satisfiable (toy rational oracles on
   the F14 witness), and a window computation with a vertex inside the cone behind the viewer *)
Example C17_hypotheses_satisfiable :
  0 < toyPI /\
  is_norm (toy_norm (vsub f14_p f14_c)) (vsub f14_p f14_c) /\
  is_norm (toy_norm (view_local (Some rotz90) f14_c f14_p)) (view_local (Some rotz90) f14_c f14_p) /\
  0 < toy_norm (view_local (Some rotz90) f14_c f14_p) /\
  (forall a b, a == b -> toy_asin a == toy_asin b).
Proof. exact toy_hypotheses_satisfiable. Qed.

Example C17_windows_example :
  view_windows 4 7 2 false true (3, 0) [(-(7#2), 0)] <> None /\
  view_windows 4 2 2 false true (3, 0) [(-(7#2), 0)] = None.
Proof. split; vm_compute; congruence. Qed.
