(* C17 — visibility respects the view volume and occlusion: property theorems.
   Statements only; each is closed by [exact] of a lemma of coq/C17/VisibilityProofs.v. *)
From Coq Require Import QArith List Bool.
From Scenic Require Import C17.Vec C17.Visibility C17.VisibilityProofs C17.Grid C17.GridProofs C17.Angles C17.Round3Proofs.
From Coq Require Import Permutation Qminmax.
Import ListNotations.
Open Scope Q_scope.

(* (1) With nothing occluding, a point is reported visible exactly when it lies in the view volume
   (distance, azimuth and altitude of R^-1 (p - c)); repaired transform.  atan2/asin/sqrt are
   oracles: atan2 positively homogeneous, asin a function on rationals-as-numbers, sqrt exact at the
   two vectors it is applied to. *)
Theorem C17_point_visible_iff_in_volume :
  forall (PI : Q) (atan2 : Q -> Q -> Q) (asin : Q -> Q) (norm : vec -> Q),
  0 < PI ->
  forall (O : Type) (odist : O -> Q) (hit : O -> vec -> list Q),
  (forall k y x : Q, 0 < k -> atan2 (k * y) (k * x) == atan2 y x) ->
  (forall a b : Q, a == b -> asin a == asin b) ->
  forall (c : vec) (R : option mat) (d h v : Q) (p : vec),
  0 <= d ->
  is_norm (norm (vsub p c)) (vsub p c) ->
  is_norm (norm (view_local R c p)) (view_local R c p) ->
  0 < norm (view_local R c p) ->
  point_visible PI atan2 asin norm O odist hit Fixed c R d h v p [] = true
  <-> in_volume PI atan2 asin c R d h v p.
Proof. exact point_visible_iff_in_volume. Qed.
Print Assumptions C17_point_visible_iff_in_volume.

(* F14: the transform of the unrepaired code (rotate the absolute position, then subtract the
   viewer position) reports a point straight ahead of a rotated viewer away from the origin as not
   visible. *)
Theorem C17_point_visible_old_refuted :
  exists c R d h v p,
    orthogonal R /\
    veq (local_vec Fixed (Some R) c p) (V3 0 1 0) /\
    veq (local_vec Old (Some R) c p) (V3 (-4) (-3) 0) /\
    point_visible toyPI toy_atan2 toy_asin toy_norm unit (fun _ => 0) (fun _ _ => []) Fixed c (Some R) d h v p [] = true /\
    point_visible toyPI toy_atan2 toy_asin toy_norm unit (fun _ => 0) (fun _ _ => []) Old c (Some R) d h v p [] = false.
Proof. exact point_visible_old_refuted. Qed.
Print Assumptions C17_point_visible_old_refuted.

(* ... and agrees with the repaired one exactly for viewers at the origin (or unrotated) *)
Theorem C17_old_agrees_at_origin : forall (R : option mat) (c p : vec),
  veq c vzero -> veq (local_vec Old R c p) (local_vec Fixed R c p).
Proof. exact old_agrees_at_origin. Qed.
Print Assumptions C17_old_agrees_at_origin.

(* the ray tested against occluders points from the camera to the target *)
Theorem C17_fixed_ray_points_at_target : forall (norm : vec -> Q) (m : mat) (c p : vec),
  orthogonal m ->
  veq (world_ray (Some m) (point_ray norm Fixed (Some m) c p))
      (vscale (/ norm (view_local (Some m) c p)) (vsub p c)).
Proof. exact fixed_ray_points_at_target. Qed.
Print Assumptions C17_fixed_ray_points_at_target.

(* (3) points: adding occluders never turns "not visible" into "visible"; a hit at or before the
   target blocks *)
Theorem C17_point_occlusion_monotone :
  forall (PI : Q) (atan2 : Q -> Q -> Q) (asin : Q -> Q) (norm : vec -> Q) (O : Type) (odist : O -> Q)
         (hit : O -> vec -> list Q) (x : xform) (c : vec) (R : option mat) (d h v : Q) (p : vec)
         (occs occs' : list O),
  incl occs occs' ->
  point_visible PI atan2 asin norm O odist hit x c R d h v p occs' = true ->
  point_visible PI atan2 asin norm O odist hit x c R d h v p occs = true.
Proof. exact point_occlusion_monotone. Qed.
Print Assumptions C17_point_occlusion_monotone.

Theorem C17_point_blocked_not_visible :
  forall (PI : Q) (atan2 : Q -> Q -> Q) (asin : Q -> Q) (norm : vec -> Q) (O : Type) (odist : O -> Q)
         (hit : O -> vec -> list Q) (x : xform) (c : vec) (R : option mat) (d h v : Q) (p : vec)
         (occs : list O) (o : O) (hd : Q),
  In o occs -> odist o <= d ->
  In hd (hit o (world_ray R (point_ray norm x R c p))) -> hd <= norm (vsub p c) ->
  point_visible PI atan2 asin norm O odist hit x c R d h v p occs = false.
Proof. exact point_blocked_not_visible. Qed.
Print Assumptions C17_point_blocked_not_visible.

(* (2) the angular-window optimisation for objects never discards a vertex strictly inside the view
   cone (ahead / behind-only / straddling, any h <= 2 pi) *)
Theorem C17_windows_cover :
  forall (PI h v : Q) (ahead behind : bool) (a0 : Q * Q) (angs : list (Q * Q)) (az alt : Q),
  0 <= h / 2 -> h / 2 <= PI -> 0 <= v / 2 ->
  In (az, alt) (a0 :: angs) ->
  - (h / 2) < az -> az < h / 2 -> - (v / 2) <= alt -> alt <= v / 2 ->
  exists ws : list window,
    view_windows PI h v ahead behind a0 angs = Some ws /\
    (exists w : window, In w ws /\ in_win w az alt).
Proof. exact windows_cover. Qed.
Print Assumptions C17_windows_cover.

(* (3) objects: the batched one-occluder-at-a-time filter = "some cast ray hits the target within
   the visible distance and no occluder at or before that hit"; monotone; all-blocked => not visible *)
Theorem C17_rays_visible_iff :
  forall (Ray O : Type) (target_hits : Ray -> list Q) (occ_hits : O -> Ray -> list Q) (d : Q)
         (batches : list (list Ray)) (occs : list O),
  rays_visible Ray O target_hits occ_hits d batches occs = true <->
  (exists (b : list Ray) (r : Ray), In b batches /\ In r b /\ ray_clear Ray O target_hits occ_hits d r occs).
Proof. exact rays_visible_iff. Qed.
Print Assumptions C17_rays_visible_iff.

Theorem C17_occlusion_monotone :
  forall (Ray O : Type) (target_hits : Ray -> list Q) (occ_hits : O -> Ray -> list Q) (d : Q)
         (batches : list (list Ray)) (occs occs' : list O),
  incl occs occs' ->
  rays_visible Ray O target_hits occ_hits d batches occs' = true ->
  rays_visible Ray O target_hits occ_hits d batches occs = true.
Proof. exact occlusion_monotone. Qed.
Print Assumptions C17_occlusion_monotone.

Theorem C17_occluded_all_rays_not_visible :
  forall (Ray O : Type) (target_hits : Ray -> list Q) (occ_hits : O -> Ray -> list Q) (d : Q)
         (batches : list (list Ray)) (occs : list O),
  (forall (b : list Ray) (r : Ray) (td : Q),
      In b batches -> In r b -> closest_within d (target_hits r) = Some td ->
      exists (o : O) (hd : Q), In o occs /\ In hd (occ_hits o r) /\ hd <= td) ->
  rays_visible Ray O target_hits occ_hits d batches occs = false.
Proof. exact occluded_all_rays_not_visible. Qed.
Print Assumptions C17_occluded_all_rays_not_visible.

Theorem C17_visible_needs_hit_in_range :
  forall (Ray O : Type) (target_hits : Ray -> list Q) (occ_hits : O -> Ray -> list Q) (d : Q)
         (batches : list (list Ray)) (occs : list O),
  rays_visible Ray O target_hits occ_hits d batches occs = true ->
  exists (b : list Ray) (r : Ray) (td : Q), In b batches /\ In r b /\ In td (target_hits r) /\ td <= d.
Proof. exact visible_needs_hit_in_range. Qed.
Print Assumptions C17_visible_needs_hit_in_range.

(* (4) plumbing: every (in)visibility requirement and the `can see` operator hand canSee every
   occluding object other than source and target *)
Theorem C17_requirement_occluders_complete : forall objects src tgt o,
  In o objects -> occluding o = true -> oid o <> src -> oid o <> tgt ->
  In o (req_occluders objects src tgt).
Proof. exact requirement_occluders_complete. Qed.
Print Assumptions C17_requirement_occluders_complete.

Theorem C17_op_occluders_exact : forall objects x y o,
  In o (op_occluders objects x y) <->
  In o objects /\ occluding o = true /\ x <> Some (oid o) /\ y <> Some (oid o).
Proof. exact op_occluders_exact. Qed.
Print Assumptions C17_op_occluders_exact.

Theorem C17_default_requirements_occluders_complete :
  forall objects observing nonobserving ego reqvis r o,
  In r (default_visibility_reqs false objects observing nonobserving ego reqvis) ->
  In o objects -> occluding o = true -> oid o <> rsrc r -> oid o <> rtgt r -> In o (rocc r).
Proof. exact default_requirements_occluders_complete. Qed.
Print Assumptions C17_default_requirements_occluders_complete.

(* F3 (owned by C02): the shared one-shot iterator starves the second requirement *)
Theorem C17_default_requirements_occluders_refuted :
  exists objects observing r o,
    In r (default_visibility_reqs true objects observing [] 0%nat []) /\
    In o objects /\ occluding o = true /\ oid o <> rsrc r /\ oid o <> rtgt r /\ ~ In o (rocc r).
Proof. exact default_requirements_occluders_refuted. Qed.
Print Assumptions C17_default_requirements_occluders_refuted.

(* (5) objects, before any ray is cast (visibility.py:144-297).
   (5a) `crosses` flags are sound: an edge of the target that properly crosses the viewer's x = 0 plane at a point
   with y <= 0 (behind the viewer) / y >= 0 (ahead) sets target_crosses_behind / target_crosses_ahead. *)
Theorem C17_crosses_flags_sound : forall (edges : list (vec * vec)) (a b : vec) (t : Q),
  In (a, b) edges -> vx a * vx b < 0 ->
  vx (lerp a b t) == 0 ->
  (vy (lerp a b t) <= 0 -> snd (crosses edges) = true) /\
  (0 <= vy (lerp a b t) -> fst (crosses edges) = true).
Proof. exact crosses_flags_sound. Qed.
Print Assumptions C17_crosses_flags_sound.

(* (5b) vertex augmentation: every added point lies strictly inside a mesh edge, at the parameter t with
   t (N + M) = N; that parameter is THE zero of the numerator of d/dt tan(altitude) along the edge (which is the
   linear function N - (N + M) t), and an edge that gets no point has no interior stationary point. *)
Theorem C17_extras_on_edges : forall (edges : list (vec * vec)) (p : vec),
  In p (extras edges) ->
  exists a b t, In (a, b) edges /\ 0 < t /\ t < 1 /\ p = lerp a b t /\
                t * (alt_N a b + alt_M a b) == alt_N a b.
Proof. exact extras_on_edges. Qed.
Print Assumptions C17_extras_on_edges.

Theorem C17_altitude_stationary_numerator : forall (a b : vec) (t : Q),
  (vz b - vz a) * rho2 (lerp a b t)
  - vz (lerp a b t) * ((vx b - vx a) * vx (lerp a b t) + (vy b - vy a) * vy (lerp a b t))
  == alt_N a b - (alt_N a b + alt_M a b) * t.
Proof. exact altitude_stationary_numerator. Qed.
Print Assumptions C17_altitude_stationary_numerator.

Theorem C17_no_extra_no_stationary : forall (a b : vec) (t : Q),
  edge_t (a, b) = None -> 0 < t -> t < 1 ->
  ~ (alt_N a b == 0 /\ alt_M a b == 0) ->
  ~ (vz b - vz a) * rho2 (lerp a b t)
    - vz (lerp a b t) * ((vx b - vx a) * vx (lerp a b t) + (vy b - vy a) * vy (lerp a b t)) == 0.
Proof. exact no_extra_no_stationary. Qed.
Print Assumptions C17_no_extra_no_stationary.

(* (5c) the windows computed from the mesh (vertices + added points, flags from the edges) never discard a vertex
   or added point lying strictly inside the view cone *)
Theorem C17_object_windows_cover :
  forall (PI : Q) (atan2 : Q -> Q -> Q) (asin : Q -> Q) (norm : vec -> Q)
         (h v : Q) (verts : list vec) (edges : list (vec * vec)) (p : vec),
  0 <= h / 2 -> h / 2 <= PI -> 0 <= v / 2 ->
  In p (augment verts edges) ->
  let az := fst (sph PI atan2 asin norm p) in
  let alt := snd (sph PI atan2 asin norm p) in
  - (h / 2) < az -> az < h / 2 -> - (v / 2) <= alt -> alt <= v / 2 ->
  exists ws, object_windows PI atan2 asin norm h v verts edges = Some ws /\
             exists w, In w ws /\ in_win w az alt.
Proof. exact object_windows_cover. Qed.
Print Assumptions C17_object_windows_cover.

(* (6) the ray grid (visibility.py:299-350): np.linspace rows, ray counts from rayCount / rayDensity, azimuth count
   scaled by cos(altitude).  Every ray lies in its window, and every ray of the whole pipeline lies within the
   viewer's angular range (so no ray leaves the view volume), whatever the cos / atan2 / asin / norm oracles. *)
Theorem C17_window_rays_inside :
  forall (cos : Q -> Q) (h v rch rcv : Q) (altscale : bool) (w : window) (rays : list (Q * Q)) (az alt : Q),
  window_rays cos h v rch rcv altscale w = Some rays -> In (az, alt) rays -> in_win w az alt.
Proof. exact window_rays_inside. Qed.
Print Assumptions C17_window_rays_inside.

Theorem C17_linspace_shape : forall (lo hi : Q) (n : nat),
  length (linspace lo hi n) = n /\
  (lo <= hi -> forall x, In x (linspace lo hi n) -> lo <= x /\ x <= hi) /\
  ((2 <= n)%nat -> (exists x, In x (linspace lo hi n) /\ x == lo) /\ (exists x, In x (linspace lo hi n) /\ x == hi)).
Proof. exact linspace_shape. Qed.
Print Assumptions C17_linspace_shape.

Theorem C17_rays_inside_view :
  forall (PI : Q) (cos : Q -> Q) (h v rch rcv : Q) (altscale ahead behind : bool)
         (a0 : Q * Q) (angs : list (Q * Q)) (ws : list window) (rays : list (Q * Q)) (az alt : Q),
  0 < PI -> 0 <= h / 2 -> 0 <= v / 2 ->
  (forall a, In a (a0 :: angs) -> - PI <= fst a /\ fst a <= PI) ->
  view_windows PI h v ahead behind a0 angs = Some ws ->
  object_rays cos h v rch rcv altscale ws = Some rays ->
  In (az, alt) rays ->
  - (h / 2) <= az /\ az <= h / 2 /\ - (v / 2) <= alt /\ alt <= v / 2.
Proof. exact rays_inside_view. Qed.
Print Assumptions C17_rays_inside_view.

Theorem C17_object_pipeline_rays_inside_view :
  forall (PI : Q) (atan2 : Q -> Q -> Q) (asin : Q -> Q) (norm : vec -> Q) (cos : Q -> Q)
         (h v rch rcv : Q) (altscale : bool) (verts : list vec) (edges : list (vec * vec))
         (ws : list window) (rays : list (Q * Q)) (az alt : Q),
  0 < PI -> 0 <= h / 2 -> 0 <= v / 2 ->
  object_windows PI atan2 asin norm h v verts edges = Some ws ->
  object_rays cos h v rch rcv altscale ws = Some rays ->
  In (az, alt) rays ->
  - (h / 2) <= az /\ az <= h / 2 /\ - (v / 2) <= alt /\ alt <= v / 2.
Proof. exact object_pipeline_rays_inside_view. Qed.
Print Assumptions C17_object_pipeline_rays_inside_view.

(* (7) 2D compatibility mode (`_canSee2D` on a vector / point target; SectorRegion / CircularRegion.containsPoint,
   viewAngleToPoint, normalizeAngle): visible iff in the same plane, within the visible distance of the camera, and
   with bearing within viewAngle/2 of the heading modulo a full turn. *)
Theorem C17_normalize_angle_spec : forall (PI : Q), 0 < PI -> forall a : Q,
  - PI <= normalize_angle PI a /\ normalize_angle PI a <= PI /\
  exists k : Z, normalize_angle PI a == a + 2 * PI * inject_Z k.
Proof. exact normalize_angle_spec. Qed.
Print Assumptions C17_normalize_angle_spec.

Theorem C17_can_see_2d_iff :
  forall (PI : Q), 0 < PI ->
  forall (atan2 : Q -> Q -> Q) (norm : vec -> Q) (oriented : bool) (c : vec) (r heading angle : Q) (p : vec),
  0 <= r -> is_norm (norm (vsub p c)) (vsub p c) ->
  (can_see_2d PI atan2 norm oriented c r heading angle p = true <->
   if oriented then in_sector PI atan2 c r heading angle p else in_disc c r p).
Proof. exact can_see_2d_iff. Qed.
Print Assumptions C17_can_see_2d_iff.

(* non-vacuity of (5)-(7): a crossing edge behind the viewer sets the flag; an edge rising over the viewer gets an
   added point; a small grid; a sector with a point ahead (seen) and one to the side (not seen) *)
Example C17_flags_example :
  crosses [(V3 (-1) (-2) 0, V3 1 (-2) 0)] = (false, true) /\
  vx (lerp (V3 (-1) (-2) 0) (V3 1 (-2) 0) (1 # 2)) == 0.
Proof. split; vm_compute; reflexivity. Qed.

Example C17_extras_example :
  extras [(V3 (-1) 2 1, V3 1 2 1)] = [V3 (0 # 2) (4 # 2) (2 # 2)] /\ extras [(V3 1 2 0, V3 2 2 0)] = [].
Proof. split; vm_compute; reflexivity. Qed.

Example C17_grid_example :
  object_rays (fun _ => 1) 2 2 4 4 true [Win (-(1#2)) (1#2) 0 1] =
  Some [(-1 # 2, 0); (1 # 2, 0); (-1 # 2, 1); (1 # 2, 1)].
Proof. exact grid_example. Qed.

Example C17_sector_example :
  sector_contains toyPI toy_atan2 toy_norm (V3 1 1 0) 5 0 2 (V3 1 6 0) = true /\
  sector_contains toyPI toy_atan2 toy_norm (V3 1 1 0) 5 0 2 (V3 6 1 0) = false.
Proof. exact sector_example. Qed.

(* non-vacuity: the oracle hypotheses of the first theorem are satisfiable (toy rational oracles on
   the F14 witness), and a window computation with a vertex inside the cone behind the viewer *)
Example C17_hypotheses_satisfiable :
  0 < toyPI /\
  is_norm (toy_norm (vsub f14_p f14_c)) (vsub f14_p f14_c) /\
  is_norm (toy_norm (view_local (Some rotz90) f14_c f14_p)) (view_local (Some rotz90) f14_c f14_p) /\
  0 < toy_norm (view_local (Some rotz90) f14_c f14_p) /\
  (forall a b, a == b -> toy_asin a == toy_asin b).
Proof. exact toy_hypotheses_satisfiable. Qed.

Example C17_windows_example :
  view_windows 4 7 2 false true (3, 0) [(-(7#2), 0)] <> None /\
  view_windows 4 2 2 false true (3, 0) [(-(7#2), 0)] = None.
Proof. split; vm_compute; congruence. Qed.

(* ================================================================== round 3 *)
(* (8) the occlusion loop of canSee for object targets: the sequential one-occluder-at-a-time filter is the single
   filter "blocked by no occluder of the list"; hence the verdict does not depend on the ORDER of the occluders, and
   the survivors are the intersection of the per-occluder survivor sets (blocked rays accumulate). *)
Theorem C17_survivors_filter :
  forall (Ray O : Type) (target_hits : Ray -> list Q) (occ_hits : O -> Ray -> list Q) (d : Q)
         (batch : list Ray) (occs : list O),
  batch_survivors Ray O target_hits occ_hits d batch occs =
  filter (fun c => forallb (fun o => negb (blocked_by Ray O occ_hits o c)) occs) (candidates Ray target_hits d batch).
Proof. exact survivors_filter. Qed.
Print Assumptions C17_survivors_filter.

Theorem C17_survivors_permutation :
  forall (Ray O : Type) (target_hits : Ray -> list Q) (occ_hits : O -> Ray -> list Q) (d : Q)
         (batch : list Ray) (occs occs' : list O),
  Permutation occs occs' ->
  batch_survivors Ray O target_hits occ_hits d batch occs = batch_survivors Ray O target_hits occ_hits d batch occs'.
Proof. exact survivors_perm. Qed.
Print Assumptions C17_survivors_permutation.

Theorem C17_rays_visible_permutation :
  forall (Ray O : Type) (target_hits : Ray -> list Q) (occ_hits : O -> Ray -> list Q) (d : Q)
         (batches : list (list Ray)) (occs occs' : list O),
  Permutation occs occs' ->
  rays_visible Ray O target_hits occ_hits d batches occs = rays_visible Ray O target_hits occ_hits d batches occs'.
Proof. exact rays_visible_perm. Qed.
Print Assumptions C17_rays_visible_permutation.

Theorem C17_rays_visible_same_set :
  forall (Ray O : Type) (target_hits : Ray -> list Q) (occ_hits : O -> Ray -> list Q) (d : Q)
         (batches : list (list Ray)) (occs occs' : list O),
  incl occs occs' -> incl occs' occs ->
  rays_visible Ray O target_hits occ_hits d batches occs = rays_visible Ray O target_hits occ_hits d batches occs'.
Proof. exact rays_visible_same_set. Qed.
Print Assumptions C17_rays_visible_same_set.

Theorem C17_survivors_intersection :
  forall (Ray O : Type) (target_hits : Ray -> list Q) (occ_hits : O -> Ray -> list Q) (d : Q)
         (batch : list Ray) (occs : list O) (c : Ray * Q),
  In c (batch_survivors Ray O target_hits occ_hits d batch occs) <->
  In c (candidates Ray target_hits d batch) /\
  (forall o, In o occs -> In c (batch_survivors Ray O target_hits occ_hits d batch [o])).
Proof. exact survivors_intersection. Qed.
Print Assumptions C17_survivors_intersection.

(* non-vacuity: two staggered half-walls jointly block every ray, each alone does not, in both orders; the disciplines
   "only the last occluder counts" / "only the first occluder counts" are refuted on that instance *)
Example C17_two_partial_occluders :
  rays_visible nat nat toy_target_hits toy_occ_hits 10 [[0%nat; 1%nat]] [0%nat; 1%nat] = false /\
  rays_visible nat nat toy_target_hits toy_occ_hits 10 [[0%nat; 1%nat]] [1%nat; 0%nat] = false /\
  rays_visible nat nat toy_target_hits toy_occ_hits 10 [[0%nat; 1%nat]] [0%nat] = true /\
  rays_visible nat nat toy_target_hits toy_occ_hits 10 [[0%nat; 1%nat]] [1%nat] = true.
Proof. exact two_partial_occluders. Qed.

Theorem C17_last_occluder_only_refuted : exists (batch : list nat) (occs : list nat),
  batch_survivors nat nat toy_target_hits toy_occ_hits 10 batch occs = [] /\
  survivors_last_only nat nat toy_target_hits toy_occ_hits 10 batch occs <> [].
Proof. exact last_only_refuted. Qed.
Print Assumptions C17_last_occluder_only_refuted.

Theorem C17_first_occluder_only_refuted : exists (batch : list nat) (occs : list nat),
  batch_survivors nat nat toy_target_hits toy_occ_hits 10 batch occs = [] /\
  survivors_first_only nat nat toy_target_hits toy_occ_hits 10 batch occs <> [].
Proof. exact first_only_refuted. Qed.
Print Assumptions C17_first_occluder_only_refuted.

(* (9) OrientedPoint.__init__: over-limit viewAngles are truncated component-wise to (TAU, PI) *)
Theorem C17_truncate_angles_is_min : forall (TAU PI : Q) (a : Q * Q),
  truncate_angles TAU PI a = (Qmin (fst a) TAU, Qmin (snd a) PI).
Proof. exact truncate_angles_is_spec. Qed.
Print Assumptions C17_truncate_angles_is_min.

Theorem C17_truncate_within_limits : forall (TAU PI : Q) (a : Q * Q),
  fst (truncate_angles TAU PI a) <= TAU /\ snd (truncate_angles TAU PI a) <= PI.
Proof. exact truncate_within_limits. Qed.
Print Assumptions C17_truncate_within_limits.

Theorem C17_truncate_never_widens : forall (TAU PI : Q) (a : Q * Q),
  fst (truncate_angles TAU PI a) <= fst a /\ snd (truncate_angles TAU PI a) <= snd a.
Proof. exact truncate_never_widens. Qed.
Print Assumptions C17_truncate_never_widens.

Theorem C17_truncate_identity : forall (TAU PI : Q) (a : Q * Q),
  fst a <= TAU -> snd a <= PI -> truncate_angles TAU PI a = a.
Proof. exact truncate_identity. Qed.
Print Assumptions C17_truncate_identity.

Theorem C17_truncate_idempotent : forall (TAU PI : Q) (a : Q * Q),
  truncate_angles TAU PI (truncate_angles TAU PI a) = truncate_angles TAU PI a.
Proof. exact truncate_idempotent. Qed.
Print Assumptions C17_truncate_idempotent.

(* a legal vertical angle is kept WHATEVER the horizontal one is (and symmetrically) *)
Theorem C17_truncate_vertical_kept : forall (TAU PI h v : Q),
  v <= PI -> snd (truncate_angles TAU PI (h, v)) = v.
Proof. exact truncate_vertical_kept. Qed.
Print Assumptions C17_truncate_vertical_kept.

Theorem C17_truncate_horizontal_kept : forall (TAU PI h v : Q),
  h <= TAU -> fst (truncate_angles TAU PI (h, v)) = h.
Proof. exact truncate_horizontal_kept. Qed.
Print Assumptions C17_truncate_horizontal_kept.

Theorem C17_truncate_over_limit_clamped : forall (TAU PI h v : Q),
  (TAU < h -> fst (truncate_angles TAU PI (h, v)) == TAU) /\
  (PI < v -> snd (truncate_angles TAU PI (h, v)) == PI).
Proof. exact truncate_over_limit_clamped. Qed.
Print Assumptions C17_truncate_over_limit_clamped.

(* truncation does not change what is seen: the view volume of the requested angles = that of the truncated ones *)
Theorem C17_point_visible_truncation_invariant :
  forall (PI : Q) (atan2 : Q -> Q -> Q) (asin : Q -> Q) (norm : vec -> Q) (O : Type) (odist : O -> Q)
         (hit : O -> vec -> list Q),
  0 < PI -> (forall z, - (PI / 2) <= asin z /\ asin z <= PI / 2) ->
  forall (x : xform) (c : vec) (R : option mat) (d h v : Q) (p : vec) (occs : list O),
  point_visible PI atan2 asin norm O odist hit x c R d
                (fst (truncate_angles (2 * PI) PI (h, v))) (snd (truncate_angles (2 * PI) PI (h, v))) p occs =
  point_visible PI atan2 asin norm O odist hit x c R d h v p occs.
Proof. exact point_visible_truncation_invariant. Qed.
Print Assumptions C17_point_visible_truncation_invariant.

Example C17_truncate_example :
  truncate_angles 6 3 (7, 1) = (6, 1) /\ truncate_angles 6 3 (2, 5) = (2, 3) /\ truncate_angles 6 3 (6, 3) = (6, 3) /\
  truncate_angles 6 3 (100, 100) = (6, 3).
Proof. vm_compute. repeat split; reflexivity. Qed.
