(* C16 — property theorems.  Statements only: each is closed by [exact] of a lemma proved in
   coq/C16/RegionAlgProofs.v, followed by Print Assumptions. *)
From Coq Require Import QArith Qabs List Bool ZArith NArith Lqa.
From Scenic Require Import C16.RegionAlg C16.RegionAlgProofs C16.Project C16.ProjectProofs C16.Pass1 C16.Pass1Proofs.
(* the evaluators of the generated correspondence cases belong to this property's build closure *)
From Scenic Require C16.Cases.
Import ListNotations.
Open Scope Q_scope.

(* (1) composed regions: the code's evaluation (operands converted to footprints) is set semantics
   over the operands' own membership tests -- unless a z-strict planar operand (disc, sector) sits
   under an intersection / difference (refuted below: recorded finding). *)
Theorem C16_composed_membership : forall r p, nostrict r = true -> contains r p = sem r p.
Proof. exact composed_membership. Qed.
Print Assumptions C16_composed_membership.

Theorem C16_inter_membership : forall a b p, nostrict a = true -> nostrict b = true ->
  contains (RInter [a; b]) p = contains a p && contains b p.
Proof. exact inter_membership. Qed.
Theorem C16_union_membership : forall a b p, contains (RUnion [a; b]) p = contains a p || contains b p.
Proof. exact union_membership. Qed.
Theorem C16_diff_membership : forall a b p, nostrict a = true -> nostrict b = true ->
  contains (RDiff a b) p = contains a p && negb (contains b p).
Proof. exact diff_membership. Qed.
Print Assumptions C16_diff_membership.

(* the model evaluates "convert to footprint, then ask every operand", literally *)
Theorem C16_contains_inter_unfold : forall rs p,
  contains (RInter rs) p = forallb (fun r => contains (to_footprint r) p) rs.
Proof. exact contains_inter_unfold. Qed.

Theorem C16_sem_inter_iff : forall rs p, sem (RInter rs) p = true <-> (forall r, In r rs -> sem r p = true).
Proof. exact sem_inter_iff. Qed.
Theorem C16_sem_union_iff : forall rs p, sem (RUnion rs) p = true <-> (exists r, In r rs /\ sem r p = true).
Proof. exact sem_union_iff. Qed.
Theorem C16_sem_diff_iff : forall a b p, sem (RDiff a b) p = true <-> (sem a p = true /\ sem b p = false).
Proof. exact sem_diff_iff. Qed.

Theorem C16_strict_inter_refuted : exists a b p,
  contains (RInter [a; b]) p = true /\ contains a p = false.
Proof. exact strict_inter_refuted. Qed.

(* (2) analytic primitives *)
Theorem C16_disc_member_iff_dist0 : forall c R p rho,
  0 <= R -> 0 <= rho -> sq rho == d2sq (px c) (py c) (px p) (py p) ->
  (disc_member c R p = true <-> disc_dist_sq c R p rho == 0).
Proof. exact disc_member_iff_dist0. Qed.
Print Assumptions C16_disc_member_iff_dist0.

(* distance to a horizontal disc = hypot(max(0, rho - R), z - z0): no member is closer ... *)
Theorem C16_disc_distance_lower : forall c R p rho q,
  0 <= R -> 0 <= rho -> sq rho == d2sq (px c) (py c) (px p) (py p) ->
  disc_member c R q = true -> disc_dist_sq c R p rho <= d3sq q p.
Proof. exact disc_distance_lower. Qed.
Print Assumptions C16_disc_distance_lower.
(* ... and some member is exactly that far *)
Theorem C16_disc_distance_attained : forall c R p rho,
  0 <= R -> 0 < rho -> sq rho == d2sq (px c) (py c) (px p) (py p) ->
  exists q, disc_member c R q = true /\ d3sq q p == disc_dist_sq c R p rho.
Proof. exact disc_distance_attained. Qed.
Print Assumptions C16_disc_distance_attained.

(* the formula of the code before fix F15 is not the distance *)
Theorem C16_disc_distance_old_refuted : exists c R p rho n3,
  0 <= R /\ 0 <= rho /\ sq rho == d2sq (px c) (py c) (px p) (py p) /\ sq n3 == d3sq c p /\ 0 <= n3 /\
  ~ disc_dist_old_sq c R p rho n3 == disc_dist_sq c R p rho.
Proof. exact disc_distance_old_refuted. Qed.

Theorem C16_disc_disc_intersects_sound : forall c1 R1 c2 R2 q,
  0 <= R1 -> 0 <= R2 -> disc_member c1 R1 q = true -> disc_member c2 R2 q = true ->
  disc_disc_intersects c1 R1 c2 R2 = true.
Proof. exact disc_disc_intersects_sound. Qed.
Theorem C16_disc_disc_intersects_old_refuted : exists c1 R1 c2 R2,
  disc_disc_intersects_old c1 R1 c2 R2 = true /\ forall q, disc_member c1 R1 q = true -> disc_member c2 R2 q = false.
Proof. exact disc_disc_intersects_old_refuted. Qed.

Theorem C16_sector_subset_disc : forall c R half va p, sector_member c R half va p = true -> disc_member c R p = true.
Proof. exact sector_subset_disc. Qed.

Theorem C16_rect_member_in_aabb : forall cx cy co si hw hl x y,
  co * co + si * si == 1 ->
  rect_member cx cy co si hw hl x y = true ->
  Qabs (x - cx) <= rect_aabb_hx co si hw hl /\ Qabs (y - cy) <= rect_aabb_hy co si hw hl.
Proof. exact rect_member_in_aabb. Qed.
Print Assumptions C16_rect_member_in_aabb.

Theorem C16_box_member_iff_dist0 : forall hx hy hz u v w,
  box_member hx hy hz u v w = true <-> box_dist_sq hx hy hz u v w == 0.
Proof. exact box_member_iff_dist0. Qed.
Theorem C16_box_distance_lower : forall hx hy hz u v w qu qv qw,
  box_member hx hy hz qu qv qw = true ->
  box_dist_sq hx hy hz u v w <= sq (u - qu) + sq (v - qv) + sq (w - qw).
Proof. exact box_distance_lower. Qed.
Theorem C16_spheroid_member_in_aabb : forall a b c u v w, 0 < a -> 0 < b -> 0 < c ->
  spheroid_member a b c u v w = true -> Qabs u <= a /\ Qabs v <= b /\ Qabs w <= c.
Proof. exact spheroid_member_in_aabb. Qed.

Theorem C16_pointset_member_iff : forall pts tol p,
  pointset_member pts tol p = true <-> exists q, In q pts /\ d3sq q p <= sq tol.
Proof. exact pointset_member_iff. Qed.

Theorem C16_grid_point_member : forall grid Ax Ay Bx By sx sy ix iy,
  ~ Ax == 0 -> ~ Ay == 0 -> (0 <= ix < sx)%Z -> (0 <= iy < sy)%Z ->
  let '(x, y) := grid_point Ax Ay Bx By ix iy in
  grid_member grid Ax Ay Bx By sx sy x y =
  match grid_cell grid ix iy with Some 0%Z => true | _ => false end.
Proof. exact grid_point_member. Qed.
Print Assumptions C16_grid_point_member.

(* (3) the double-dispatch protocol: every well-formed table terminates with at most one
   re-dispatch; the regenerated table is checked for well-formedness on every run (gen/C16_Dispatch.v) *)
Theorem C16_protocol_terminates : forall rank lvl D t, table_ok rank lvl D t = true ->
  forall s, (rank (st_def s) <= D)%nat -> out_of (run (3 * D + 4) t s 0 0) <> OFuel.
Proof. exact protocol_terminates. Qed.
Print Assumptions C16_protocol_terminates.
Theorem C16_protocol_two_reversals : forall rank lvl D t, table_ok rank lvl D t = true ->
  forall fuel s, (snd (run fuel t s 0 0) <= 2)%nat.
Proof. exact protocol_two_reversals. Qed.
Theorem C16_dropped_flag_diverges : exists t s, forall fuel, out_of (run fuel t s 0 0) = OFuel.
Proof. exact dropped_flag_diverges. Qed.

(* non-vacuity *)
(* (4) projection along a direction (MeshRegion.projectVector): [ts] = signed parameters of the crossings of the line
   p + t d with the region's surface.  The returned crossing is a crossing, and none in either direction is nearer;
   None only when there is no crossing; the code before the repair (norm without axis) is refuted. *)
Theorem C16_project_nearest : forall ts t, project ts = Some t ->
  InQ t ts /\ ~ t == 0 /\ forall t', In t' ts -> ~ t' == 0 -> Qabs t <= Qabs t'.
Proof. exact project_nearest. Qed.
Theorem C16_project_none : forall ts, project ts = None -> forall t, In t ts -> t == 0.
Proof. exact project_none. Qed.
Theorem C16_project_some : forall ts t, In t ts -> ~ t == 0 -> project ts <> None.
Proof. exact project_some. Qed.
Theorem C16_project_old_refuted : exists ts t t', project_old ts = Some t /\ In t' ts /\ ~ t' == 0 /\ Qabs t' < Qabs t.
Proof. exact project_old_refuted. Qed.
Print Assumptions C16_project_nearest.
Example C16_project_example :
  project [(8 # 5); - (2 # 5); 3] = Some (- (2 # 5)) /\ project [- 1; - 4] = Some (- (1)) /\ project [] = None /\
  project_vector true [2] = Some 0.
Proof. vm_compute. repeat split. Qed.

(* (5) reported bounding boxes vs region-in-region containment: if every member of the inner region is a member of the
   outer one, a sound AABB of the outer region contains a tight AABB of the inner one; conversely one member of the
   inner region outside the outer region's AABB refutes containment. *)
Theorem C16_aabb_mono : forall (m1 m2 : Q -> Q -> Q -> Prop) b1 b2,
  (forall x y z, m2 x y z -> m1 x y z) -> aabb_sound m1 b1 -> aabb_tight m2 b2 -> box_le b2 b1.
Proof. exact aabb_mono. Qed.
Theorem C16_aabb_refutes_containment : forall (m1 m2 : Q -> Q -> Q -> Prop) b1 x y z,
  aabb_sound m1 b1 -> m2 x y z -> ~ in_box b1 x y z -> ~ (forall x y z, m2 x y z -> m1 x y z).
Proof. exact aabb_refutes_containment. Qed.
Theorem C16_box_le_in : forall b1 b2 x y z, box_le b1 b2 -> in_box b1 x y z -> in_box b2 x y z.
Proof. exact box_le_in. Qed.
Print Assumptions C16_aabb_mono.
Example C16_aabb_example :
  let m2 := fun x y z => 0 <= x <= 1 /\ 0 <= y <= 1 /\ z == 0 in
  aabb_sound m2 (mkbox 0 1 0 1 0 0) /\ aabb_tight m2 (mkbox 0 1 0 1 0 0).
Proof.
  split.
  - intros x y z (Hx & Hy & Hz). unfold in_box. simpl. repeat split; lra.
  - unfold aabb_tight. simpl. repeat split.
    + exists 0, 0, 0. repeat split; lra.
    + exists 1, 0, 0. repeat split; lra.
    + exists 0, 0, 0. repeat split; lra.
    + exists 0, 1, 0. repeat split; lra.
    + exists 0, 0, 0. repeat split; lra.
    + exists 0, 0, 0. repeat split; lra.
Qed.

(* (round 3) PASS 1 of MeshVolumeRegion.intersects: the circumradius test about the nominal positions *)
Theorem C16_pass1_sound : forall (m1 m2 : pt -> Prop) c1 r1 c2 r2 x,
  within m1 c1 r1 -> within m2 c2 r2 -> m1 x -> m2 x -> pass1_disjoint c1 r1 c2 r2 = false.
Proof. exact pass1_sound. Qed.
Theorem C16_circumradius_within : forall position vs r,
  radius_of (circumradius_sq position vs) r -> within (fun x => In x vs) position r.
Proof. exact circumradius_within. Qed.
Theorem C16_pass1_repaired_sound : forall p1 vs1 r1 p2 vs2 r2 x,
  radius_of (circumradius_sq p1 vs1) r1 -> radius_of (circumradius_sq p2 vs2) r2 ->
  In x vs1 -> In x vs2 -> pass1_disjoint p1 r1 p2 r2 = false.
Proof. exact pass1_repaired_sound. Qed.
Theorem C16_ball_convex : forall c r a b t,
  0 <= t -> t <= 1 -> d3sq c a <= sq r -> d3sq c b <= sq r -> d3sq c (lerp t a b) <= sq r.
Proof. exact ball_convex. Qed.
Theorem C16_max_d3sq_attained : forall c vs, vs <> [] -> exists v, In v vs /\ max_d3sq c vs == d3sq c v.
Proof. exact max_d3sq_attained. Qed.
Theorem C16_pass1_origin_refuted : exists p1 vs1 r1 p2 vs2 r2 x,
  radius_of (circumradius_sq_old p1 vs1) r1 /\ radius_of (circumradius_sq_old p2 vs2) r2 /\
  In x vs1 /\ In x vs2 /\ pass1_disjoint p1 r1 p2 r2 = true.
Proof. exact pass1_origin_refuted. Qed.
Theorem C16_pass1_other_centre_refuted : forall e : Q, ~ e == 0 ->
  exists p1 vs1 r1 p2 vs2 r2 x,
    radius_of (max_d3sq (mkpt (px p1 + e) 0 0) vs1) r1 /\ radius_of (circumradius_sq p2 vs2) r2 /\
    In x vs1 /\ In x vs2 /\ pass1_disjoint p1 r1 p2 r2 = true.
Proof. exact pass1_other_centre_refuted. Qed.
Print Assumptions C16_pass1_sound.
Print Assumptions C16_pass1_repaired_sound.
Print Assumptions C16_ball_convex.
Print Assumptions C16_pass1_origin_refuted.
Print Assumptions C16_pass1_other_centre_refuted.
(* non-vacuity: the hypotheses of C16_pass1_sound / C16_pass1_repaired_sound are satisfiable, and PASS 1 does separate far regions *)
Example C16_pass1_example :
  let vs1 := [mkpt 4 0 0; mkpt 6 0 0] in let vs2 := [mkpt 6 0 0; mkpt 6 3 0] in
  radius_of (circumradius_sq (mkpt 5 0 0) vs1) 1 /\ radius_of (circumradius_sq (mkpt 6 1 0) vs2) 2 /\
  In (mkpt 6 0 0) vs1 /\ In (mkpt 6 0 0) vs2 /\
  pass1_disjoint (mkpt 5 0 0) 1 (mkpt 6 1 0) 2 = false /\ pass1_disjoint (mkpt 5 0 0) 1 (mkpt 60 1 0) 2 = true.
Proof. unfold radius_of. vm_compute. repeat split; try discriminate; auto. Qed.

Example C16_examples :
  disc_member (mkpt 0 0 2) 1 (mkpt (1#2) 0 2) = true /\ disc_member (mkpt 0 0 2) 1 (mkpt (1#2) 0 0) = false /\
  disc_dist_sq (mkpt 0 0 4) 1 (mkpt 3 0 0) 3 == 20 /\
  rect_member 0 0 1 0 1 2 (1#2) (-3#2) = true /\
  round_half_even (5#2) = 2%Z /\ round_half_even (7#2) = 4%Z /\ round_half_even (-5#2) = (-2)%Z /\
  contains (RInter [RPlanar false (fun _ _ => true) 5; ROpaque (fun _ => true)]) (mkpt 0 0 0) = true /\
  nostrict (RInter [RPlanar false (fun _ _ => true) 5; RAll]) = true.
Proof. vm_compute. repeat split; reflexivity || discriminate. Qed.
