(* C13 — property theorems.  Statements only: each is closed by [exact] of a lemma proved in
   coq/C13/Interrupt.v about the DynCore model (coq/C12/Dyn.v). *)
From Coq Require Import List Arith Bool QArith.
From Scenic Require Import C12.Dyn C12.DynProofs C13.Interrupt C13.Compiler C13.CompilerProofs.
Import ListNotations.
Local Open Scope nat_scope.

(* preempt_latest: the block that runs is the enabled-or-running handler whose clause comes LATEST in
   the source (the compiler hands the handlers to the runtime reversed); else the body *)
Theorem C13_preempt_latest : forall w t (src : list hstate) i, pick_handler w t (rev src) = Some i ->
  exists before h after, src = before ++ h :: after /\ length after = i /\ eligible w t h = true /\
                         Forall (fun x => eligible w t x = false) after.
Proof. exact preempt_latest_source. Qed.
Theorem C13_body_runs_iff_no_handler : forall w t (src : list hstate), pick_handler w t (rev src) = None ->
  Forall (fun x => eligible w t x = false) src.
Proof. exact body_runs_source. Qed.
Print Assumptions C13_preempt_latest.

(* one round of the scheduler, completely: which continuation is resumed, and what each conclusion of the
   resumed block does to the statement (abort / break / continue / return / finished handler loops back
   without an invariant check / a yield stores the continuation back).  outer_precedes_inner is the
   instance where the selected block of the OUTER statement is a handler: its body (holding the inner
   statement's frame) is not resumed at all in that step. *)
Theorem C13_try_round : forall f P w t m ib o subs fresh o' body bk hs k' out e subs1,
  negb fresh && negb (all_true w t (inv_of P o')) = false ->
  run f P w t m true o' subs (selected_kont body bk hs (pick_handler w t hs)) = (out, e, subs1) ->
  run (S f) P w t m ib o subs (FTry fresh o' body bk hs :: k') =
  let sel := pick_handler w t hs in
  let subs_end := match m with MScen _ => [] | _ => subs1 end in
  match out with
  | OYield y kb' =>
      (OYield y (match sel with
                 | None => FTry false o' body (Some kb') hs
                 | Some i => FTry false o' body bk (set_handler hs i (Some kb'))
                 end :: k'), e, subs1)
  | ODone | OBlock KFinished =>
      match sel with
      | Some i => emit e (run f P w t m ib o' subs1 (FTry true o' body bk (set_handler hs i None) :: k'))
      | None => emit e (run f P w t m ib o' subs_end k')
      end
  | OBlock KAbort | OBlock KNone => emit e (run f P w t m ib o' subs_end k')
  | OBlock KBreak =>
      match unwind_loop k' with
      | Some (_, _, k'') => emit e (run f P w t m ib o' subs_end k'')
      | None => if ib then (OBlock KBreak, e, subs_end) else (OError, e, subs_end)
      end
  | OBlock KContinue =>
      match unwind_loop k' with
      | Some (c, b, k'') => emit e (run f P w t m ib o' subs_end (FWhile c b :: k''))
      | None => if ib then (OBlock KContinue, e, subs_end) else (OError, e, subs_end)
      end
  | OBlock KReturn =>
      match unwind_fun k' with
      | Some k'' => emit e (run f P w t m ib o' subs_end k'')
      | None => if ib then (OBlock KNone, e, subs_end) else (ODone, e, subs_end)
      end
  | other => (other, e, subs1)
  end.
Proof. exact try_round. Qed.
Print Assumptions C13_try_round.

(* resume_exact: a pre-empting handler leaves the body's continuation and every other handler's untouched *)
Theorem C13_resume_exact : forall f P w t m ib o subs fresh o' body bk hs k' i y kb' e subs1,
  negb fresh && negb (all_true w t (inv_of P o')) = false ->
  pick_handler w t hs = Some i ->
  run f P w t m true o' subs (selected_kont body bk hs (Some i)) = (OYield y kb', e, subs1) ->
  exists hs', run (S f) P w t m ib o subs (FTry fresh o' body bk hs :: k') =
              (OYield y (FTry false o' body bk hs' :: k'), e, subs1) /\
              (forall j, j <> i -> nth_error hs' j = nth_error hs j) /\ length hs' = length hs.
Proof. exact resume_exact. Qed.
Print Assumptions C13_resume_exact.

(* handler_conclusions *)
Theorem C13_handler_abort : forall f P w t m ib o subs fresh o' body bk hs k' e subs1,
  negb fresh && negb (all_true w t (inv_of P o')) = false ->
  run f P w t m true o' subs (selected_kont body bk hs (pick_handler w t hs)) = (OBlock KAbort, e, subs1) ->
  run (S f) P w t m ib o subs (FTry fresh o' body bk hs :: k') =
  emit e (run f P w t m ib o' (match m with MScen _ => [] | _ => subs1 end) k').
Proof. exact handler_abort. Qed.
Theorem C13_handler_break : forall f P w t m ib o subs fresh o' body bk hs k' e subs1 c b k'',
  negb fresh && negb (all_true w t (inv_of P o')) = false ->
  run f P w t m true o' subs (selected_kont body bk hs (pick_handler w t hs)) = (OBlock KBreak, e, subs1) ->
  unwind_loop k' = Some (c, b, k'') ->
  run (S f) P w t m ib o subs (FTry fresh o' body bk hs :: k') =
  emit e (run f P w t m ib o' (match m with MScen _ => [] | _ => subs1 end) k'').
Proof. exact handler_break. Qed.
Theorem C13_handler_continue : forall f P w t m ib o subs fresh o' body bk hs k' e subs1 c b k'',
  negb fresh && negb (all_true w t (inv_of P o')) = false ->
  run f P w t m true o' subs (selected_kont body bk hs (pick_handler w t hs)) = (OBlock KContinue, e, subs1) ->
  unwind_loop k' = Some (c, b, k'') ->
  run (S f) P w t m ib o subs (FTry fresh o' body bk hs :: k') =
  emit e (run f P w t m ib o' (match m with MScen _ => [] | _ => subs1 end) (FWhile c b :: k'')).
Proof. exact handler_continue. Qed.
Theorem C13_handler_return : forall f P w t m o subs fresh o' body bk hs k' e subs1,
  negb fresh && negb (all_true w t (inv_of P o')) = false ->
  run f P w t m true o' subs (selected_kont body bk hs (pick_handler w t hs)) = (OBlock KReturn, e, subs1) ->
  run (S f) P w t m false o subs (FTry fresh o' body bk hs :: k') =
  match unwind_fun k' with
  | Some k'' => emit e (run f P w t m false o' (match m with MScen _ => [] | _ => subs1 end) k'')
  | None => (ODone, e, match m with MScen _ => [] | _ => subs1 end)
  end.
Proof. exact handler_return. Qed.
Theorem C13_handler_finished_loops_back : forall f P w t m ib o subs fresh o' body bk hs k' i e subs1,
  negb fresh && negb (all_true w t (inv_of P o')) = false ->
  pick_handler w t hs = Some i ->
  run f P w t m true o' subs (selected_kont body bk hs (Some i)) = (OBlock KFinished, e, subs1) ->
  run (S f) P w t m ib o subs (FTry fresh o' body bk hs :: k') =
  emit e (run f P w t m ib o' subs1 (FTry true o' body bk (set_handler hs i None) :: k')).
Proof. exact handler_finished_loops_back. Qed.
Print Assumptions C13_handler_return.

(* the faithful model does NOT give `return` its documented effect when the try-interrupt is nested in a
   block of another one: both statements end and the behaviour continues (finding F22) *)
Theorem C13_nested_return_refuted : forall f P w t m o subs fresh o' body bk hs k' e subs1,
  negb fresh && negb (all_true w t (inv_of P o')) = false ->
  run f P w t m true o' subs (selected_kont body bk hs (pick_handler w t hs)) = (OBlock KReturn, e, subs1) ->
  unwind_fun k' = None ->
  run (S f) P w t m true o subs (FTry fresh o' body bk hs :: k') =
  (OBlock KNone, e, match m with MScen _ => [] | _ => subs1 end).
Proof. exact nested_return_only_leaves_the_statements. Qed.

(* abandoned_subs_stopped *)
Theorem C13_abandoned_subs_stopped : forall f P w t m ib o subs fresh o' body bk hs k' e subs1,
  negb fresh && negb (all_true w t (inv_of P o')) = false ->
  run f P w t m true o' subs (selected_kont body bk hs (pick_handler w t hs)) = (OBlock KAbort, e, subs1) ->
  exists k2, run (S f) P w t m ib o subs (FTry fresh o' body bk hs :: k') =
             emit e (run f P w t m ib o' (match m with MScen _ => [] | _ => subs1 end) k2) /\
             running_subs k2 = running_subs k'.
Proof. exact abandoned_subs_stopped. Qed.
Print Assumptions C13_abandoned_subs_stopped.

(* guards_checked_when: after every resumed yield, after a finished sub-behaviour, at start *)
Theorem C13_take_yields_then_checks : forall f P w t m ib o subs a ss k0,
  run (S f) P w t m ib o subs (FSeq (STake a :: ss) :: k0) = (OYield (YActs [a]) (FCheck o :: FSeq ss :: k0), [], subs).
Proof. exact take_yields_then_checks. Qed.
Theorem C13_resume_checks_invariants : forall f P w t m ib o subs o' k',
  run (S f) P w t m ib o subs (FCheck o' :: k') =
  if all_true w t (inv_of P o') then run f P w t m ib o' subs k' else (OViolation false o', [], subs).
Proof. exact resume_checks_invariants. Qed.
Theorem C13_do_is_invoke_then_check : forall f P w t m ib o subs b ss k0,
  run (S f) P w t m ib o subs (FSeq (SDo b :: ss) :: k0) = run f P w t m ib o subs (FSeq [SDoRaw b; SCheck] :: FSeq ss :: k0).
Proof. exact do_is_invoke_then_check. Qed.
Theorem C13_sub_finished_returns_to_caller : forall f P w t m ib o subs b caller k',
  run (S f) P w t m ib o subs (FSub b caller :: k') = run f P w t m ib caller subs k'.
Proof. exact sub_finished_returns_to_caller. Qed.
Theorem C13_sub_guards_at_start : forall f P w t a ib o subs b bh ss k0,
  nth_error (p_behaviors P) b = Some bh ->
  run (S f) P w t (MBeh a) ib o subs (FSeq (SDoRaw b :: ss) :: k0) =
  match guards_at_start P w t (OBeh b) with
  | Some pre => (OViolation pre (OBeh b), [], subs)
  | None => run f P w t (MBeh a) ib (OBeh b) subs (FSeq (b_body bh) :: FSub b o :: FSeq ss :: k0)
  end.
Proof. exact sub_guards_at_start. Qed.
Theorem C13_plain_do_runs_callee_as_owner : forall f P w t a ib o subs b bh ss k0 x rest,
  nth_error (p_behaviors P) b = Some bh -> guards_at_start P w t (OBeh b) = None ->
  b_body bh = STake x :: rest ->
  run (S (S f)) P w t (MBeh a) ib o subs (FSeq (SDoRaw b :: ss) :: k0) =
  (OYield (YActs [x]) (FCheck (OBeh b) :: FSeq rest :: FSub b o :: FSeq ss :: k0), [], subs).
Proof. exact plain_do_runs_callee_as_owner. Qed.
(* ... but inside a try-interrupt (hence also under do ... for/until) the owner's invariants are checked at
   every resumption, also while a sub-behaviour runs in one of the blocks (finding F23) *)
Theorem C13_try_resume_checks_invariant : forall f P w t m ib o subs o' body bk hs k',
  all_true w t (inv_of P o') = false ->
  run (S f) P w t m ib o subs (FTry false o' body bk hs :: k') = (OViolation false o', [], subs).
Proof. exact try_resume_checks_invariant. Qed.
Print Assumptions C13_try_resume_checks_invariant.

(* "not while a sub-behaviour runs" is refuted by the faithful model for do ... for: the caller's
   invariant (row 0: true, false, ...) is violated at step 1 under `do B1() for 5 steps` but not under `do B1()` *)
Definition gprog (s : stmt) : program :=
  {| p_behaviors := [ {| b_pre := []; b_inv := [CTab 0]; b_body := [s] |};
                      {| b_pre := []; b_inv := []; b_body := [STake 5; STake 5] |} ];
     p_monitors := []; p_scenarios := [ {| s_pre := []; s_inv := []; s_limit := None; s_termwhen := [];
                                           s_monitors := []; s_reqs := []; s_compose := None; s_records := []; s_termsim := [] |} ];
     p_objects := [Some 0]; p_rec_init := []; p_records := []; p_rec_final := []; p_termsim := []; p_reqs := [] |}.
Example C13_guards_not_while_sub_runs_refuted :
  let w := {| w_tab := [[true; false; true; true; true; true]] |} in
  r_kind (fst (simulate true 20 100 (gprog (SDo 1)) w (Some 4) (fun _ => [0]))) = RDone TTimeLimit /\
  r_kind (fst (simulate true 20 100 (gprog (SDoFor 1 (inject_Z 5))) w (Some 4) (fun _ => [0]))) = RViolation false.
Proof. vm_compute. split; reflexivity. Qed.

(* non-vacuity of preempt_latest: two handlers, both enabled: the later clause (priority index 0) runs *)
Example C13_example_latest :
  pick_handler {| w_tab := [] |} 0 (compile_handlers [(CConst true, [STake 1]); (CConst true, [STake 2])]) = Some 0 /\
  nth_error (compile_handlers [(CConst true, [STake 1]); (CConst true, [STake 2])]) 0 = Some (CConst true, [STake 2], None).
Proof. vm_compute. split; reflexivity. Qed.

(* ---- the compiler's emission of the loop-control checks after a try-interrupt statement
   (model: fl_stmt / try_flags / compile_try in coq/C12/Dyn.v, mirrored from visit_Break / visit_Continue /
   visit_TryInterrupt; the `return` check is emitted unconditionally).  A try-interrupt statement is entered
   with its blocks as compiled: *)
Theorem C13_try_enters_compiled : forall f P w t m ib o subs body hs ss k0,
  run (S f) P w t m ib o subs (FSeq (STry body hs :: ss) :: k0) =
  run f P w t m ib o subs (FTry true o (fst (compile_try body hs)) None (compile_handlers (snd (compile_try body hs))) :: FSeq ss :: k0).
Proof. reflexivity. Qed.
(* each of break / continue used anywhere in the blocks (referring to the loop around the statement) has its
   check emitted, whatever the lexical order of the uses and whichever blocks they are in, provided no block
   contains a nested try-interrupt statement ... *)
Theorem C13_loop_control_checks_emitted : forall body hs,
  forallb (fun b => negb (existsb has_try b)) (blocks_of body hs) = true ->
  try_flags body hs = (existsb (existsb direct_brk) (blocks_of body hs), existsb (existsb direct_cnt) (blocks_of body hs)).
Proof. exact flags_complete. Qed.
(* ... hence every BREAK / CONTINUE conclusion is acted upon as documented (C13_handler_break / _continue
   apply to the blocks as written) *)
Theorem C13_checks_emitted_blocks_unchanged : forall body hs,
  forallb (fun b => negb (existsb has_try b)) (blocks_of body hs) = true -> compile_try body hs = (body, hs).
Proof. exact checks_emitted_blocks_unchanged. Qed.
Print Assumptions C13_loop_control_checks_emitted.
Print Assumptions C13_checks_emitted_blocks_unchanged.
(* non-vacuity (break in the body, continue in a handler, continue before break in one block: both checks) and
   the refutation without the side condition (finding F21): a later block containing a try-interrupt wipes the
   recorded `break`, whose conclusion then merely ends the statement (it is compiled like `abort`) *)
Example C13_checks_emitted_examples :
  try_flags [STake 4; SBreak] [(CTab 0, [STake 5; SContinue])] = (true, true) /\
  try_flags [STake 2] [(CTab 0, [SIf (CTab 1) [SContinue] [SBreak]])] = (true, true) /\
  try_flags [STake 2] [(CTab 0, [SContinue])] = (false, true).
Proof. vm_compute. repeat split; reflexivity. Qed.
Example C13_flags_lost_refuted :
  exists body hs, existsb (existsb direct_brk) (blocks_of body hs) = true /\ fst (try_flags body hs) = false /\
                  snd (compile_try body hs) = [(CTab 0, [SAbort]); (CConst false, [STry [STake 5] [(CConst false, [STake 6])]])].
Proof.
  exists [STake 2; STake 3], [(CTab 0, [SBreak]); (CConst false, [STry [STake 5] [(CConst false, [STake 6])]])].
  vm_compute. repeat split; reflexivity.
Qed.

(* ---- the compiler's context flags as the state machine they are (coq/C13/Compiler.v: inLoop / inInterruptBlock
   saved and restored by visit_While / visit_TryInterrupt, usedBreak / usedContinue reset and set).
   Flags after a statement equal flags before it: whatever statement is visited, in whatever state, nested to any
   depth, inLoop and inInterruptBlock are afterwards what they were before ... *)
Theorem C13_compiler_context_restored : forall s st,
  c_loop (fst (visit true s st)) = c_loop st /\ c_blk (fst (visit true s st)) = c_blk st.
Proof. exact context_restored. Qed.
(* ... therefore every break / continue is classified LEXICALLY (turned into the block's BREAK / CONTINUE return iff it
   is inside an interrupt block and outside every loop of that block), also when it FOLLOWS a nested try-interrupt
   statement in the same loop body -- the reading DynCore's run-time semantics uses (unwind_loop over the frames of the
   current block function) ... *)
Theorem C13_compiler_classifies_lexically : forall s st, snd (visit true s st) = lex s (c_loop st) (c_blk st).
Proof. exact visit_is_lexical. Qed.
Theorem C13_compiler_block_lexical : forall ss st,
  snd (visit_block true ss st) = flat_map (fun x => lex x (c_loop st) (c_blk st)) ss /\
  c_loop (fst (visit_block true ss st)) = c_loop st /\ c_blk (fst (visit_block true ss st)) = c_blk st.
Proof. exact block_is_lexical. Qed.
(* ... and the usedBreak / usedContinue the state machine ends with are the model's fl_stmt / try_flags *)
Theorem C13_compiler_flags_are_model_flags : forall s st, c_blk st = true ->
  (c_ub (fst (visit true s st)), c_uc (fst (visit true s st))) = fl_stmt s (c_loop st) (c_ub st, c_uc st).
Proof. exact visit_flags_are_fl_stmt. Qed.
Theorem C13_compiler_try_flags : forall body hs st,
  (c_ub (fst (visit true (STry body hs) st)), c_uc (fst (visit true (STry body hs) st))) = try_flags body hs.
Proof. exact try_statement_flags. Qed.
(* the variant that forgets to restore inLoop misclassifies a `break` following a nested statement inside a loop of an
   outer block (the directed family `nestctl` of harness/c13.py replays this shape on the real compiler) *)
Theorem C13_inloop_not_restored_refuted :
  snd (visit false wit_loop_after_nested cst0) <> lex wit_loop_after_nested false false /\
  snd (visit true wit_loop_after_nested cst0) = lex wit_loop_after_nested false false /\
  snd (visit false wit_loop_after_nested cst0) = [true] /\ lex wit_loop_after_nested false false = [false].
Proof. exact inloop_not_restored_refuted. Qed.
Example C13_compiler_classification_example :    (* non-vacuity: both classes occur *)
  snd (visit true (STry [SWhile (CTab 0) [STake 1; SBreak]; SContinue] [(CTab 1, [SBreak])]) cst0) = [false; true; true].
Proof. vm_compute. reflexivity. Qed.
Print Assumptions C13_compiler_context_restored.
Print Assumptions C13_compiler_classifies_lexically.
Print Assumptions C13_compiler_flags_are_model_flags.
Print Assumptions C13_inloop_not_restored_refuted.
