(* C07 — property theorems (carrier R).  Statements only: each is closed by [exact] of a lemma proved
   in coq/C07/, followed by Print Assumptions.  Orientations are constrained only by being unit
   quaternions, trigonometric values only by c^2+s^2 = 1 (half-angle pairs). *)
From Coq Require Import Reals List QArith.
From Scenic Require Import C07.Carrier C07.Vec3 C07.Quat C07.Geometry C07.QuatProofs C07.GeometryProofs C07.Cases
  C07.FieldProofs C07.CarrierProofs.
Import ListNotations.
Open Scope R_scope.

(* ---- orientation algebra: composition, inversion, rotation *)
Theorem C07_quat_assoc : forall a b c : Rquat, qmul Ro (qmul Ro a b) c = qmul Ro a (qmul Ro b c).
Proof. exact qmul_assoc. Qed.

Theorem C07_quat_inv : forall q : Rquat, unitq q ->
  qmul Ro q (qconj Ro q) = qid Ro /\ qmul Ro (qconj Ro q) q = qid Ro.
Proof. exact (fun q H => conj (qinv_r q H) (qinv_l q H)). Qed.

Theorem C07_rotate_compose : forall (q1 q2 : Rquat) (v : Rvec),
  rotate Ro (qmul Ro q1 q2) v = rotate Ro q1 (rotate Ro q2 v).
Proof. exact rotate_compose. Qed.

Theorem C07_rotate_isometry : forall (q : Rquat) (u v : Rvec), unitq q ->
  vnorm2 Ro (vsub Ro (rotate Ro q u) (rotate Ro q v)) = vnorm2 Ro (vsub Ro u v).
Proof. exact rotate_isometry. Qed.

Theorem C07_rotate_inverse : forall (q : Rquat) (v : Rvec), unitq q ->
  rotate Ro (qconj Ro q) (rotate Ro q v) = v.
Proof. exact rotate_inv_l. Qed.

(* heading 0 = +Y, positive = counter-clockwise *)
Theorem C07_heading_convention : forall theta : R,
  rotate Ro (from_heading Ro (cos (theta / 2), sin (theta / 2))) (ey Ro) = (- sin theta, cos theta, 0).
Proof. exact heading_convention. Qed.

Theorem C07_euler_unit : forall (parent : Rquat) (y p r : Rang),
  unitq parent -> unita y -> unita p -> unita r -> unitq (orientation_of Ro parent y p r).
Proof. exact orientation_of_unit. Qed.

(* ---- facing family: the stated global orientation whatever the parent orientation *)
Theorem C07_facing_global : forall parent target : Rquat, unitq parent ->
  facing_orientation Ro parent target = target.
Proof. exact facing_global. Qed.

Theorem C07_facing_directly_toward : forall (parent : Rquat) (pos target : Rvec) (th ph : Rang) (rho : R),
  unitq parent -> unita th ->
  sight_local Ro parent pos target false = vscale Ro rho (sph_dir Ro th ph) ->
  vscale Ro rho (forward Ro (orientation_of Ro parent th ph (a0 Ro))) = vsub Ro target pos.
Proof. exact facing_directly_toward_points. Qed.

Theorem C07_facing_directly_away : forall (parent : Rquat) (pos target : Rvec) (th ph : Rang) (rho : R),
  unitq parent -> unita th ->
  sight_local Ro parent pos target true = vscale Ro rho (sph_dir Ro th ph) ->
  vscale Ro rho (forward Ro (orientation_of Ro parent th ph (a0 Ro))) = vsub Ro pos target.
Proof. exact facing_directly_away_points. Qed.

Theorem C07_facing_toward_forward : forall (parent : Rquat) (th : Rang),
  forward Ro (orientation_of Ro parent th (a0 Ro) (a0 Ro)) = rotate Ro parent (- asin Ro th, acos Ro th, 0).
Proof. exact facing_toward_forward. Qed.

(* ---- directional specifiers *)
Theorem C07_directional_centre : forall d (xpos : Rvec) (xq : Rquat) (xdims sdims : Rvec) ct b, unitq xq ->
  to_local Ro xpos xq (fst (directional_obj Ro d xpos xq xdims sdims ct b)) =
    dir_offset Ro d sdims xdims (contact_offset Ro b ct) (by_components Ro d b)
  /\ snd (directional_obj Ro d xpos xq xdims sdims ct b) = xq.
Proof. exact directional_centre. Qed.

Theorem C07_directional_centre_op : forall d (xpos : Rvec) (xq : Rquat) (sdims : Rvec) b, unitq xq ->
  to_local Ro xpos xq (fst (directional_op Ro d xpos xq sdims b)) =
    dir_offset Ro d sdims (0, 0, 0) 0 (by_components Ro d b)
  /\ snd (directional_op Ro d xpos xq sdims b) = xq.
Proof. exact directional_centre_op. Qed.

Theorem C07_directional_centre_vec : forall d (p : Rvec) (selfq : Rquat) (sdims : Rvec) b, unitq selfq ->
  to_local Ro p selfq (directional_vec Ro d p selfq sdims b) =
    dir_offset Ro d sdims (0, 0, 0) 0 (by_components Ro d b).
Proof. exact directional_centre_vec. Qed.

(* gap between the two boxes along X's local axis = D (resp. contactTolerance/2, resp. the axis
   component of a vector D) when the orientations agree: every pair of corners is at least that far
   apart along the axis, and the facing faces are exactly that far apart *)
Theorem C07_directional_gap : forall d (xpos : Rvec) (xq : Rquat) (xdims sdims : Rvec) ct b,
  unitq xq -> 0 <= dir_dim d sdims -> 0 <= dir_dim d xdims ->
  let newpos := fst (directional_obj Ro d xpos xq xdims sdims ct b) in
  (forall s t, In s (corner_signs Ro) -> In t (corner_signs Ro) ->
     dir_gap_value Ro d b ct <=
     along Ro xpos xq d (box_point Ro newpos xq sdims s) - along Ro xpos xq d (box_point Ro xpos xq xdims t))
  /\ along Ro xpos xq d (box_point Ro newpos xq sdims (vneg Ro (dir_axis Ro d)))
     - along Ro xpos xq d (box_point Ro xpos xq xdims (dir_axis Ro d)) = dir_gap_value Ro d b ct.
Proof.
  exact (fun d xpos xq xdims sdims ct b H Hs Hx =>
    conj (fun s t Is It => directional_gap_corners d xpos xq xdims sdims ct b s t H Hs Hx Is It)
         (directional_gap_attained d xpos xq xdims sdims ct b H)).
Qed.

Theorem C07_directional_gap_needs_alignment_refuted :
  exists (xq nq : Rquat) (s : Rvec), unitq xq /\ unitq nq /\ In s (corner_signs Ro) /\
    let xpos := (0, 0, 0) in let xdims := (1, 1, 1) in let sdims := (2, 4, 2) in
    let newpos := fst (directional_obj Ro DRight xpos xq xdims sdims 0 (ByScalar 1)) in
    along Ro xpos xq DRight (box_point Ro newpos nq sdims s)
    - along Ro xpos xq DRight (box_point Ro xpos xq xdims (dir_axis Ro DRight)) < 1.
Proof. exact directional_gap_needs_alignment_refuted. Qed.

(* ---- frames of offset by / relative to / offset along / beyond *)
Theorem C07_offset_by_frame : forall (epos : Rvec) (eq : Rquat) (v : Rvec), unitq eq ->
  to_local Ro epos eq (fst (offset_by Ro epos eq v)) = v /\ snd (offset_by Ro epos eq v) = eq.
Proof. exact offset_by_frame. Qed.

Theorem C07_relative_to_frame : forall (ppos : Rvec) (pq : Rquat) (v : Rvec), unitq pq ->
  to_local Ro ppos pq (fst (relative_to_op Ro ppos pq v)) = v /\ snd (relative_to_op Ro ppos pq v) = pq.
Proof. exact relative_to_frame. Qed.

Theorem C07_offset_along_frame : forall (x : Rvec) (h : Rquat) (v : Rvec), unitq h ->
  to_local Ro x h (offset_along Ro x h v) = v.
Proof. exact offset_along_frame. Qed.

Theorem C07_relative_to_orient : forall (x y : Rquat) (v : Rvec),
  rotate Ro (relative_to_orient Ro x y) v = rotate Ro y (rotate Ro x v).
Proof. exact relative_to_orient_rotate. Qed.

Theorem C07_beyond_frame : forall (p q off : Rvec) (th ph : Rang) (rho : R),
  unita th -> unita ph -> vsub Ro p q = vscale Ro rho (sph_dir Ro th ph) ->
  to_local Ro p (from_euler Ro th ph (a0 Ro)) (beyond_pos Ro p off th ph) = off
  /\ vscale Ro rho (forward Ro (from_euler Ro th ph (a0 Ro))) = vsub Ro p q.
Proof. exact beyond_frame. Qed.

Theorem C07_beyond_scalar : forall (p q : Rvec) (d : R) (th ph : Rang) (rho : R),
  unita th -> vsub Ro p q = vscale Ro rho (sph_dir Ro th ph) ->
  vscale Ro rho (vsub Ro (beyond_pos Ro p (beyond_offset Ro (ByScalar d)) th ph) p) = vscale Ro d (vsub Ro p q).
Proof. exact beyond_scalar. Qed.

(* ---- scalar operators *)
Theorem C07_distance_sym : forall (n : R) (a b : Rvec), dist2 Ro a b = dist2 Ro b a /\
  distance_res Ro n a b = distance_res Ro n b a.
Proof. exact distance_sym. Qed.

Theorem C07_distance_rigid : forall (q : Rquat) (t a b : Rvec), unitq q ->
  dist2 Ro (offset_locally Ro t q a) (offset_locally Ro t q b) = dist2 Ro a b.
Proof. exact distance_rigid. Qed.

Theorem C07_relative_heading_antisym : forall (rh : Rang) (q1 q2 : Rquat),
  relheading_res Ro (aneg Ro rh) q2 q1 = - relheading_res Ro rh q1 q2 /\
  relheading_dot Ro (aneg Ro rh) q2 q1 = relheading_dot Ro rh q1 q2.
Proof. exact relative_heading_antisym. Qed.

Theorem C07_angle_of_heading : forall (a : Rang) (p : Rvec), unita a ->
  angle_res Ro a p (vadd Ro p (forward Ro (from_heading Ro a))) = 0 /\
  angle_dot Ro a p (vadd Ro p (forward Ro (from_heading Ro a))) = 1.
Proof. exact angle_of_heading. Qed.

Theorem C07_apparent_heading_spec : forall (pos b : Rvec) (h al : Rang) (rho : R), unita h -> unita al ->
  xy (vsub Ro pos b) = (rho * - asin Ro al, rho * acos Ro al) ->
  let ah := aadd Ro h (aneg Ro al) in
  appheading_res Ro ah pos (from_heading Ro h) b = 0 /\
  appheading_dot Ro ah pos (from_heading Ro h) b = rho.
Proof. exact apparent_heading_spec. Qed.

(* ==== round 2: vector fields, following, on, the executable gap fold, Euler round trip, Qo = Q ==== *)
(* facing <field>: whatever the (unit) parent orientation, the global orientation is the field's value at the
   object's position *)
Theorem C07_facing_field_global : forall (parent : Rquat) (F : Rvec -> Rquat) (pos : Rvec), unitq parent ->
  facing_field_orientation Ro parent F pos = F pos.
Proof. exact facing_field_global. Qed.

(* ... and the operand order in parent^-1 * F[pos] matters (F[pos] * parent^-1 gives another rotation) *)
Theorem C07_facing_field_order_matters :
  exists (parent f : Rquat), unitq parent /\ unitq f /\
    qmul Ro parent (qmul Ro f (qconj Ro parent)) <> f /\
    qmul Ro parent (qmul Ro f (qconj Ro parent)) <> qneg Ro f.
Proof. exact facing_field_order_matters. Qed.

Theorem C07_relative_to_field : forall (X Y : Rvec -> Rquat) (pos v : Rvec),
  rotate Ro (relative_to_field Ro X Y pos) v = rotate Ro (Y pos) (rotate Ro (X pos) v).
Proof. exact relative_to_field_rotate. Qed.

Theorem C07_offset_along_field_frame : forall (x : Rvec) (F : Rvec -> Rquat) (v : Rvec), unitq (F x) ->
  to_local Ro x (F x) (offset_along_field Ro x F v) = v.
Proof. exact offset_along_field_frame. Qed.

(* apparently facing H from P (as repaired, F21): heading H with respect to the line of sight, in the parent frame *)
Theorem C07_apparently_facing_spec : forall (parent : Rquat) (pos p : Rvec) (h al : Rang) (rho : R),
  unita h -> unita al ->
  xy (sight_local Ro parent pos p true) = (rho * - asin Ro al, rho * acos Ro al) ->
  let yaw := aadd Ro al h in
  turn_res Ro h (xy (sight_local Ro parent pos p true)) (- asin Ro yaw, acos Ro yaw) = 0 /\
  turn_dot Ro h (xy (sight_local Ro parent pos p true)) (- asin Ro yaw, acos Ro yaw) = rho /\
  forward Ro (orientation_of Ro parent yaw (a0 Ro) (a0 Ro)) = rotate Ro parent (- asin Ro yaw, acos Ro yaw, 0).
Proof. exact apparently_facing_spec. Qed.

(* following: the recursive definition is the executable fold over the field's values at the visited points;
   every step has length |step| along the field's forward axis there; in a constant field n steps of D/n are a
   straight move by D; in any (unit) field the end point is at most n*|step| = |D| away *)
Theorem C07_follow_executable : forall (F : Rvec -> Rquat) n step pos,
  follow Ro F n step pos = follow_rec Ro (map F (visited Ro F n step pos)) step pos /\
  length (visited Ro F n step pos) = n.
Proof. exact (fun F n step pos => conj (follow_eq_rec F n step pos) (visited_length F n step pos)). Qed.

Theorem C07_follow_step : forall (q : Rquat) (step : R) (pos : Rvec),
  vsub Ro (follow_step Ro q step pos) pos = vscale Ro step (forward Ro q) /\
  (unitq q -> vnorm2 Ro (vsub Ro (follow_step Ro q step pos) pos) = step * step).
Proof. exact (fun q step pos => conj (follow_step_forward q step pos) (follow_step_length q step pos)). Qed.

Theorem C07_follow_const : forall (F : Rvec -> Rquat) (q : Rquat) n D pos, (forall p, F p = q) -> (0 < n)%nat ->
  follow Ro F n (D / INR n) pos = vadd Ro pos (vscale Ro D (forward Ro q)).
Proof. exact follow_const_distance. Qed.

Theorem C07_follow_distance_bound : forall (F : Rvec -> Rquat) n step pos, (forall p, unitq (F p)) ->
  vnorm2 Ro (vsub Ro (follow Ro F n step pos) pos) <= (INR n * Rabs step) * (INR n * Rabs step).
Proof. exact follow_distance_bound. Qed.

(* on: the new centre, in the frame of the surface point and the surface orientation, is the contact offset
   (0,0,ct/2) - baseOffset, and that orientation is inherited; with the default baseOffset every point of the new
   box is ct/2 + (1+s.z) height/2 above the surface point along the normal, at least ct/2 for the corners *)
Theorem C07_on_frame : forall (p : Rvec) (q : Rquat) (ct : R) (base : Rvec), unitq q ->
  to_local Ro p q (fst (on_pos Ro p q ct base)) = on_offset Ro ct base /\ snd (on_pos Ro p q ct base) = q.
Proof. exact on_frame. Qed.

Theorem C07_on_gap : forall (p : Rvec) (q : Rquat) (ct : R) (dims s : Rvec), unitq q ->
  vz (to_local Ro p q (box_point Ro (fst (on_pos Ro p q ct (default_base Ro dims))) q dims s))
  = ct / 2 + (1 + vz s) * (vz dims / 2).
Proof. exact on_gap. Qed.

Theorem C07_on_gap_corners : forall (p : Rvec) (q : Rquat) (ct : R) (dims s : Rvec), unitq q -> 0 <= vz dims ->
  In s (corner_signs Ro) ->
  ct / 2 <= vz (to_local Ro p q (box_point Ro (fst (on_pos Ro p q ct (default_base Ro dims))) q dims s)).
Proof. exact on_gap_corners. Qed.

(* the executable min/max fold [gap_along] (what the correspondence runs, here at both carriers): its value is
   along(p) - along(q) for a new corner p minimal and a corner q of X maximal among all corners *)
Theorem C07_gap_along_fold_R : forall xpos xq d (cx cn : list Rvec), cx <> [] -> cn <> [] ->
  exists p q, In p cn /\ In q cx /\
    gap_along Ro xpos xq d cx cn = along Ro xpos xq d p - along Ro xpos xq d q /\
    (forall p', In p' cn -> along Ro xpos xq d p <= along Ro xpos xq d p') /\
    (forall q', In q' cx -> along Ro xpos xq d q' <= along Ro xpos xq d q).
Proof. exact gap_along_fold_R. Qed.

Theorem C07_gap_along_fold_Q : forall xpos xq d (cx cn : list (@vec Q)), cx <> [] -> cn <> [] ->
  exists p q, In p cn /\ In q cx /\
    gap_along Qo xpos xq d cx cn = sub Qo (along Qo xpos xq d p) (along Qo xpos xq d q) /\
    (forall p', In p' cn -> (along Qo xpos xq d p <= along Qo xpos xq d p')%Q) /\
    (forall q', In q' cx -> (along Qo xpos xq d q' <= along Qo xpos xq d q)%Q).
Proof. exact gap_along_fold_Q. Qed.

(* ... hence for the aligned placement the fold over the two lists of eight corners IS the documented gap *)
Theorem C07_gap_along_directional : forall d (xpos : Rvec) (xq : Rquat) (xdims sdims : Rvec) ct b,
  unitq xq -> 0 <= dir_dim d sdims -> 0 <= dir_dim d xdims ->
  let newpos := fst (directional_obj Ro d xpos xq xdims sdims ct b) in
  gap_along Ro xpos xq d (corners Ro xpos xq xdims) (corners Ro newpos xq sdims) = dir_gap_value Ro d b ct.
Proof. exact gap_along_directional. Qed.

(* Euler angles (intrinsic ZXY): the defining equations that as_euler inverts, and the round trip away from
   gimbal lock: the rotation determines (cos, sin) of yaw, pitch and roll when cos pitch > 0 *)
Theorem C07_euler_matrix : forall y p r : Rang, unita y -> unita p -> unita r ->
  let q := from_euler Ro y p r in
  rotate Ro q (ey Ro) = (- asin Ro y * acos Ro p, acos Ro y * acos Ro p, asin Ro p) /\
  vz (rotate Ro q (ex Ro)) = - acos Ro p * asin Ro r /\
  vz (rotate Ro q (ez Ro)) = acos Ro p * acos Ro r.
Proof. exact euler_matrix. Qed.

Theorem C07_euler_roundtrip : forall y p r y' p' r' : Rang,
  unita y -> unita p -> unita r -> unita y' -> unita p' -> unita r' ->
  0 < acos Ro p -> 0 < acos Ro p' ->
  (forall v, rotate Ro (from_euler Ro y p r) v = rotate Ro (from_euler Ro y' p' r') v) ->
  (acos Ro y = acos Ro y' /\ asin Ro y = asin Ro y') /\
  (acos Ro p = acos Ro p' /\ asin Ro p = asin Ro p') /\
  (acos Ro r = acos Ro r' /\ asin Ro r = asin Ro r').
Proof. exact euler_roundtrip. Qed.

(* the running dictionary Qo is Q's own arithmetic, for all rationals (axiom-free) *)
Theorem C07_Qo_is_Q : forall a b : Q,
  (add Qo a b == a + b)%Q /\ (mul Qo a b == a * b)%Q /\ (sub Qo a b == a - b)%Q /\ (div Qo a b == a / b)%Q /\
  (opp Qo a == - a)%Q /\ (zero Qo == 0)%Q /\ (one Qo == 1)%Q /\ (leb Qo a b = true <-> (a <= b)%Q).
Proof. exact Qo_is_Q. Qed.
Print Assumptions C07_Qo_is_Q.
Print Assumptions C07_gap_along_fold_Q.

(* one Print Assumptions over the tuple of all property theorems (each traversal of the Reals library is
   slow; the union of axioms is what the evidence records) *)
Definition C07_all := (C07_quat_assoc,
  C07_quat_inv,
  C07_rotate_compose,
  C07_rotate_isometry,
  C07_rotate_inverse,
  C07_heading_convention,
  C07_euler_unit,
  C07_facing_global,
  C07_facing_directly_toward,
  C07_facing_directly_away,
  C07_facing_toward_forward,
  C07_directional_centre,
  C07_directional_centre_op,
  C07_directional_centre_vec,
  C07_directional_gap,
  C07_directional_gap_needs_alignment_refuted,
  C07_offset_by_frame,
  C07_relative_to_frame,
  C07_offset_along_frame,
  C07_relative_to_orient,
  C07_beyond_frame,
  C07_beyond_scalar,
  C07_distance_sym,
  C07_distance_rigid,
  C07_relative_heading_antisym,
  C07_angle_of_heading,
  C07_apparent_heading_spec,
  C07_facing_field_global, C07_facing_field_order_matters, C07_apparently_facing_spec, C07_relative_to_field, C07_offset_along_field_frame,
  C07_follow_executable, C07_follow_step, C07_follow_const, C07_follow_distance_bound,
  C07_on_frame, C07_on_gap, C07_on_gap_corners, C07_gap_along_fold_R, C07_gap_along_directional,
  C07_euler_matrix, C07_euler_roundtrip).
Print Assumptions C07_all.

(* ---- non-vacuity: the hypotheses are satisfiable (a 3-4-5 unit pair, a non-trivial unit quaternion) *)
Example C07_hyps_satisfiable :
  unita (3/5, 4/5) /\ unitq (1/2, 1/2, 1/2, 1/2) /\
  (exists (p q : Rvec) (th ph : Rang) (rho : R), unita th /\ unita ph /\ rho <> 0 /\
     vsub Ro p q = vscale Ro rho (sph_dir Ro th ph)).
Proof. exact hyps_satisfiable. Qed.

(* round 2: the round trip's hypotheses (unit pairs, cos pitch > 0, a genuinely tilted pitch) are satisfiable;
   a constant unit field exists (follow_const / follow_distance_bound) *)
Example C07_round2_hyps_satisfiable :
  (exists y p r : Rang, unita y /\ unita p /\ unita r /\ 0 < acos Ro p /\ asin Ro p <> 0) /\
  (exists (F : Rvec -> Rquat) (q : Rquat), (forall p, F p = q) /\ (forall p, unitq (F p))).
Proof. split; [exact euler_roundtrip_hyps|].
  exists (fun _ => (1/2, 1/2, 1/2, 1/2)), (1/2, 1/2, 1/2, 1/2). split; [reflexivity|].
  intro p. exact (proj1 (proj2 hyps_satisfiable)). Qed.

(* the same generic definitions at the carrier Q (what the correspondence check executes): the box of
   size 2x4x6 centred at (1,2,3) with the identity orientation has its `top front left` corner at (0,4,6) *)
Example C07_Q_instance_runs :
  firstn 7 (run_case 7 (map (fun z => inject_Z z)
     [1; 2; 3; 1; 0; 1; 0; 1; 0; 1; 0; 1; 0; 1; 0; 2; 4; 6; 10; 0; 0; 0; 1]%Z))
  = map (fun z => inject_Z z) [0; 0; 0; 1; 0; 4; 6]%Z.
Proof. vm_compute. reflexivity. Qed.
