(* C07 — property theorems (carrier R).  Statements only: each is closed by [exact] of a lemma proved
   in coq/C07/, followed by Print Assumptions.  Orientations are constrained only by being unit
   quaternions, trigonometric values only by c^2+s^2 = 1 (half-angle pairs). *)
From Coq Require Import Reals List QArith.
From Scenic Require Import C07.Carrier C07.Vec3 C07.Quat C07.Geometry C07.QuatProofs C07.GeometryProofs C07.Cases.
Import ListNotations.
Open Scope R_scope.

(* ---- orientation algebra: composition, inversion, rotation *)
Theorem C07_quat_assoc : forall a b c : Rquat, qmul Ro (qmul Ro a b) c = qmul Ro a (qmul Ro b c).
Proof. exact qmul_assoc. Qed.

Theorem C07_quat_inv : forall q : Rquat, unitq q ->
  qmul Ro q (qconj Ro q) = qid Ro /\ qmul Ro (qconj Ro q) q = qid Ro.
Proof. exact (fun q H => conj (qinv_r q H) (qinv_l q H)). Qed.

Theorem C07_rotate_compose : forall (q1 q2 : Rquat) (v : Rvec),
  rotate Ro (qmul Ro q1 q2) v = rotate Ro q1 (rotate Ro q2 v).
Proof. exact rotate_compose. Qed.

Theorem C07_rotate_isometry : forall (q : Rquat) (u v : Rvec), unitq q ->
  vnorm2 Ro (vsub Ro (rotate Ro q u) (rotate Ro q v)) = vnorm2 Ro (vsub Ro u v).
Proof. exact rotate_isometry. Qed.

Theorem C07_rotate_inverse : forall (q : Rquat) (v : Rvec), unitq q ->
  rotate Ro (qconj Ro q) (rotate Ro q v) = v.
Proof. exact rotate_inv_l. Qed.

(* heading 0 = +Y, positive = counter-clockwise *)
Theorem C07_heading_convention : forall theta : R,
  rotate Ro (from_heading Ro (cos (theta / 2), sin (theta / 2))) (ey Ro) = (- sin theta, cos theta, 0).
Proof. exact heading_convention. Qed.

Theorem C07_euler_unit : forall (parent : Rquat) (y p r : Rang),
  unitq parent -> unita y -> unita p -> unita r -> unitq (orientation_of Ro parent y p r).
Proof. exact orientation_of_unit. Qed.

(* ---- facing family: the stated global orientation whatever the parent orientation *)
Theorem C07_facing_global : forall parent target : Rquat, unitq parent ->
  facing_orientation Ro parent target = target.
Proof. exact facing_global. Qed.

Theorem C07_facing_directly_toward : forall (parent : Rquat) (pos target : Rvec) (th ph : Rang) (rho : R),
  unitq parent -> unita th ->
  sight_local Ro parent pos target false = vscale Ro rho (sph_dir Ro th ph) ->
  vscale Ro rho (forward Ro (orientation_of Ro parent th ph (a0 Ro))) = vsub Ro target pos.
Proof. exact facing_directly_toward_points. Qed.

Theorem C07_facing_directly_away : forall (parent : Rquat) (pos target : Rvec) (th ph : Rang) (rho : R),
  unitq parent -> unita th ->
  sight_local Ro parent pos target true = vscale Ro rho (sph_dir Ro th ph) ->
  vscale Ro rho (forward Ro (orientation_of Ro parent th ph (a0 Ro))) = vsub Ro pos target.
Proof. exact facing_directly_away_points. Qed.

Theorem C07_facing_toward_forward : forall (parent : Rquat) (th : Rang),
  forward Ro (orientation_of Ro parent th (a0 Ro) (a0 Ro)) = rotate Ro parent (- asin Ro th, acos Ro th, 0).
Proof. exact facing_toward_forward. Qed.

(* ---- directional specifiers *)
Theorem C07_directional_centre : forall d (xpos : Rvec) (xq : Rquat) (xdims sdims : Rvec) ct b, unitq xq ->
  to_local Ro xpos xq (fst (directional_obj Ro d xpos xq xdims sdims ct b)) =
    dir_offset Ro d sdims xdims (contact_offset Ro b ct) (by_components Ro d b)
  /\ snd (directional_obj Ro d xpos xq xdims sdims ct b) = xq.
Proof. exact directional_centre. Qed.

Theorem C07_directional_centre_op : forall d (xpos : Rvec) (xq : Rquat) (sdims : Rvec) b, unitq xq ->
  to_local Ro xpos xq (fst (directional_op Ro d xpos xq sdims b)) =
    dir_offset Ro d sdims (0, 0, 0) 0 (by_components Ro d b)
  /\ snd (directional_op Ro d xpos xq sdims b) = xq.
Proof. exact directional_centre_op. Qed.

Theorem C07_directional_centre_vec : forall d (p : Rvec) (selfq : Rquat) (sdims : Rvec) b, unitq selfq ->
  to_local Ro p selfq (directional_vec Ro d p selfq sdims b) =
    dir_offset Ro d sdims (0, 0, 0) 0 (by_components Ro d b).
Proof. exact directional_centre_vec. Qed.

(* gap between the two boxes along X's local axis = D (resp. contactTolerance/2, resp. the axis
   component of a vector D) when the orientations agree: every pair of corners is at least that far
   apart along the axis, and the facing faces are exactly that far apart *)
Theorem C07_directional_gap : forall d (xpos : Rvec) (xq : Rquat) (xdims sdims : Rvec) ct b,
  unitq xq -> 0 <= dir_dim d sdims -> 0 <= dir_dim d xdims ->
  let newpos := fst (directional_obj Ro d xpos xq xdims sdims ct b) in
  (forall s t, In s (corner_signs Ro) -> In t (corner_signs Ro) ->
     dir_gap_value Ro d b ct <=
     along Ro xpos xq d (box_point Ro newpos xq sdims s) - along Ro xpos xq d (box_point Ro xpos xq xdims t))
  /\ along Ro xpos xq d (box_point Ro newpos xq sdims (vneg Ro (dir_axis Ro d)))
     - along Ro xpos xq d (box_point Ro xpos xq xdims (dir_axis Ro d)) = dir_gap_value Ro d b ct.
Proof.
  exact (fun d xpos xq xdims sdims ct b H Hs Hx =>
    conj (fun s t Is It => directional_gap_corners d xpos xq xdims sdims ct b s t H Hs Hx Is It)
         (directional_gap_attained d xpos xq xdims sdims ct b H)).
Qed.

Theorem C07_directional_gap_needs_alignment_refuted :
  exists (xq nq : Rquat) (s : Rvec), unitq xq /\ unitq nq /\ In s (corner_signs Ro) /\
    let xpos := (0, 0, 0) in let xdims := (1, 1, 1) in let sdims := (2, 4, 2) in
    let newpos := fst (directional_obj Ro DRight xpos xq xdims sdims 0 (ByScalar 1)) in
    along Ro xpos xq DRight (box_point Ro newpos nq sdims s)
    - along Ro xpos xq DRight (box_point Ro xpos xq xdims (dir_axis Ro DRight)) < 1.
Proof. exact directional_gap_needs_alignment_refuted. Qed.

(* ---- frames of offset by / relative to / offset along / beyond *)
Theorem C07_offset_by_frame : forall (epos : Rvec) (eq : Rquat) (v : Rvec), unitq eq ->
  to_local Ro epos eq (fst (offset_by Ro epos eq v)) = v /\ snd (offset_by Ro epos eq v) = eq.
Proof. exact offset_by_frame. Qed.

Theorem C07_relative_to_frame : forall (ppos : Rvec) (pq : Rquat) (v : Rvec), unitq pq ->
  to_local Ro ppos pq (fst (relative_to_op Ro ppos pq v)) = v /\ snd (relative_to_op Ro ppos pq v) = pq.
Proof. exact relative_to_frame. Qed.

Theorem C07_offset_along_frame : forall (x : Rvec) (h : Rquat) (v : Rvec), unitq h ->
  to_local Ro x h (offset_along Ro x h v) = v.
Proof. exact offset_along_frame. Qed.

Theorem C07_relative_to_orient : forall (x y : Rquat) (v : Rvec),
  rotate Ro (relative_to_orient Ro x y) v = rotate Ro y (rotate Ro x v).
Proof. exact relative_to_orient_rotate. Qed.

Theorem C07_beyond_frame : forall (p q off : Rvec) (th ph : Rang) (rho : R),
  unita th -> unita ph -> vsub Ro p q = vscale Ro rho (sph_dir Ro th ph) ->
  to_local Ro p (from_euler Ro th ph (a0 Ro)) (beyond_pos Ro p off th ph) = off
  /\ vscale Ro rho (forward Ro (from_euler Ro th ph (a0 Ro))) = vsub Ro p q.
Proof. exact beyond_frame. Qed.

Theorem C07_beyond_scalar : forall (p q : Rvec) (d : R) (th ph : Rang) (rho : R),
  unita th -> vsub Ro p q = vscale Ro rho (sph_dir Ro th ph) ->
  vscale Ro rho (vsub Ro (beyond_pos Ro p (beyond_offset Ro (ByScalar d)) th ph) p) = vscale Ro d (vsub Ro p q).
Proof. exact beyond_scalar. Qed.

(* ---- scalar operators *)
Theorem C07_distance_sym : forall (n : R) (a b : Rvec), dist2 Ro a b = dist2 Ro b a /\
  distance_res Ro n a b = distance_res Ro n b a.
Proof. exact distance_sym. Qed.

Theorem C07_distance_rigid : forall (q : Rquat) (t a b : Rvec), unitq q ->
  dist2 Ro (offset_locally Ro t q a) (offset_locally Ro t q b) = dist2 Ro a b.
Proof. exact distance_rigid. Qed.

Theorem C07_relative_heading_antisym : forall (rh : Rang) (q1 q2 : Rquat),
  relheading_res Ro (aneg Ro rh) q2 q1 = - relheading_res Ro rh q1 q2 /\
  relheading_dot Ro (aneg Ro rh) q2 q1 = relheading_dot Ro rh q1 q2.
Proof. exact relative_heading_antisym. Qed.

Theorem C07_angle_of_heading : forall (a : Rang) (p : Rvec), unita a ->
  angle_res Ro a p (vadd Ro p (forward Ro (from_heading Ro a))) = 0 /\
  angle_dot Ro a p (vadd Ro p (forward Ro (from_heading Ro a))) = 1.
Proof. exact angle_of_heading. Qed.

Theorem C07_apparent_heading_spec : forall (pos b : Rvec) (h al : Rang) (rho : R), unita h -> unita al ->
  xy (vsub Ro pos b) = (rho * - asin Ro al, rho * acos Ro al) ->
  let ah := aadd Ro h (aneg Ro al) in
  appheading_res Ro ah pos (from_heading Ro h) b = 0 /\
  appheading_dot Ro ah pos (from_heading Ro h) b = rho.
Proof. exact apparent_heading_spec. Qed.

(* one Print Assumptions over the tuple of all property theorems (each traversal of the Reals library is
   slow; the union of axioms is what the evidence records) *)
Definition C07_all := (C07_quat_assoc,
  C07_quat_inv,
  C07_rotate_compose,
  C07_rotate_isometry,
  C07_rotate_inverse,
  C07_heading_convention,
  C07_euler_unit,
  C07_facing_global,
  C07_facing_directly_toward,
  C07_facing_directly_away,
  C07_facing_toward_forward,
  C07_directional_centre,
  C07_directional_centre_op,
  C07_directional_centre_vec,
  C07_directional_gap,
  C07_directional_gap_needs_alignment_refuted,
  C07_offset_by_frame,
  C07_relative_to_frame,
  C07_offset_along_frame,
  C07_relative_to_orient,
  C07_beyond_frame,
  C07_beyond_scalar,
  C07_distance_sym,
  C07_distance_rigid,
  C07_relative_heading_antisym,
  C07_angle_of_heading,
  C07_apparent_heading_spec).
Print Assumptions C07_all.

(* ---- non-vacuity: the hypotheses are satisfiable (a 3-4-5 unit pair, a non-trivial unit quaternion) *)
Example C07_hyps_satisfiable :
  unita (3/5, 4/5) /\ unitq (1/2, 1/2, 1/2, 1/2) /\
  (exists (p q : Rvec) (th ph : Rang) (rho : R), unita th /\ unita ph /\ rho <> 0 /\
     vsub Ro p q = vscale Ro rho (sph_dir Ro th ph)).
Proof. exact hyps_satisfiable. Qed.

(* the same generic definitions at the carrier Q (what the correspondence check executes): the box of
   size 2x4x6 centred at (1,2,3) with the identity orientation has its `top front left` corner at (0,4,6) *)
Example C07_Q_instance_runs :
  firstn 7 (run_case 7 (map (fun z => inject_Z z)
     [1; 2; 3; 1; 0; 1; 0; 1; 0; 1; 0; 1; 0; 1; 0; 2; 4; 6; 10; 0; 0; 0; 1]%Z))
  = map (fun z => inject_Z z) [0; 0; 0; 1; 0; 4; 6]%Z.
Proof. vm_compute. reflexivity. Qed.
