(* C03 — property theorems.  Statements only: each is closed by [exact] of a lemma proved in
   coq/C03/SamplerProofs.v, followed by Print Assumptions. *)
From Coq Require Import QArith Qabs List Bool ZArith Arith.
From Scenic Require Import C16.RegionAlg C03.Sampler C03.SamplerProofs C03.Placement C03.PlacementProofs.
From Scenic Require C03.PolyChoice C01.ChoiceProofs.
(* the evaluators of the generated correspondence cases belong to this property's build closure *)
From Scenic Require C03.Cases.
Import ListNotations.
Open Scope Q_scope.

Section Generic.
  Variable mu : nat -> Q.
  Hypothesis mu_pos : forall a, 0 < mu a.

  (* exact laws of the three generic samplers (probability of returning atom a) *)
  Theorem C03_diff_law : forall A B a, NoDup A ->
    prob (diff_tree mu A B) a == if memb a A && negb (memb a B) then mu a / size mu A else 0.
  Proof. exact (diff_law mu). Qed.

  Theorem C03_union_law : forall regs a, (forall r, In r regs -> NoDup r /\ r <> []) -> regs <> [] ->
    prob (union_tree mu regs) a == if Nat.ltb 0 (count regs a) then mu a / total mu regs else 0.
  Proof. exact (union_law mu mu_pos). Qed.

  Theorem C03_inter_law : forall A B a, NoDup A -> NoDup B ->
    prob (inter_tree mu A B) a ==
    if memb a A && memb a B
    then mu a * (1 / size mu A + size mu (filter (fun b => negb (memb b B)) A) / size mu A * (1 / size mu B))
    else 0.
  Proof. exact (inter_law mu). Qed.

  (* gen_sampler_member: only atoms of the composed set are ever returned *)
  Theorem C03_gen_sampler_member_diff : forall A B a, NoDup A ->
    ~ prob (diff_tree mu A B) a == 0 -> memb a A = true /\ memb a B = false.
  Proof. exact (diff_member mu). Qed.
  Theorem C03_gen_sampler_member_union : forall regs a, (forall r, In r regs -> NoDup r /\ r <> []) -> regs <> [] ->
    ~ prob (union_tree mu regs) a == 0 -> exists r, In r regs /\ memb a r = true.
  Proof. exact (union_member mu mu_pos). Qed.
  Theorem C03_gen_sampler_member_inter : forall A B a, NoDup A -> NoDup B ->
    ~ prob (inter_tree mu A B) a == 0 -> memb a A = true /\ memb a B = true.
  Proof. exact (inter_member mu). Qed.

  (* gen_sampler_support: every atom of the composed set has positive probability *)
  Theorem C03_gen_sampler_support_diff : forall A B a, NoDup A -> memb a A = true -> memb a B = false ->
    0 < prob (diff_tree mu A B) a.
  Proof. exact (diff_support mu mu_pos). Qed.
  Theorem C03_gen_sampler_support_union : forall regs a r, (forall r, In r regs -> NoDup r /\ r <> []) ->
    In r regs -> memb a r = true -> 0 < prob (union_tree mu regs) a.
  Proof. exact (union_support mu mu_pos). Qed.
  Theorem C03_gen_sampler_support_inter : forall A B a, NoDup A -> NoDup B -> memb a A = true -> memb a B = true ->
    0 < prob (inter_tree mu A B) a.
  Proof. exact (inter_support mu mu_pos). Qed.

  (* gen_sampler_uniform: P(a) / P(a') = mu a / mu a' on the composed set, i.e.
     P(return a | accepted) = mu a / mu(result); for the union the measure is that of the UNION
     (mu a / sum of sizes for every atom, however many operands contain it) *)
  Theorem C03_gen_sampler_uniform_diff : forall A B a a', NoDup A ->
    memb a A = true -> memb a B = false -> memb a' A = true -> memb a' B = false ->
    prob (diff_tree mu A B) a * mu a' == prob (diff_tree mu A B) a' * mu a.
  Proof. exact (diff_uniform mu). Qed.
  Theorem C03_gen_sampler_uniform_union : forall regs a a' r r', (forall r, In r regs -> NoDup r /\ r <> []) ->
    In r regs -> memb a r = true -> In r' regs -> memb a' r' = true ->
    prob (union_tree mu regs) a * mu a' == prob (union_tree mu regs) a' * mu a.
  Proof. exact (union_uniform mu mu_pos). Qed.
  Theorem C03_gen_sampler_uniform_inter : forall A B a a', NoDup A -> NoDup B ->
    memb a A = true -> memb a B = true -> memb a' A = true -> memb a' B = true ->
    prob (inter_tree mu A B) a * mu a' == prob (inter_tree mu A B) a' * mu a.
  Proof. exact (inter_uniform mu). Qed.

  (* n-ary intersection (IntersectionRegion.genericSampler with any number of operands; the operands of minimal
     dimension [todo] are sampled in turn, every operand [all] must contain the point): exact law, membership,
     support, uniformity *)
  Theorem C03_inter_n_law : forall all todo a, (forall r, In r todo -> NoDup r /\ In r all) ->
    prob (inter_tree_n mu all todo) a == if inall all a then mu a * inter_w mu all todo else 0.
  Proof. exact (inter_n_law mu). Qed.
  Theorem C03_gen_sampler_member_inter_n : forall all todo a, (forall r, In r todo -> NoDup r /\ In r all) ->
    ~ prob (inter_tree_n mu all todo) a == 0 -> forall r, In r all -> memb a r = true.
  Proof. exact (inter_n_member mu). Qed.
  Theorem C03_gen_sampler_support_inter_n : forall all r rest a, (forall r', In r' (r :: rest) -> NoDup r' /\ In r' all) ->
    (forall r', In r' all -> memb a r' = true) -> 0 < prob (inter_tree_n mu all (r :: rest)) a.
  Proof. exact (inter_n_support mu mu_pos). Qed.
  Theorem C03_gen_sampler_uniform_inter_n : forall all todo a a', (forall r, In r todo -> NoDup r /\ In r all) ->
    (forall r, In r all -> memb a r = true) -> (forall r, In r all -> memb a' r = true) ->
    prob (inter_tree_n mu all todo) a * mu a' == prob (inter_tree_n mu all todo) a' * mu a.
  Proof. exact (inter_n_uniform mu). Qed.

  (* polygon sampler: triangle by cumulative areas, then bounding-box rejection (n rounds of the loop): every atom of
     triangle (B, T) has probability mu a / (area of the polygon) * (1 - q^n), q^n = mass still in the loop *)
  Theorem C03_retry_law : forall n B T a, NoDup B ->
    prob (retry_tree mu n B T) a == if memb a B && memb a T then mu a / size mu B * geom (miss mu B T) n else 0.
  Proof. exact (retry_law mu). Qed.
  Theorem C03_poly_law : forall n tris a, (forall bt, In bt tris -> NoDup (fst bt) /\ fst bt <> []) ->
    prob (poly_tree mu n tris) a ==
    sumf tris (fun bt => if memb a (tri_atoms (fst bt) (snd bt))
                         then mu a / tri_total mu tris * (1 - qpow (miss mu (fst bt) (snd bt)) n) else 0).
  Proof. exact (poly_law mu mu_pos). Qed.
End Generic.
Print Assumptions C03_union_law.
Print Assumptions C03_inter_n_law.
Print Assumptions C03_gen_sampler_support_inter_n.
Print Assumptions C03_poly_law.
Print Assumptions C03_gen_sampler_uniform_inter.

(* discrete regions *)
Theorem C03_ps_law : forall P a, NoDup P -> P <> [] ->
  prob (ps_tree P) a == if memb a P then 1 / qnat (length P) else 0.
Proof. exact ps_law. Qed.
Theorem C03_ps_inter_law : forall P O a, NoDup P ->
  prob (ps_inter_tree P O) a ==
  if memb a P && memb a O then 1 / qnat (length (filter (fun b => memb b O) P)) else 0.
Proof. exact ps_inter_law. Qed.
Theorem C03_ps_inter_member : forall P O a, NoDup P -> ~ prob (ps_inter_tree P O) a == 0 -> memb a P = true /\ memb a O = true.
Proof. exact ps_inter_member. Qed.
Theorem C03_ps_inter_support : forall P O a, NoDup P -> memb a P = true -> memb a O = true -> 0 < prob (ps_inter_tree P O) a.
Proof. exact ps_inter_support. Qed.
Theorem C03_ps_inter_uniform : forall P O a a', NoDup P -> memb a P = true -> memb a O = true -> memb a' P = true -> memb a' O = true ->
  prob (ps_inter_tree P O) a == prob (ps_inter_tree P O) a'.
Proof. exact ps_inter_uniform. Qed.
Theorem C03_ps_inter_reject : forall P O, prej (ps_inter_tree P O) == if existsb (fun b => memb b O) P then 0 else 1.
Proof. exact ps_inter_reject. Qed.
Print Assumptions C03_ps_inter_law.
Print Assumptions C03_ps_inter_support.

(* primitive samplers: membership for ALL draws u in [0,1] *)
Theorem C03_rect_sample_member : forall cx cy co si hw hl u1 u2,
  co * co + si * si == 1 -> 0 <= hw -> 0 <= hl -> 0 <= u1 <= 1 -> 0 <= u2 <= 1 ->
  let '(x, y) := rect_sample cx cy co si hw hl u1 u2 in rect_member cx cy co si hw hl x y = true.
Proof. exact rect_sample_member. Qed.
Theorem C03_disc_sample_member : forall c R r ct st u,
  0 <= u <= 1 -> sq r == sq R * u -> ct * ct + st * st == 1 ->
  disc_member c R (disc_sample c r ct st) = true.
Proof. exact disc_sample_member. Qed.
Theorem C03_sector_sample_member : forall c R r ct st u half u2,
  0 <= u <= 1 -> sq r == sq R * u -> ct * ct + st * st == 1 -> 0 <= half -> 0 <= u2 <= 1 ->
  sector_member c R half (uniform (- half) half u2) (disc_sample c r ct st) = true.
Proof. exact sector_sample_member. Qed.
Theorem C03_seg_sample_on_segment : forall x1 y1 x2 y2 w, 0 <= w <= 1 ->
  let '(x, y) := seg_sample x1 y1 x2 y2 w in
  (x - x1) * (y2 - y1) == (y - y1) * (x2 - x1) /\
  (x - x1) * (x - x2) + (y - y1) * (y - y2) <= 0.
Proof. exact seg_sample_on_segment. Qed.
Print Assumptions C03_sector_sample_member.

(* the radial law of triangular(0, R, R): {r <= rho} = {u <= rho^2 / R^2} *)
Theorem C03_disc_radial_law : forall R r u rho,
  0 < R -> 0 <= r -> 0 <= rho -> sq r == sq R * u -> (r <= rho <-> u <= sq rho / sq R).
Proof. exact disc_radial_law. Qed.

(* random.choices(cum_weights): index i exactly when cum[i-1] <= x < cum[i] *)
Theorem C03_bisect_spec : forall cum x i, bisect cum x = i ->
  (forall j c, (j < i)%nat -> nth_error cum j = Some c -> c <= x) /\
  (forall c, nth_error cum i = Some c -> x < c).
Proof. exact bisect_spec. Qed.
Print Assumptions C03_bisect_spec.

(* PolygonalRegion.uniformPointInner's triangle choice, on CPython's random.choices as modelled in C01 (binary bisect of
   u * total in itertools.accumulate(areas)): triangle i is chosen exactly for the draws u with u * total in
   [area_0 + .. + area_(i-1), .. + area_i) -- an interval of length area_i, so with probability area_i / total *)
Theorem C03_triangle_choice_interval : forall areas u, areas <> [] -> (forall a, In a areas -> 0 < a) -> 0 <= u -> u < 1 ->
  let i := PolyChoice.triangle_index areas u in
  (i < length areas)%nat /\
  PolyChoice.psum i areas <= u * ChoiceProofs.qsum areas /\ u * ChoiceProofs.qsum areas < PolyChoice.psum i areas + nth i areas 0.
Proof. exact PolyChoice.triangle_choice_interval. Qed.
Theorem C03_triangle_choice_unique : forall areas u j, areas <> [] -> (forall a, In a areas -> 0 < a) -> 0 <= u -> u < 1 ->
  (j < length areas)%nat -> PolyChoice.psum j areas <= u * ChoiceProofs.qsum areas ->
  u * ChoiceProofs.qsum areas < PolyChoice.psum j areas + nth j areas 0 -> PolyChoice.triangle_index areas u = j.
Proof. exact PolyChoice.triangle_choice_unique. Qed.
Print Assumptions C03_triangle_choice_interval.
Example C03_triangle_choice_example :
  PolyChoice.triangle_index [1; 3; 2] (1 # 2) = 1%nat /\ PolyChoice.triangle_index [1; 3; 2] (5 # 6) = 2%nat /\
  PolyChoice.triangle_index [1; 3; 2] (1 # 7) = 0%nat.
Proof. vm_compute. repeat split. Qed.

(* non-vacuity: two overlapping regions with unequal measures *)
(* (round 3) placement of mesh regions: centre (optional) -> scale -> rotate -> translate *)
Theorem C03_unplace_place : forall centre cc s M t v,
  cols_orthonormal M -> nonzero s -> peq (unplace centre cc s M t (place centre cc s M t v)) v.
Proof. exact unplace_place. Qed.
Theorem C03_placed_member : forall (mem : pt -> Prop) centre cc s M t v,
  (forall a b, peq a b -> mem a -> mem b) -> cols_orthonormal M -> nonzero s ->
  mem v -> placed mem centre cc s M t (place centre cc s M t v).
Proof. exact placed_member. Qed.
Theorem C03_place_centre_shift : forall cc s M t v,
  peq (place true cc s M t v) (psub (place false cc s M t v) (mulv M (pscale s cc))).
Proof. exact place_centre_shift. Qed.
Theorem C03_unplace_recentred : forall cc s M t v,
  cols_orthonormal M -> nonzero s -> peq (unplace false cc s M t (place true cc s M t v)) (psub v cc).
Proof. exact unplace_recentred. Qed.
Theorem C03_recentring_refuted : exists (mem : pt -> Prop) cc s M t v,
  rotation M /\ nonzero s /\ mem v /\
  placed mem false cc s M t (place false cc s M t v) /\ ~ placed mem false cc s M t (place true cc s M t v).
Proof. exact recentring_refuted. Qed.
Print Assumptions C03_unplace_place.
Print Assumptions C03_placed_member.
Print Assumptions C03_recentring_refuted.
(* non-vacuity: a genuine rotation (3-4-5 about z) with a non-uniform scale satisfies the hypotheses *)
Example C03_placement_example :
  let M := mkmat (3#5) (-4#5) 0 (4#5) (3#5) 0 0 0 1 in
  rotation M /\ nonzero (mkpt 2 3 (1#2)) /\
  peq (place true (mkpt 1 1 (1#2)) (mkpt 2 3 (1#2)) M (mkpt 10 0 (-1)) (mkpt 2 1 1)) (mkpt (56#5) (8#5) (-3#4)).
Proof. unfold rotation, cols_orthonormal, nonzero, peq. vm_compute. repeat split; try reflexivity; intro H; discriminate H. Qed.

Example C03_examples :
  let mu := fun a => match a with O => 1 | 1%nat => 2 | _ => 3 end in
  prob (union_tree mu [[0;1]; [1;2]]%nat) 1%nat == (2 # 8) /\
  prob (union_tree mu [[0;1]; [1;2]]%nat) 0%nat == (1 # 8) /\
  prej (union_tree mu [[0;1]; [1;2]]%nat) == (2 # 8) /\
  prob (inter_tree mu [0;1] [1;2])%nat 1%nat == (2 # 3) + (1 # 3) * (2 # 5) /\
  prob (diff_tree mu [0;1] [1;2])%nat 0%nat == (1 # 3) /\
  prob (ps_inter_tree [0;1;2] [1;2;5])%nat 2%nat == (1 # 2) /\
  (* three operands, the third one not sampled (higher dimension): atom 2 is the only common one *)
  prob (inter_tree_n mu [[0;1;2]; [1;2;3]; [2;3;4]] [[0;1;2]; [1;2;3]])%nat 2%nat == 3 * ((1 # 6) + (3 # 6) * (1 # 8)) /\
  prob (inter_tree_n mu [[0;1;2]; [1;2;3]; [2;3;4]] [[0;1;2]; [1;2;3]])%nat 1%nat == 0 /\
  (* a polygon of two triangles in bounding boxes twice / 1.5 times their size, two rounds of the rejection loop *)
  prob (poly_tree (fun _ : nat => 1%Q) 2 [([0;1;2;3], [0;1]); ([4;5;6], [4;5])])%nat 0%nat == (1 # 4) * (1 - (1 # 4)) /\
  prob (poly_tree (fun _ : nat => 1%Q) 2 [([0;1;2;3], [0;1]); ([4;5;6], [4;5])])%nat 4%nat == (1 # 4) * (1 - (1 # 9)).
Proof. vm_compute. repeat split. Qed.
