(* C14 — property theorems (statements only; proofs in coq/C14/SimStateProofs.v). *)
From Coq Require Import ZArith List Bool.
From Scenic Require Import C14.SimState C14.SimStateProofs.
Import ListNotations.
Open Scope Z_scope.

(* For EVERY history between the start of a simulation and its end -- assignments by behaviours,
   compose blocks and the simulator, overrides issued from any scenario of the tree or from a
   behaviour, sub-scenarios (nested or parallel siblings) starting and stopping in any order, objects
   created on the way, globals assigned by behaviours or rebound by requirement closures; the end being
   normal completion or an exception at any point (both are [Finish], and the history may stop
   anywhere) -- every object of the scene reads exactly what it read before, and the behaviours'
   global namespace is the one the scene was made with. *)
Theorem C14_scene_untouched : forall n ops v0 g0 gs, forallb (sim_op n) ops = true ->
  let s' := run fixed (Begin :: ops ++ [Finish]) (init v0 g0 gs) in
  (forall o p, (o < n)%nat -> orig s' o p = v0 o p) /\ ns s' = g0.
Proof. exact scene_untouched. Qed.
Print Assumptions C14_scene_untouched.

(* an object created during the run (new Object in a sub-scenario's setup block) reads, after the
   end, the values it was created with, whatever was assigned to it or overridden on it *)
Theorem C14_created_object_untouched : forall ops1 ops2 ob vals v0 g0 gs,
  forallb not_begin_finish ops1 = true -> forallb not_begin_finish ops2 = true ->
  forallb (not_create ob) ops2 = true ->
  forall p, orig (run fixed (Begin :: ops1 ++ Create ob vals :: ops2 ++ [Finish]) (init v0 g0 gs)) ob p = nth p vals 0.
Proof. exact created_object_untouched. Qed.
Print Assumptions C14_created_object_untouched.

(* whatever happened (any variant of the code, any history, any starting state), after the end the
   veneer is inactive, proxies are off, no scenario is running, the namespace is the saved original *)
Theorem C14_state_reset : forall V ops s,
  let s' := run V (ops ++ [Finish]) s in
  active s' = false /\ proxy s' = None /\ running s' = [] /\ ns s' = ns_orig s'.
Proof. exact state_reset. Qed.
Print Assumptions C14_state_reset.

(* the next simulation of the same scene starts with an empty override table *)
Theorem C14_fresh_tables : forall ops s,
  running (step fixed (run fixed (ops ++ [Finish]) s) Begin) = [{| sid := 0%nat; spar := 0%nat; stab := [] |}].
Proof. exact fresh_tables. Qed.
Print Assumptions C14_fresh_tables.

(* every override is undone when its scenario ends: scenario k starts; then ANY history follows
   (assignments, overrides by k and by any other scenario or behaviour, siblings / sub-scenarios
   starting and stopping in any order, created objects, globals) during which k keeps running; then k
   stops, by itself or because an ancestor is stopped.  Every property k has overridden then reads the
   value it had just before k FIRST overrode it. *)
Theorem C14_override_undone : forall k par seg s,
  table_of k (running s) = None ->
  forallb not_begin_finish seg = true -> forallb (not_start k) seg = true ->
  let s1 := step fixed s (Start k par) in
  let s2 := run fixed seg s1 in
  table_of k (running s2) <> None ->
  forall o p x, first_ov fixed k seg s1 o p = Some x -> read (step fixed s2 (Stop k)) o p = x.
Proof. exact override_undone. Qed.
Print Assumptions C14_override_undone.
Example C14_override_undone_nonvacuous :
  let seg := [Override 1 0 0 5; Start 2 0; Override 2 0 1 6; Start 3 1; Override 3 0 0 7; Override 0 1 1 8;
              Create 2 [1;2;3]; Write 0 0 9; Override 1 0 0 11; Stop 2; NsWrite 0 4] in
  let s := run fixed [Begin] (init v0 g0 gs) in
  let s1 := step fixed s (Start 1 0) in
  table_of 1 (running s) = None /\ forallb not_begin_finish seg = true /\ forallb (not_start 1) seg = true /\
  table_of 1 (running (run fixed seg s1)) <> None /\ first_ov fixed 1 seg s1 0%nat 0%nat = Some 1 /\
  read (run fixed seg s1) 0%nat 0%nat = 11.
Proof. exact override_undone_nonvacuous. Qed.

(* a requirement / record / terminate-when closure reads the scene's sample for every global it
   mentions, whatever happened to the namespace before (history independence of the rebinding) *)
Theorem C14_nsbind_reads_sample : forall V s l n,
  existsb (Nat.eqb n) l = true -> ns (step V s (NsBind l)) n = ns_samp s n.
Proof. exact nsbind_reads_sample. Qed.
Print Assumptions C14_nsbind_reads_sample.

(* ---- the faithful model of the CURRENT code violates "every override is undone when its scenario
   ends" for PARALLEL siblings overriding the same property (finding C14-sibling-overrides; replayed
   on the real code: `do A(), B()` with both overriding ego.foo, A ending first -> ego.foo reads A's
   overriding value after both have ended) *)
Theorem C14_siblings_refuted :
  read (run fixed [Begin; Start 1 0; Override 1 0 0 10; Start 2 0; Override 2 0 0 20; Stop 1; Stop 2] (init v0 g0 gs)) 0%nat 0%nat <> v0 0%nat 0%nat.
Proof. exact siblings_refuted. Qed.
Theorem C14_siblings_parent_refuted :
  read (run fixed [Begin; Start 3 0; Start 1 3; Override 1 0 0 10; Start 2 3; Override 2 0 0 20; Stop 3] (init v0 g0 gs)) 0%nat 0%nat <> v0 0%nat 0%nat.
Proof. exact siblings_parent_refuted. Qed.

(* ---- variants of the code that violate the property: F18 and F6 (repaired in round 1), a _stop that
   reverts its own table before its sub-scenarios', and a top-level override table that survives the
   simulation (finding C14-stale-top-overrides, replayed on the real code) *)
Theorem C14_old_finally_refuted :
  orig (run old_finally [Begin; Write 0 0 3; Start 1 0; Override 1 0 0 5; Finish] (init v0 g0 gs)) 0%nat 0%nat <> v0 0%nat 0%nat.
Proof. exact old_finally_refuted. Qed.
Theorem C14_old_override_refuted :
  read (run old_override [Begin; Start 1 0; Override 1 0 0 5; Override 1 0 1 20; Stop 1] (init v0 g0 gs)) 0%nat 1%nat <> v0 0%nat 1%nat.
Proof. exact old_override_refuted. Qed.
Theorem C14_own_first_refuted :
  read (run own_first [Begin; Start 1 0; Override 1 0 0 5; Start 2 1; Override 2 0 0 7; Stop 1] (init v0 g0 gs)) 0%nat 0%nat <> v0 0%nat 0%nat.
Proof. exact own_first_refuted. Qed.
Theorem C14_stale_refuted :
  read (run stale [Begin; Write 0 0 184; Override 0 0 0 5; Finish; Begin; Write 0 0 123; StopAll] (init v0 g0 gs)) 0%nat 0%nat <> 123.
Proof. exact stale_refuted. Qed.

(* non-vacuity: the repaired model on the same witnesses (and siblings stopping newest first) *)
Example C14_fixed_on_witnesses :
  orig (run fixed [Begin; Write 0 0 3; Start 1 0; Override 1 0 0 5; Finish] (init v0 g0 gs)) 0%nat 0%nat = v0 0%nat 0%nat /\
  read (run fixed [Begin; Start 1 0; Override 1 0 0 5; Override 1 0 1 20; Stop 1] (init v0 g0 gs)) 0%nat 1%nat = v0 0%nat 1%nat /\
  read (run fixed [Begin; Start 1 0; Override 1 0 0 5; Start 2 1; Override 2 0 0 7; Stop 1] (init v0 g0 gs)) 0%nat 0%nat = v0 0%nat 0%nat /\
  read (run fixed [Begin; Write 0 0 184; Override 0 0 0 5; Finish; Begin; Write 0 0 123; StopAll] (init v0 g0 gs)) 0%nat 0%nat = 123 /\
  read (run fixed [Begin; Start 1 0; Override 1 0 0 10; Start 2 0; Override 2 0 0 20; Stop 2; Stop 1] (init v0 g0 gs)) 0%nat 0%nat = v0 0%nat 0%nat.
Proof. exact fixed_on_witnesses. Qed.
