(* C14 — property theorems (statements only; proofs in coq/C14/SimStateProofs.v). *)
From Coq Require Import ZArith List Bool.
From Scenic Require Import C14.SimState C14.SimStateProofs.
Import ListNotations.
Open Scope Z_scope.

(* For EVERY history between the start of a simulation and its end -- assignments by behaviours,
   compose blocks and the simulator, overrides issued from any scenario of the tree or from a
   behaviour, sub-scenarios (nested or parallel siblings) starting and stopping in any order, objects
   created on the way, globals assigned by behaviours or rebound by requirement closures; the end being
   normal completion or an exception at any point (both are [Finish], and the history may stop
   anywhere) -- every object of the scene reads exactly what it read before, and the behaviours'
   global namespace is the one the scene was made with. *)
Theorem C14_scene_untouched : forall n ops v0 g0 gs, forallb (sim_op n) ops = true ->
  let s' := run fixed (Begin :: ops ++ [Finish]) (init v0 g0 gs) in
  (forall o p, (o < n)%nat -> orig s' o p = v0 o p) /\ ns s' = g0.
Proof. exact scene_untouched. Qed.
Print Assumptions C14_scene_untouched.

(* an object created during the run (new Object in a sub-scenario's setup block) reads, after the
   end, the values it was created with, whatever was assigned to it or overridden on it *)
Theorem C14_created_object_untouched : forall ops1 ops2 ob vals v0 g0 gs,
  forallb not_begin_finish ops1 = true -> forallb not_begin_finish ops2 = true ->
  forallb (not_create ob) ops2 = true ->
  forall p, orig (run fixed (Begin :: ops1 ++ Create ob vals :: ops2 ++ [Finish]) (init v0 g0 gs)) ob p = nth p vals 0.
Proof. exact created_object_untouched. Qed.
Print Assumptions C14_created_object_untouched.

(* whatever happened (any variant of the code, any history, any starting state), after the end the
   veneer is inactive, proxies are off, no scenario is running, the namespace is the saved original *)
Theorem C14_state_reset : forall V ops s,
  let s' := run V (ops ++ [Finish]) s in
  active s' = false /\ proxy s' = None /\ running s' = [] /\ ns s' = ns_orig s'.
Proof. exact state_reset. Qed.
Print Assumptions C14_state_reset.

(* the next simulation of the same scene starts with an empty override table *)
Theorem C14_fresh_tables : forall ops s,
  running (step fixed (run fixed (ops ++ [Finish]) s) Begin) = [{| sid := 0%nat; spar := 0%nat; stab := [] |}].
Proof. exact fresh_tables. Qed.
Print Assumptions C14_fresh_tables.

(* every override is undone when its scenario ends: scenario k starts; then ANY history follows
   (assignments, overrides by k and by any other scenario or behaviour, siblings / sub-scenarios
   starting and stopping in any order, created objects, globals) during which k keeps running; then k
   stops, by itself or because an ancestor is stopped.  Every property k has overridden then reads the
   value it had just before k FIRST overrode it. *)
Theorem C14_override_undone : forall k par seg s,
  table_of k (running s) = None ->
  forallb not_begin_finish seg = true -> forallb (not_start k) seg = true ->
  let s1 := step fixed s (Start k par) in
  let s2 := run fixed seg s1 in
  table_of k (running s2) <> None ->
  forall o p x, first_ov fixed k seg s1 o p = Some x -> read (step fixed s2 (Stop k)) o p = x.
Proof. exact override_undone. Qed.
Print Assumptions C14_override_undone.
Example C14_override_undone_nonvacuous :
  let seg := [Override 1 0 0 5; Start 2 0; Override 2 0 1 6; Start 3 1; Override 3 0 0 7; Override 0 1 1 8;
              Create 2 [1;2;3]; Write 0 0 9; Override 1 0 0 11; Stop 2; NsWrite 0 4] in
  let s := run fixed [Begin] (init v0 g0 gs) in
  let s1 := step fixed s (Start 1 0) in
  table_of 1 (running s) = None /\ forallb not_begin_finish seg = true /\ forallb (not_start 1) seg = true /\
  table_of 1 (running (run fixed seg s1)) <> None /\ first_ov fixed 1 seg s1 0%nat 0%nat = Some 1 /\
  read (run fixed seg s1) 0%nat 0%nat = 11.
Proof. exact override_undone_nonvacuous. Qed.

(* a requirement / record / terminate-when closure reads the scene's sample for every global it
   mentions, whatever happened to the namespace before (history independence of the rebinding) *)
Theorem C14_nsbind_reads_sample : forall V s l n,
  existsb (Nat.eqb n) l = true -> ns (step V s (NsBind l)) n = ns_samp s n.
Proof. exact nsbind_reads_sample. Qed.
Print Assumptions C14_nsbind_reads_sample.

(* ---- the faithful model of the CURRENT code violates "every override is undone when its scenario
   ends" for PARALLEL siblings overriding the same property (finding C14-sibling-overrides; replayed
   on the real code: `do A(), B()` with both overriding ego.foo, A ending first -> ego.foo reads A's
   overriding value after both have ended) *)
Theorem C14_siblings_refuted :
  read (run fixed [Begin; Start 1 0; Override 1 0 0 10; Start 2 0; Override 2 0 0 20; Stop 1; Stop 2] (init v0 g0 gs)) 0%nat 0%nat <> v0 0%nat 0%nat.
Proof. exact siblings_refuted. Qed.
Theorem C14_siblings_parent_refuted :
  read (run fixed [Begin; Start 3 0; Start 1 3; Override 1 0 0 10; Start 2 3; Override 2 0 0 20; Stop 3] (init v0 g0 gs)) 0%nat 0%nat <> v0 0%nat 0%nat.
Proof. exact siblings_parent_refuted. Qed.

(* ---- variants of the code that violate the property: F18 and F6 (repaired in round 1), a _stop that
   reverts its own table before its sub-scenarios', and a top-level override table that survives the
   simulation (finding C14-stale-top-overrides, replayed on the real code) *)
Theorem C14_old_finally_refuted :
  orig (run old_finally [Begin; Write 0 0 3; Start 1 0; Override 1 0 0 5; Finish] (init v0 g0 gs)) 0%nat 0%nat <> v0 0%nat 0%nat.
Proof. exact old_finally_refuted. Qed.
Theorem C14_old_override_refuted :
  read (run old_override [Begin; Start 1 0; Override 1 0 0 5; Override 1 0 1 20; Stop 1] (init v0 g0 gs)) 0%nat 1%nat <> v0 0%nat 1%nat.
Proof. exact old_override_refuted. Qed.
Theorem C14_own_first_refuted :
  read (run own_first [Begin; Start 1 0; Override 1 0 0 5; Start 2 1; Override 2 0 0 7; Stop 1] (init v0 g0 gs)) 0%nat 0%nat <> v0 0%nat 0%nat.
Proof. exact own_first_refuted. Qed.
Theorem C14_stale_refuted :
  read (run stale [Begin; Write 0 0 184; Override 0 0 0 5; Finish; Begin; Write 0 0 123; StopAll] (init v0 g0 gs)) 0%nat 0%nat <> 123.
Proof. exact stale_refuted. Qed.

(* non-vacuity: the repaired model on the same witnesses (and siblings stopping newest first) *)
Example C14_fixed_on_witnesses :
  orig (run fixed [Begin; Write 0 0 3; Start 1 0; Override 1 0 0 5; Finish] (init v0 g0 gs)) 0%nat 0%nat = v0 0%nat 0%nat /\
  read (run fixed [Begin; Start 1 0; Override 1 0 0 5; Override 1 0 1 20; Stop 1] (init v0 g0 gs)) 0%nat 1%nat = v0 0%nat 1%nat /\
  read (run fixed [Begin; Start 1 0; Override 1 0 0 5; Start 2 1; Override 2 0 0 7; Stop 1] (init v0 g0 gs)) 0%nat 0%nat = v0 0%nat 0%nat /\
  read (run fixed [Begin; Write 0 0 184; Override 0 0 0 5; Finish; Begin; Write 0 0 123; StopAll] (init v0 g0 gs)) 0%nat 0%nat = 123 /\
  read (run fixed [Begin; Start 1 0; Override 1 0 0 10; Start 2 0; Override 2 0 0 20; Stop 2; Stop 1] (init v0 g0 gs)) 0%nat 0%nat = v0 0%nat 0%nat.
Proof. exact fixed_on_witnesses. Qed.

From Coq Require Import QArith.
From Scenic Require Import C14.History C14.HistoryProofs.

(* ======== round 3: what one simulation / compilation leaves for the next one (coq/C14/History.v) ========
   A simulation's result is a function of (program, scene, options) only: for EVERY history h of earlier
   simulations made from the same compiled scenario (any scenes, timesteps, maxSteps, guard outcomes, sub-scenarios,
   top-level overrides) the next run gives the result it gives right after compilation.  Stated for the REPAIRED
   code [fixedH]; the current code (currentH: _isRunning left True by a failed delayed guard check, _subScenarios
   never reset) is refuted below, as are the seeded variants. *)
Theorem C14_run_independent_of_history : forall P h x,
  History.run_after fixedH P h x = History.run_from_initial fixedH P x.
Proof. exact run_independent_of_history. Qed.
Print Assumptions C14_run_independent_of_history.
(* the invariant behind it: whatever a run was, the state after its end equals the initial state on every
   field the next run reads before writing (_timeLimit, _delayingPreconditionCheck, _overrides, _subScenarios, _isRunning) *)
(* ... and so is every result of a whole session of simulations, of any length, after any history *)
Theorem C14_session_independent_of_history : forall P h xs,
  session fixedH P (History.after fixedH P h) xs = map (History.run_from_initial fixedH P) xs.
Proof. exact session_independent_of_history. Qed.
Print Assumptions C14_session_independent_of_history.
Theorem C14_session_order_irrelevant : forall P h1 h2 xs,
  session fixedH P (History.after fixedH P h1) xs = session fixedH P (History.after fixedH P h2) xs.
Proof. exact session_order_irrelevant. Qed.
Print Assumptions C14_session_order_irrelevant.
Theorem C14_finish_restores_read_fields : forall P s x,
  History.read_eq s (History.init P) -> History.read_eq (fst (History.run_one fixedH P s x)) (History.init P).
Proof. exact finish_restores_read_fields. Qed.
Print Assumptions C14_finish_restores_read_fields.
Theorem C14_result_reads_only : forall P s1 s2 x, History.read_eq s1 s2 ->
  snd (History.run_one fixedH P s1 x) = snd (History.run_one fixedH P s2 x).
Proof. exact result_reads_only. Qed.
Example C14_history_nonvacuous :
  r_time (run_after fixedH P2s [(sc0, mk 1 100 true [])] (sc0, mk (1#4) 100 true [])) = 8%nat /\
  r_time (run_after fixedH P2s [(sc0, mk (1#2) 100 true [])] (sc0, mk (1#2) 100 true [])) = 4%nat /\
  r_out (run_after fixedH Pnone [(sc0, mk 1 5 true [])] (sc0, mk 1 5 false [])) = OGuard /\
  r_out (run_after fixedH Pnone [(sc0, mk 1 5 false [])] (sc0, mk 1 5 true [])) = ORan /\
  r_stale_subs (run_after fixedH Pnone [(sc0, mk 1 5 true [1%nat])] (sc0, mk 1 5 true [])) = [].
Proof. exact fixed_on_history_witnesses. Qed.
(* a compilation's view of the .scenic modules it imports is a function of the compilation only *)
Theorem C14_compile_independent_of_history : forall h c, compile_after fixedH h c = compile_fresh fixedH c.
Proof. exact compile_independent_of_history. Qed.
Print Assumptions C14_compile_independent_of_history.
Example C14_compile_nonvacuous :
  compile_after fixedH [{| c_imports := [1%nat]; c_ok := false; c_param := 7%Z |}] {| c_imports := [1%nat]; c_ok := true; c_param := 3%Z |} = [(1%nat, 3%Z, true)].
Proof. exact compile_nonvacuous. Qed.
(* ---- the CURRENT code is history dependent (findings C14-delayed-precondition-running and F27, replayed on the real
   code by the harness: kind `history`, AssertionError after a top-level guard violation; /tmp/r3c12/t2.py) *)
Theorem C14_history_current_refuted : exists P h x, run_after currentH P h x <> run_from_initial currentH P x.
Proof. exact current_refuted. Qed.
Theorem C14_history_current_subs_refuted : exists P h x, run_after currentH P h x <> run_from_initial currentH P x.
Proof. exact current_refuted_subs. Qed.
(* ---- wrong variants, each with the history the seeded patch's demo / the harness replays *)
Theorem C14_limit_cached_refuted : exists P h x, run_after (set_V 1) P h x <> run_from_initial (set_V 1) P x.       (* seeded C14-3 *)
Proof. exact limit_cached_refuted. Qed.
Theorem C14_limit_in_place_refuted : exists P h x, run_after (set_V 0) P h x <> run_from_initial (set_V 0) P x.     (* seeded C12-3 *)
Proof. exact limit_in_place_refuted. Qed.
Theorem C14_delay_cleared_refuted : exists P h x, run_after (set_V 2) P h x <> run_from_initial (set_V 2) P x.      (* seeded C13-4 *)
Proof. exact delay_cleared_refuted. Qed.
Theorem C14_running_left_refuted : exists P h x, run_after (set_V 3) P h x <> run_from_initial (set_V 3) P x.       (* defect (a) *)
Proof. exact running_left_refuted. Qed.
Theorem C14_subs_kept_refuted : exists P h x, run_after (set_V 4) P h x <> run_from_initial (set_V 4) P x.          (* defect (b), F27 *)
Proof. exact subs_kept_refuted. Qed.
Theorem C14_overrides_kept_refuted : exists P h x, run_after (set_V 5) P h x <> run_from_initial (set_V 5) P x.     (* stale top-level table *)
Proof. exact overrides_kept_refuted. Qed.
Theorem C14_purge_on_success_refuted : exists h c, compile_after (set_V 6) h c <> compile_fresh (set_V 6) c.        (* seeded C14-4 *)
Proof. exact purge_on_success_refuted. Qed.
