(* C14 — property theorems (statements only; proofs in coq/C14/SimStateProofs.v). *)
From Coq Require Import ZArith List Bool.
From Scenic Require Import C14.SimState C14.SimStateProofs.
Import ListNotations.
Open Scope Z_scope.

(* For EVERY history of assignments, overrides and (nested) scenario starts/stops between the start
   of a simulation and its end -- normal completion or an exception at any point, both are [Finish] --
   the scene's objects read exactly what they read before. *)
Theorem C14_scene_untouched : forall ops v0, forallb sim_op ops = true ->
  orig (run fixed (Begin :: ops ++ [Finish]) (init v0)) = v0.
Proof. exact scene_untouched. Qed.
Print Assumptions C14_scene_untouched.

(* whatever happened, after the end the veneer is inactive, proxies are off, no scenario is running *)
Theorem C14_state_reset : forall V ops s,
  let s' := run V (ops ++ [Finish]) s in active s' = false /\ proxy s' = None /\ stack s' = [].
Proof. exact state_reset. Qed.
Print Assumptions C14_state_reset.

(* every override is undone when its scenario ends: each overridden property reads the value it had
   just before the scenario first overrode it (however many override statements touched the object);
   other properties keep what was last assigned; the scenario stack is restored *)
Theorem C14_override_undone : forall seg s, forallb seg_op seg = true ->
  let s1 := step fixed s Push in
  let s' := run fixed (Push :: seg ++ [Pop]) s in
  stack s' = stack s /\
  forall o p, read s' o p = match first_ov fixed seg s1 o p with
                           | Some x => x
                           | None => read (run fixed seg s1) o p end.
Proof. exact override_undone. Qed.
Print Assumptions C14_override_undone.

(* the code before the two repairs violated the property (F18, F6): kept as documentation *)
Theorem C14_old_finally_refuted :
  orig (run old_finally [Begin; Write 0 0 3; Push; Override 0 0 5; Finish] (init v0)) 0%nat 0%nat <> v0 0%nat 0%nat.
Proof. exact old_finally_refuted. Qed.
Theorem C14_old_override_refuted :
  read (run old_override [Begin; Push; Override 0 0 5; Override 0 1 20; Pop] (init v0)) 0%nat 1%nat <> v0 0%nat 1%nat.
Proof. exact old_override_refuted. Qed.

(* non-vacuity: the repaired model on the same witnesses *)
Example C14_fixed_on_witnesses :
  orig (run fixed [Begin; Write 0 0 3; Push; Override 0 0 5; Finish] (init v0)) 0%nat 0%nat = v0 0%nat 0%nat /\
  read (run fixed [Begin; Push; Override 0 0 5; Override 0 1 20; Pop] (init v0)) 0%nat 1%nat = v0 0%nat 1%nat.
Proof. exact fixed_on_witnesses. Qed.
