(* C09 — property theorems.  Statements only: each is closed by [exact] of a lemma proved in
   coq/C09/, followed by Print Assumptions. *)
From Coq Require Import ZArith NArith List Bool.
From Scenic Require Import C09.PyRewrite C09.PyRewriteProofs.
Import ListNotations.
Open Scope N_scope.

(* the compiler (followed by ast.fix_missing_locations) performs exactly the documented rewriting, in every
   context (top level, behavior with any set of locals, compose block) *)
Theorem C09_compile_py_is_rewrite : forall c t t' cur,
  ctx_ok c = true -> wf t = true -> compile_py c t = OK t' -> fix_missing cur t' = rewrite_doc c t.
Proof. exact compile_py_is_rewrite. Qed.
Print Assumptions C09_compile_py_is_rewrite.

(* on a Python tree (no Scenic node) the compiler never fails internally: a tree or a located syntax error *)
Theorem C09_compile_py_total : forall c t, ctx_ok c = true -> wf t = true -> compile_py c t <> Crash.
Proof. exact compile_py_total. Qed.
Print Assumptions C09_compile_py_total.

(* ... it succeeds exactly on the programs the documentation does not refuse ... *)
Theorem C09_compile_py_accepts_iff : forall c t, ctx_ok c = true -> wf t = true ->
  ((exists t', compile_py c t = OK t') <-> rejects c t = false).
Proof. exact compile_py_accepts_iff. Qed.
Print Assumptions C09_compile_py_accepts_iff.

(* ... and a syntax error carries the location of a node of the source *)
Theorem C09_compile_py_error_located : forall c t e, ctx_ok c = true -> wf t = true ->
  compile_py c t = Err e -> rejects c t = true /\ In (err_loc e) (locs t).
Proof. exact compile_py_error_located. Qed.
Print Assumptions C09_compile_py_error_located.

(* locations: the compiled tree is fully located, every source node that is kept or replaced passes its own
   location to what stands in its place, and no location is invented *)
Theorem C09_locations_preserved : forall c t t' cur,
  ctx_ok c = true -> wf t = true -> compile_py c t = OK t' ->
  let out := fix_missing cur t' in
  no_missing out = true
  /\ (forall k li ch, t = Node k li ch -> exists k' ch', out = Node k' li ch')
  /\ (forall l, In l (locs out) -> In l (locs t)).
Proof. exact locations_preserved. Qed.
Print Assumptions C09_locations_preserved.

Theorem C09_rewrite_locs_incl : forall c t l, In l (locs (rewrite_doc c t)) -> In l (locs t).
Proof. exact rewrite_locs_incl. Qed.
Print Assumptions C09_rewrite_locs_incl.

(* non-vacuity: `ego` in load position becomes `ego()`, `str(x)` becomes `_toStrScenic(x)`, a class without
   bases gets Object and the property table; `for ego in xs` is refused with the location of the name *)
Example C09_examples :
  let l1 := Loc 3 4 3 7 in let l2 := Loc 3 0 3 9 in
  let name a cx li := Node K_Name li [Atom a; cx] in
  compile_module top_ctx (name A_ego load (Located l1)) = OK (accessor_call (Located l1) A_ego)
  /\ compile_module top_ctx (Node K_Call (Located l2) [name A_str load (Located l1); Lst [name 100 load (Located l1)]; Lst []])
     = OK (Node K_Call (Located l2) [name A_toStr load (Located l1); Lst [name 100 load (Located l1)]; Lst []])
  /\ compile_module top_ctx (Node K_ClassDef (Located l2) [Atom 100; Lst []; Lst []; Lst []; Lst []; Lst []])
     = OK (Node K_ClassDef (Located l2) [Atom 100; Lst [name A_Object load (Located l2)]; Lst [];
                                          Lst [props_assign_at (Located l2)]; Lst []; Lst []])
  /\ compile_py top_ctx (name A_ego store (Located l1)) = Err (EStoreTracked l1)
  /\ wf (Node K_Call (Located l2) [name A_str load (Located l1); Lst [name 100 load (Located l1)]; Lst []]) = true
  /\ ctx_ok top_ctx = true.
Proof. vm_compute. repeat split; reflexivity. Qed.
