(* C09 — property theorems.  Statements only: each is closed by [exact] of a lemma proved in
   coq/C09/, followed by Print Assumptions. *)
From Coq Require Import ZArith NArith List Bool.
From Scenic Require Import C09.PyRewrite C09.PyRewriteProofs.
Import ListNotations.
Open Scope N_scope.

(* the compiler (followed by ast.fix_missing_locations) performs exactly the documented rewriting, in every
   context (top level, behavior with any set of locals, compose block) *)
Theorem C09_compile_py_is_rewrite : forall c t t' cur,
  ctx_ok c = true -> wf t = true -> compile_py c t = OK t' -> fix_missing cur t' = rewrite_doc c t.
Proof. exact compile_py_is_rewrite. Qed.
Print Assumptions C09_compile_py_is_rewrite.

(* on a Python tree (no Scenic node) the compiler never fails internally: a tree or a located syntax error *)
Theorem C09_compile_py_total : forall c t, ctx_ok c = true -> wf t = true -> compile_py c t <> Crash.
Proof. exact compile_py_total. Qed.
Print Assumptions C09_compile_py_total.

(* ... it succeeds exactly on the programs the documentation does not refuse ... *)
Theorem C09_compile_py_accepts_iff : forall c t, ctx_ok c = true -> wf t = true ->
  ((exists t', compile_py c t = OK t') <-> rejects c t = false).
Proof. exact compile_py_accepts_iff. Qed.
Print Assumptions C09_compile_py_accepts_iff.

(* ... and a syntax error carries the location of a node of the source *)
Theorem C09_compile_py_error_located : forall c t e, ctx_ok c = true -> wf t = true ->
  compile_py c t = Err e -> rejects c t = true /\ In (err_loc e) (locs t).
Proof. exact compile_py_error_located. Qed.
Print Assumptions C09_compile_py_error_located.

(* locations: the compiled tree is fully located, every source node that is kept or replaced passes its own
   location to what stands in its place, and no location is invented *)
Theorem C09_locations_preserved : forall c t t' cur,
  ctx_ok c = true -> wf t = true -> compile_py c t = OK t' ->
  let out := fix_missing cur t' in
  no_missing out = true
  /\ (forall k li ch, t = Node k li ch -> exists k' ch', out = Node k' li ch')
  /\ (forall l, In l (locs out) -> In l (locs t)).
Proof. exact locations_preserved. Qed.
Print Assumptions C09_locations_preserved.

Theorem C09_rewrite_locs_incl : forall c t l, In l (locs (rewrite_doc c t)) -> In l (locs t).
Proof. exact rewrite_locs_incl. Qed.
Print Assumptions C09_rewrite_locs_incl.

(* non-vacuity: `ego` in load position becomes `ego()`, `str(x)` becomes `_toStrScenic(x)`, a class without
   bases gets Object and the property table; `for ego in xs` is refused with the location of the name *)
Example C09_examples :
  let l1 := Loc 3 4 3 7 in let l2 := Loc 3 0 3 9 in
  let name a cx li := Node K_Name li [Atom a; cx] in
  compile_module top_ctx (name A_ego load (Located l1)) = OK (accessor_call (Located l1) A_ego)
  /\ compile_module top_ctx (Node K_Call (Located l2) [name A_str load (Located l1); Lst [name 100 load (Located l1)]; Lst []])
     = OK (Node K_Call (Located l2) [name A_toStr load (Located l1); Lst [name 100 load (Located l1)]; Lst []])
  /\ compile_module top_ctx (Node K_ClassDef (Located l2) [Atom 100; Lst []; Lst []; Lst []; Lst []; Lst []])
     = OK (Node K_ClassDef (Located l2) [Atom 100; Lst [name A_Object load (Located l2)]; Lst [];
                                          Lst [props_assign_at (Located l2)]; Lst []; Lst []])
  /\ compile_py top_ctx (name A_ego store (Located l1)) = Err (EStoreTracked l1)
  /\ wf (Node K_Call (Located l2) [name A_str load (Located l1); Lst [name 100 load (Located l1)]; Lst []]) = true
  /\ ctx_ok top_ctx = true.
Proof. vm_compute. repeat split; reflexivity. Qed.

(* ------------------------------------------------------------------------------------------ round 2: the PEG layer *)
From Scenic Require Import C10.PEG C09.Peg C09.PegProofs.

(* core PEG semantics = fuel-indexed deterministic interpreter `peglr` (ordered choice, greedy possessive repetition,
   lookaheads, precise cut, pegen's memoised left recursion for the leader rules LR).
   requires_kw analysis: an expression flagged by the analysis cannot succeed on a token stream free of the keywords K -
   in particular every alternative Scenic adds in front of / behind a Python rule, each of which needs a Scenic keyword *)
Theorem C09_requires_kw_sound : forall G K tbl LR e s,
  kw_consistent G K tbl = true -> requires_kw K tbl e = true -> kwfree K s = true ->
  forall fuel s', peglr fuel G LR e s <> Some (Some s').
Proof. exact requires_kw_sound_lr. Qed.
Print Assumptions C09_requires_kw_sound.

(* conservative extension (core PEG): if every Python rule is, in the Scenic grammar, the same rule with extra
   alternatives that all require a keyword of K (ext_grammar, decidable: evaluated by the kernel), then on a K-free
   token stream every terminating run of the Scenic grammar has exactly the result (failure, or success with the same
   remaining input) of the Python grammar *)
Theorem C09_conservative_extension : forall K tbl Gs Gp LR start s,
  ext_grammar K tbl Gs Gp = true -> kw_consistent Gs K tbl = true ->
  refs_defined Gp (PRule start) = true -> kwfree K s = true ->
  forall fuel r, peglr fuel Gs LR (PRule start) s = Some r -> exists fuel', peglr fuel' Gp LR (PRule start) s = Some r.
Proof. exact conservative_extension_rule. Qed.
Print Assumptions C09_conservative_extension.

Theorem C09_extension_agrees : forall K tbl Gs Gp LR es ep s,
  ext_grammar K tbl Gs Gp = true -> kw_consistent Gs K tbl = true ->
  ext_check K tbl es ep = true -> refs_defined Gp ep = true -> kwfree K s = true ->
  forall f1 f2 r1 r2, peglr f1 Gs LR es s = Some r1 -> peglr f2 Gp LR ep s = Some r2 -> r1 = r2.
Proof. exact ext_agree. Qed.
Print Assumptions C09_extension_agrees.

Theorem C09_peg_deterministic_in_fuel : forall n G LR e s r, peglr n G LR e s = Some r ->
  forall m, (n <= m)%nat -> peglr m G LR e s = Some r.
Proof. exact peglr_mono. Qed.
Print Assumptions C09_peg_deterministic_in_fuel.

Example C09_peg_examples :
  ext_grammar Ex.K Ex.tbl Ex.Gs Ex.Gp = true /\ kw_consistent Ex.Gs Ex.K Ex.tbl = true /\ kwfree Ex.K [Ex.NAME; Ex.EQ; Ex.NUMBER] = true.
Proof. vm_compute. repeat split; reflexivity. Qed.
