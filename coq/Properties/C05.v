(* C05 — property theorems.  Statements only: each is closed by [exact] of a lemma proved in
   coq/C05/, followed by Print Assumptions. *)
From Coq Require Import ZArith QArith Qabs List.
From Scenic Require Import C05.Expr C05.SupportProofs C05.NodeProofs C05.SimplifyProofs C05.CaptureProofs.
From Scenic Require Import C05.Vec C05.VecProofs C05.Pow.
Import ListNotations.
Open Scope Q_scope.

(* Every static bound reported for a random value contains every value it can take: for every DAG
   of the model (Range, DiscreteRange, TruncatedNormal, + - * / incl. reflected, neg, abs, max/min,
   multiplexers), every valuation of the random leaves that respects what the primitive samplers
   return ([adm]), if supportInterval answers (l, u) then l <= value <= u. *)
Theorem C05_support_sound : forall fixed s n iv x,
  adm fixed s n -> support fixed n = Some iv -> rq (eval_node fixed s n) = Some x -> in_iv iv x.
Proof. exact support_sound. Qed.
Print Assumptions C05_support_sound.

(* The interval rule of monotonicDistributionFunction is sound for monotone functions ... *)
Theorem C05_monotone_support_sound : forall f : list Q -> Q, monotone f ->
  forall (ivs : list (Q * Q)) (xs : list Q),
    Forall2 (fun iv x => fst iv <= x <= snd iv) ivs xs -> f (map fst ivs) <= f xs <= f (map snd ivs).
Proof. exact monotone_support_sound_gen. Qed.
Print Assumptions C05_monotone_support_sound.

(* ... but hypot (here: its square) is not monotone, and the rule is unsound for it (F8) *)
Theorem C05_hypot_monotone_refuted : ~ monotone hyp2.
Proof. exact hyp2_not_monotone. Qed.
Print Assumptions C05_hypot_monotone_refuted.

Theorem C05_hypot_support_asis_refuted :
  exists x, -3 <= x <= 1 /\
    ~ (fst (hypot_support_asis2 [(-3, 1); (0, 0)]) <= hyp2 [x; 0] <= snd (hypot_support_asis2 [(-3, 1); (0, 0)])).
Proof. exact hypot_asis_unsound. Qed.
Print Assumptions C05_hypot_support_asis_refuted.

(* the repaired support of hypot (fix-C05-hypot-support) is sound *)
Theorem C05_hypot_support_fixed_sound : forall (ss : list (Q * Q)) (xs : list Q),
  Forall2 (fun iv x => fst iv <= x <= snd iv) ss xs ->
  fst (hypot_support_fixed2 ss) <= hyp2 xs <= snd (hypot_support_fixed2 ss).
Proof. exact hypot_fixed_sound. Qed.
Print Assumptions C05_hypot_support_fixed_sound.

(* F10: abs / neg of a value without bounds — raises before the fix, (None, None) after *)
Theorem C05_absneg_support :
  support false (NUn Abs (NLeaf 0)) = None /\ support false (NUn Neg (NLeaf 0)) = None /\
  support true (NUn Abs (NLeaf 0)) = Some (None, None) /\ support true (NUn Neg (NLeaf 0)) = Some (None, None).
Proof. exact absneg_support_raises_asis. Qed.
Print Assumptions C05_absneg_support.

(* on two numbers OperatorDistribution.sampleGiven (special method, reflected fallback) is the operator *)
Theorem C05_op_sample_num : forall fixed o refl a b x y,
  vnum a = Some x -> vnum b = Some y ->
  op_sample fixed o refl a b = res_of (if refl then arith o y x else arith o x y).
Proof. exact op_sample_num. Qed.
Print Assumptions C05_op_sample_num.

(* CPython's operator protocol on two numbers is the arithmetic operator (int/float/bool mixes) *)
Theorem C05_py_binop_num : forall o a b x y,
  vnum a = Some x -> vnum b = Some y -> py_binop o a b = res_of (arith o x y).
Proof. exact py_binop_num. Qed.
Print Assumptions C05_py_binop_num.

(* the identity shortcuts x+0, 0+x, x-0, x*1, 1*x, x/1 return a value numerically equal to what Python
   computes, for every NUMBER x -- the value-type guard of makeOperatorHandler is the hypothesis *)
Theorem C05_simplify_sound : forall o refl v c x k,
  vnum v = Some x -> vnum c = Some k -> shortcut_cond o refl (toQ k) ->
  num_eq (if refl then py_binop o c v else py_binop o v c) x.
Proof. exact simplify_sound. Qed.
Print Assumptions C05_simplify_sound.

Theorem C05_pow1_sound : forall v x, vnum v = Some x -> num_eq (py_unop (PowN 1) v) x.
Proof. exact pow1_sound. Qed.
Print Assumptions C05_pow1_sound.

(* ... and the same shortcut for x // 1 (present before fix-C05-expressions) is refuted *)
Theorem C05_floordiv1_refuted :
  exists v x r x', vnum v = Some x /\ py_binop FloorDiv v (VS (SInt 1)) = ROk r /\ vnum r = Some x' /\
                   ~ toQ x' == toQ x.
Proof. exact floordiv1_refuted. Qed.
Print Assumptions C05_floordiv1_refuted.

(* (1,) + <random tuple>: Python concatenates; the unrepaired sampleGiven raises AttributeError; the
   repaired one agrees with Python *)
Theorem C05_seq_radd_refuted :
  let e := EBin Add (EConst (VTup [SInt 1])) (EMux 0 (ECons (EConst (VTup [SInt 2])) ENil)) in
  let s := fun _ : nat => VS (SInt 0) in
  eval_py s e = ROk (VTup [SInt 1; SInt 2]) /\
  eval_cap false s (capture (fun _ => false) true false e) = RErr AttrErr /\
  eval_cap true s (capture (fun _ => false) true false e) = ROk (VTup [SInt 1; SInt 2]).
Proof. exact seq_radd_refuted. Qed.
Print Assumptions C05_seq_radd_refuted.

(* non-vacuity *)
Example C05_examples :
  support true (NOp Mul false (NRange 0 (NConst (VS (SInt (-2)))) (NConst (VS (SInt 3)))) (NDRange 1 (NConst (VS (SInt (-1)))) (NConst (VS (SInt 4)))))
    = Some (Some (-8), Some 12) /\
  eval_py (fun _ => VS (SFloat (5 # 2))) (EBin FloorDiv (ERange 0 (EConst (VS (SInt 0))) (EConst (VS (SInt 3)))) (EConst (VS (SInt 1))))
    = ROk (VS (SFloat 2)).
Proof. vm_compute. split; reflexivity. Qed.

(* ---------------------------------------------------------------- end-to-end capture_eval (round 2)
   For EVERY expression tree of the numeric fragment (random leaves, Range / DiscreteRange with nested bounds,
   TruncatedNormal, numeric constants, neg / pos / abs / ** n, and + - * / // % with a random operand on either side
   or both) and EVERY valuation of the leaves by numbers: what Scenic evaluates at sampling time on the DAG captured
   at compile time -- constant folding, reflected operators for `const op random`, the identity shortcuts x+0, 0+x,
   x-0, x*1, 1*x, x/1, x**1 (whatever the static types say), compile-time errors of constant sub-expressions -- agrees
   with plain Python on the sampled leaves: both raise ZeroDivisionError or both return numerically equal numbers.
   Holds for the code before and after the seq-radd fix ([fixed]) and with or without the shortcuts ([simp]);
   [fdiv = false] is the code after a3d0fb76 (with the x//1 shortcut the statement is false: C05_floordiv1_refuted). *)
Theorem C05_capture_eval_num : forall (tau : nat -> bool) (simp fixed : bool) (s : valuation),
  (forall i, exists x, vnum (s i) = Some x) ->
  forall e, nexpr e ->
    scalar_cap (capture tau simp false e) /\
    sim (eval_cap fixed s (capture tau simp false e)) (eval_py s e).
Proof. exact capture_eval_num. Qed.
Print Assumptions C05_capture_eval_num.

(* the ingredients, each for all numbers: arithmetic respects numeric equality (int vs float representations),
   and sampleGiven's special-method dance equals Python's operator on agreeing operands *)
Theorem C05_arith_cong : forall o x y x' y',
  toQ x == toQ x' -> toQ y == toQ y' -> sim (res_of (arith o x y)) (res_of (arith o x' y')).
Proof. exact arith_cong. Qed.
Print Assumptions C05_arith_cong.
Theorem C05_op_sample_sim : forall fixed o (refl : bool) a b a' b', sim a a' -> sim b b' ->
  sim (strict2 (op_sample fixed o refl) a b)
      (if refl then strict2 (py_binop o) b' a' else strict2 (py_binop o) a' b').
Proof. exact op_sample_sim. Qed.
Print Assumptions C05_op_sample_sim.

(* the sign analysis of the quotient's support is needed: deciding the upper bound from the sign of the numerator's
   LOWER bound is unsound for numerators straddling zero (the real rule is covered by C05_support_sound) *)
Theorem C05_div_upper_by_lower_sign_refuted :
  exists l1 r1 l2 r2 x y, l1 <= x <= r1 /\ l2 <= y <= r2 /\ 0 < l2 /\
    ~ x / y <= (if qleb 0 l1 then r1 / l2 else r1 / r2).
Proof. exact div_upper_by_lower_sign_refuted. Qed.
Print Assumptions C05_div_upper_by_lower_sign_refuted.

(* non-vacuity: (0 + Range(-1,2)) / DiscreteRange(1,2) * 1 ** 1 is in the fragment; captured with two shortcuts *)
Example C05_capture_eval_example :
  let e := EUn (PowN 1) (EBin Mul (EBin Div (EBin Add (EConst (VS (SInt 0))) (ERange 0 (EConst (VS (SInt (-1)))) (EConst (VS (SInt 2)))))
                                         (EDRange 1 (EConst (VS (SInt 1))) (EConst (VS (SInt 2))))) (EConst (VS (SInt 1)))) in
  nexpr e /\
  capture (fun _ => true) true false e =
    CN (NOp Div false (NRange 0 (NConst (VS (SInt (-1)))) (NConst (VS (SInt 2)))) (NDRange 1 (NConst (VS (SInt 1))) (NConst (VS (SInt 2))))) /\
  eval_py (fun i => match i with O => VS (SFloat (3 # 2)) | _ => VS (SInt 2) end) e = ROk (VS (SFloat (3 # 4))).
Proof.
  split; [|split; reflexivity].
  repeat (first [apply NE_un | apply NE_bin | apply NE_range | apply NE_drange | eapply NE_const; reflexivity | apply NE_leaf]).
Qed.


(* ------------------------------------------------------------------ vectors (round 3) *)
(* The zero-vector identity shortcut of vectors.py (zeroIdentity on __add__ / __radd__ / __sub__; the guard is
   "all three coordinates == 0"): (i) the guard as coded holds exactly for the exact zero vector under an operator
   carrying the flag, (ii) whenever it fires the shortcut's result (the other operand itself) equals what plain Python
   computes, for EVERY vector v, (iii) conversely the identity v op c = v forces c to be the zero vector, so the
   shortcut may apply to nothing else. *)
Theorem C05_vec_simplify_sound : forall o v c,
  (zero_identity o && vzero_all c = true <->
     zero_identity o = true /\ vx c == 0 /\ vy c == 0 /\ vz c == 0) /\
  (zero_identity o && vzero_all c = true -> veq (vv o v c) v) /\
  (zero_identity o = true -> veq (vv o v c) v -> vzero_all c = true).
Proof. exact vec_simplify_sound. Qed.
Print Assumptions C05_vec_simplify_sound.

(* non-vacuity: the guard fires for Vector(0, 0, 0) under +, and not for Vector(0, 0, 5/2) *)
Example C05_vec_simplify_example :
  zero_identity OAdd && vzero_all (V3 0 0 0) = true /\ zero_identity OSub && vzero_all (V3 0 0 (5#2)) = false /\
  zero_identity ORSub && vzero_all (V3 0 0 0) = false.
Proof. repeat split. Qed.

(* a guard keyed on x and y only (seed C05-4) is unsound: witness c = (0, 0, 1) *)
Theorem C05_vec_simplify_xy_refuted :
  exists v c, vzero_xy c = true /\ ~ vz c == 0 /\
    ~ veq (vv OAdd v c) v /\ ~ veq (vv OSub v c) v /\ ~ veq (vv ORAdd v c) v.
Proof. exact vec_simplify_xy_refuted. Qed.
Print Assumptions C05_vec_simplify_xy_refuted.

(* reflected subtraction (other - self) has no identity at all: its flag must stay off *)
Theorem C05_vec_rsub_no_identity : forall c, exists v, ~ veq (vv ORSub v c) v.
Proof. exact vec_rsub_no_identity. Qed.
Print Assumptions C05_vec_rsub_no_identity.

(* preservesZero (rotatedBy) is sound; it would not be for subtraction (0 - v <> 0) *)
Theorem C05_vec_preserves_zero_sound : forall c s z, vzero_all z = true -> veq (vrot c s z) z.
Proof. exact vec_preserves_zero_sound. Qed.
Print Assumptions C05_vec_preserves_zero_sound.
Theorem C05_vec_sub_not_zero_preserving : exists z v, vzero_all z = true /\ ~ veq (vv OSub z v) z.
Proof. exact vec_sub_not_zero_preserving. Qed.
Print Assumptions C05_vec_sub_not_zero_preserving.

(* End to end for vector expressions (induction on the expression): for every tree over constant vectors, vectors with
   random coordinates, VectorDistribution leaves and other vector-valued distributions, built with + - (also with a
   constant tuple on either side: __radd__ / __rsub__), `relative to` / `offset by`, scalar * / on both sides and
   rotatedBy, every zero test zt that only accepts exact zero vectors (the code's: vzero_all), every valuation: the
   forest captured at compile time (helper of class Vector / handler of VectorDistribution / generic Distribution
   handler, constant folding, identity shortcuts) evaluates to plain vector arithmetic on the samples; a compile-time
   ZeroDivisionError happens only where Python raises it; the compile-time AttributeError exists only before the repair. *)
Theorem C05_vec_capture_eval : forall fixed zt sigma rho, zt_sound zt -> forall e,
  match vcap fixed zt e with
  | COk n => oveq (nev sigma rho n) (veval sigma rho e)
  | CZero => veval sigma rho e = None
  | CAttr => fixed = false
  end.
Proof. exact vec_capture_eval. Qed.
Print Assumptions C05_vec_capture_eval.

Theorem C05_vzero_all_sound : zt_sound vzero_all.
Proof. exact vzero_all_sound. Qed.

(* non-vacuity: ((0,0,0) - (P + Vector(0,0,0))) * 1 is captured as __rsub__ on P itself, times 1 *)
Example C05_vec_capture_example :
  vcap true vzero_all (EMul (ETL true (V3 0 0 0) (EVBin false (ED 0%nat) (EC (V3 0 0 0)))) (SC 1))
  = COk (NVS KOp OMul (NVV KOp ORSub (ND 0%nat) (NC (V3 0 0 0))) (SC 1)).
Proof. reflexivity. Qed.

(* with the x-y-only test the captured forest differs from Python (P + Vector(0,0,1) is captured as P) *)
Theorem C05_vec_capture_xy_refuted :
  exists e sigma rho n, vcap true vzero_xy e = COk n /\ ~ oveq (nev sigma rho n) (veval sigma rho e).
Proof. exact vec_capture_xy_refuted. Qed.
Print Assumptions C05_vec_capture_xy_refuted.

(* finding (round 3): as coded, a constant tuple next to a VectorDistribution raises AttributeError at compile time
   although plain Python evaluates; gone after the repair *)
Theorem C05_vec_handler_tuple_asis_refuted :
  exists e, vcap false vzero_all e = CAttr /\ forall sigma rho, veval sigma rho e <> None.
Proof. exact vec_handler_tuple_asis_refuted. Qed.
Print Assumptions C05_vec_handler_tuple_asis_refuted.
Theorem C05_vec_capture_fixed_no_attr : forall zt e, zt_sound zt -> vcap true zt e <> CAttr.
Proof. exact vec_capture_fixed_no_attr. Qed.
Print Assumptions C05_vec_capture_fixed_no_attr.

(* ------------------------------------------------------------------ reflected fallback, ** (round 3) *)
(* sampleGiven for __pow__ / __rpow__ on two numbers (exponent value a non-negative integer) is Python's ** *)
Theorem C05_pow_sample_num : forall refl a b x y, vnum a = Some x -> vnum b = Some y ->
  pow_sample false refl a b = if refl then py_pow b a else py_pow a b.
Proof. exact pow_sample_num. Qed.
Print Assumptions C05_pow_sample_num.

(* looking up the operator itself instead of its reverse in the fallback (seeds C05-3 / C01-4) is wrong for
   every non-commutative operator: witnesses 2 ** 3.0 and 7 op 2.0 *)
Theorem C05_reflected_fallback_mutant_refuted :
  (exists a b, pow_sample true false a b <> py_pow a b /\ pow_sample false false a b = py_pow a b) /\
  (forall o, In o [Sub; Div; FloorDiv; Mod] ->
     exists a b, op_sample_mut o false a b <> py_binop o a b /\ op_sample true o false a b = py_binop o a b).
Proof. exact reflected_fallback_mutant_refuted. Qed.
Print Assumptions C05_reflected_fallback_mutant_refuted.
