(* C04 — object overlap and containment tests agree with exact solid geometry: property theorems.
   Statements only; each is closed by [exact] of a lemma of coq/C04/. *)
From Coq Require Import QArith Qabs List Bool.
From Scenic Require Import C17.Vec C04.Polytope C04.Overlap C04.Nested C04.Planar.
Import ListNotations.
Open Scope Q_scope.

(* ---- each geometric shortcut is sound against exact geometry (squared distances, no sqrt) *)
Theorem C04_far_spheres_disjoint : forall (A B : vec -> Prop) c1 c2 R1 R2,
  0 <= R1 -> 0 <= R2 ->
  (forall p, A p -> in_ball c1 R1 p) -> (forall p, B p -> in_ball c2 R2 p) ->
  (R1 + R2) * (R1 + R2) < dist2 c1 c2 ->
  forall p, A p -> B p -> False.
Proof. exact far_spheres_disjoint. Qed.
Print Assumptions C04_far_spheres_disjoint.

Theorem C04_near_inballs_meet : forall (A B : vec -> Prop) p1 p2 r1 r2,
  0 <= r1 -> 0 <= r2 ->
  (forall p, in_ball p1 r1 p -> A p) -> (forall p, in_ball p2 r2 p -> B p) ->
  dist2 p1 p2 < (r1 + r2) * (r1 + r2) ->
  exists p, A p /\ B p.
Proof. exact near_inballs_meet. Qed.
Print Assumptions C04_near_inballs_meet.

Theorem C04_bbox_disjoint : forall (A B : vec -> Prop) lo1 hi1 lo2 hi2,
  (forall p, A p -> in_box lo1 hi1 p) -> (forall p, B p -> in_box lo2 hi2 p) ->
  boxes_overlap lo1 hi1 lo2 hi2 = false -> forall p, A p -> B p -> False.
Proof. exact bbox_disjoint. Qed.
Print Assumptions C04_bbox_disjoint.

(* a convex container (intersection of half-spaces) holding every vertex holds the whole hull *)
Theorem C04_convex_contains_hull : forall m H A, 0 <= m ->
  inside_halfspaces m H A = true -> forall p, in_hull A p -> in_halfspaces H p.
Proof. exact halfspaces_contain_hull. Qed.
Print Assumptions C04_convex_contains_hull.

(* ---- certificates used as ground truth by the correspondence are sound *)
Theorem C04_separates_sound : forall n d m A B,
  separates n d m A B = true -> forall p, in_hull A p -> in_hull B p -> False.
Proof. exact separates_sound. Qed.
Print Assumptions C04_separates_sound.

Theorem C04_common_point_sound : forall e la mu A B,
  common_point e la mu A B = true ->
  exists p q, in_hull A p /\ in_hull B q /\
    Qabs (vx p - vx q) <= e /\ Qabs (vy p - vy q) <= e /\ Qabs (vz p - vz q) <= e.
Proof. exact common_point_sound. Qed.
Print Assumptions C04_common_point_sound.

Theorem C04_vertex_outside_sound : forall m H A, 0 < m ->
  vertex_outside m H A = true -> exists a, In a A /\ ~ in_halfspaces H a.
Proof. exact vertex_outside_sound. Qed.
Print Assumptions C04_vertex_outside_sound.

(* ---- the cascades decide exact overlap / containment when the oracles are exact *)
Theorem C04_cascade_correct : forall (meets : Prop) (o : ioracle),
  (centre_far o = true -> ~ meets) ->
  (both_scaled o = true -> in_near o = true -> meets) ->
  (both_scaled o = true -> circ_far o = true -> ~ meets) ->
  (bbox_overlap o = false -> ~ meets) ->
  (surf_collide o = true -> meets) ->
  (a_convex o = true -> b_convex o = true -> surf_collide o = false -> ~ meets) ->
  (surf_collide o = false -> single_bodies o = true ->
     meets <-> a_has_b_point o = true \/ b_has_a_point o = true) ->
  (bool_nonempty o = true <-> meets) ->
  fst (intersects_vol o) = true <-> meets.
Proof. exact cascade_correct. Qed.
Print Assumptions C04_cascade_correct.

Theorem C04_cascade_agrees_with_last_pass : forall (meets : Prop) (o : ioracle),
  (centre_far o = true -> ~ meets) ->
  (both_scaled o = true -> in_near o = true -> meets) ->
  (both_scaled o = true -> circ_far o = true -> ~ meets) ->
  (bbox_overlap o = false -> ~ meets) ->
  (surf_collide o = true -> meets) ->
  (a_convex o = true -> b_convex o = true -> surf_collide o = false -> ~ meets) ->
  (surf_collide o = false -> single_bodies o = true ->
     meets <-> a_has_b_point o = true \/ b_has_a_point o = true) ->
  (bool_nonempty o = true <-> meets) ->
  fst (intersects_vol o) = bool_nonempty o.
Proof. exact cascade_agrees_with_last_pass. Qed.
Print Assumptions C04_cascade_agrees_with_last_pass.

Theorem C04_obj_cascade_correct : forall (meets : Prop) (o : objoracle),
  (both_planar_boxes o = true -> z_apart o = true -> ~ meets) ->
  (both_planar_boxes o = true -> z_apart o = false -> polys_intersect o = true <-> meets) ->
  (both_planar_boxes o = false -> fst (intersects_vol (vol o)) = true <-> meets) ->
  intersects_obj o = true <-> meets.
Proof. exact obj_cascade_correct. Qed.
Print Assumptions C04_obj_cascade_correct.

Theorem C04_contains_cascade_correct : forall (inside : Prop) (o : coracle),
  (c_bbox_overlap o = false -> ~ inside) ->
  (c_convex o = true -> c_bb_corners_in o = true -> inside) ->
  (c_convex o = true -> c_vertices_in o = true <-> inside) ->
  (c_have_obj_point o = true -> c_obj_point_in o = false -> ~ inside) ->
  (c_have_obj_point o = true -> c_obj_point_in o = true -> c_ball_fits o = true -> inside) ->
  (c_have_reg_point o = true -> c_too_far o = true -> ~ inside) ->
  (c_diff_empty o = true <-> inside) ->
  fst (contains_obj o) = true <-> inside.
Proof. exact contains_cascade_correct. Qed.
Print Assumptions C04_contains_cascade_correct.

Theorem C04_footprint_cascade_correct : forall (inside : Prop) (o : foracle),
  (f_poly_in o = true <-> inside) -> (f_hull_in o = true -> inside) ->
  contains_footprint o = true <-> inside.
Proof. exact footprint_cascade_correct. Qed.
Print Assumptions C04_footprint_cascade_correct.

(* ---- round 2: nested configurations *)
(* the strict-inside certificate: the whole closed e-neighbourhood (L-infinity) of hull A lies in the polytope H,
   so A is inside WITHOUT surface contact (the configurations in which only passes 4/5 of intersects can answer) *)
Theorem C04_inside_clear_sound : forall m e H A,
  inside_clear m e H A = true ->
  0 < e /\ forall p q, in_hull A p -> linf p q e -> in_halfspaces H q.
Proof. exact inside_clear_sound. Qed.
Print Assumptions C04_inside_clear_sound.

(* hull of points of hull B is inside hull B; hence a guest whose vertices lie in a convex piece of the host
   lies in it entirely and every point of the guest is a common point *)
Theorem C04_hull_mono : forall A B, (forall a, In a A -> in_hull B a) -> forall p, in_hull A p -> in_hull B p.
Proof. exact hull_mono. Qed.
Print Assumptions C04_hull_mono.

Theorem C04_nested_overlap : forall A B, (forall a, In a A -> in_hull B a) ->
  forall p, in_hull A p -> in_hull A p /\ in_hull B p.
Proof. exact nested_overlap. Qed.
Print Assumptions C04_nested_overlap.

(* the PASS 3 early exit taken when EITHER region is convex (instead of both) is wrong: an oracle valuation
   satisfying every hypothesis of C04_cascade_correct (a convex object strictly inside one arm of a non-convex
   one) is reported disjoint *)
Theorem C04_convex_or_exit_refuted : exists (meets : Prop) (o : ioracle),
  (centre_far o = true -> ~ meets) /\
  (both_scaled o = true -> in_near o = true -> meets) /\
  (both_scaled o = true -> circ_far o = true -> ~ meets) /\
  (bbox_overlap o = false -> ~ meets) /\
  (surf_collide o = true -> meets) /\
  (a_convex o = true -> b_convex o = true -> surf_collide o = false -> ~ meets) /\
  (surf_collide o = false -> single_bodies o = true ->
     (meets <-> a_has_b_point o = true \/ b_has_a_point o = true)) /\
  (bool_nonempty o = true <-> meets) /\
  meets /\ fst (intersects_vol_or o) = false /\ fst (intersects_vol o) = true.
Proof. exact convex_or_exit_refuted. Qed.
Print Assumptions C04_convex_or_exit_refuted.

(* ---- round 2: containsObject passes 3/4 with candidate points that may be random samples: for arbitrary point
   sets O (object) and R (region) and exact kernels, the verdict is correct for EVERY admissible choice of the
   candidate points (a point of O or none; a point of R or none), hence independent of the samples drawn *)
Theorem C04_contains_pts_correct :
  forall (O R : vec -> Prop) (reg_has : vec -> bool) (surf_dist obj_circ reg_circ : vec -> Q) (obj_far : vec -> bool)
         (bbox_ov convex corners_in verts_in diff_empty : bool),
  (forall x, reg_has x = true <-> R x) ->
  (forall x p, O p -> dist2 p x <= obj_circ x * obj_circ x) ->
  (forall x, 0 <= obj_circ x) ->
  (forall x p, R x -> dist2 p x < surf_dist x * surf_dist x -> R p) ->
  (forall y p, R p -> dist2 p y <= reg_circ y * reg_circ y) ->
  (forall y, obj_far y = true -> exists v, O v /\ reg_circ y * reg_circ y < dist2 v y) ->
  (bbox_ov = false -> ~ inside O R) ->
  (convex = true -> corners_in = true -> inside O R) ->
  (convex = true -> (verts_in = true <-> inside O R)) ->
  (diff_empty = true <-> inside O R) ->
  forall s r, admissible O R s r ->
  (contains_obj_pts reg_has surf_dist obj_circ obj_far bbox_ov convex corners_in verts_in diff_empty s r = true
   <-> inside O R).
Proof. exact contains_pts_correct. Qed.
Print Assumptions C04_contains_pts_correct.

Theorem C04_contains_pts_independent :
  forall (O R : vec -> Prop) (reg_has : vec -> bool) (surf_dist obj_circ reg_circ : vec -> Q) (obj_far : vec -> bool)
         (bbox_ov convex corners_in verts_in diff_empty : bool),
  (forall x, reg_has x = true <-> R x) ->
  (forall x p, O p -> dist2 p x <= obj_circ x * obj_circ x) ->
  (forall x, 0 <= obj_circ x) ->
  (forall x p, R x -> dist2 p x < surf_dist x * surf_dist x -> R p) ->
  (forall y p, R p -> dist2 p y <= reg_circ y * reg_circ y) ->
  (forall y, obj_far y = true -> exists v, O v /\ reg_circ y * reg_circ y < dist2 v y) ->
  (bbox_ov = false -> ~ inside O R) ->
  (convex = true -> corners_in = true -> inside O R) ->
  (convex = true -> (verts_in = true <-> inside O R)) ->
  (diff_empty = true <-> inside O R) ->
  forall s r s' r', admissible O R s r -> admissible O R s' r' ->
  contains_obj_pts reg_has surf_dist obj_circ obj_far bbox_ov convex corners_in verts_in diff_empty s r =
  contains_obj_pts reg_has surf_dist obj_circ obj_far bbox_ov convex corners_in verts_in diff_empty s' r'.
Proof. exact contains_pts_independent. Qed.
Print Assumptions C04_contains_pts_independent.

(* non-vacuity of the round-2 statements: a unit cube strictly inside the cube [-2,2]^3 with clearance 1/4 *)
Example C04_inside_clear_example :
  inside_clear 1 (1#4)
    [(V3 1 0 0, 2); (V3 (-1) 0 0, 2); (V3 0 1 0, 2); (V3 0 (-1) 0, 2); (V3 0 0 1, 2); (V3 0 0 (-1), 2)]
    [V3 0 0 0; V3 1 0 0; V3 0 1 0; V3 1 1 1] = true /\
  inside_clear 1 (1#4) [(V3 1 0 0, 2)] [V3 (3#2) 0 0] = false.
Proof. split; vm_compute; reflexivity. Qed.

(* non-vacuity: each exit of the cascade is reachable; the certificate checkers accept real certificates *)
Example C04_every_pass_reachable :
  snd (intersects_vol (IOr true false false false false false false false false false false false)) = IP1 /\
  snd (intersects_vol (IOr false true true false false false false false false false false false)) = IP2A_in /\
  snd (intersects_vol (IOr false true false true false false false false false false false false)) = IP2A_out /\
  snd (intersects_vol (IOr false false false false false false false false false false false false)) = IP2B /\
  snd (intersects_vol (IOr false true false false true true false false false false false false)) = IP3_hit /\
  snd (intersects_vol (IOr false true false false true false true true false false false false)) = IP3_convex /\
  snd (intersects_vol (IOr false true false false true false true false true true false false)) = IP4 /\
  snd (intersects_vol (IOr false true false false true false false false false false false true)) = IP5.
Proof. exact every_pass_reachable. Qed.

Example C04_certificates_example :
  separates (V3 1 0 0) 2 (1#2) [V3 0 0 0; V3 1 1 0] [V3 3 0 0; V3 4 1 1] = true /\
  common_point 0 [1#2; 1#2] [1#2; 1#2] [V3 0 0 0; V3 2 2 0] [V3 2 0 0; V3 0 2 0] = true.
Proof. split; vm_compute; reflexivity. Qed.

(* ================================================================== round 3 *)
(* ---- the z-interval test of the planar-box fast path as a function of the numbers: exact for upright prisms *)
Theorem C04_z_apart_iff_intervals_disjoint : forall za ha zb hb, 0 <= ha -> 0 <= hb ->
  (z_apart_num za ha zb hb = false <-> ivals_meet za ha zb hb).
Proof. exact z_apart_false_iff. Qed.
Print Assumptions C04_z_apart_iff_intervals_disjoint.

Theorem C04_planar_fast_path_correct : forall (FA FB : Q -> Q -> Prop) za ha zb hb polys, 0 <= ha -> 0 <= hb ->
  (polys = true <-> exists x y, FA x y /\ FB x y) ->
  (planar_fast za ha zb hb polys = true <-> prisms_meet FA FB za ha zb hb).
Proof. exact planar_fast_correct. Qed.
Print Assumptions C04_planar_fast_path_correct.

Theorem C04_z_apart_symmetric : forall za ha zb hb, z_apart_num za ha zb hb = z_apart_num zb hb za ha.
Proof. exact z_apart_symmetric. Qed.
Print Assumptions C04_z_apart_symmetric.

(* a quarter of the summed heights (seeded/C02-4): partially stacked boxes are declared apart *)
Theorem C04_z_apart_quarter_refuted : exists za ha zb hb, 0 <= ha /\ 0 <= hb /\
  ivals_meet za ha zb hb /\ z_apart_num za ha zb hb = false /\ z_apart_quarter za ha zb hb = true.
Proof. exact z_apart_quarter_refuted. Qed.
Print Assumptions C04_z_apart_quarter_refuted.

(* ---- approxBoundFootprint: over EVERY history of requests on one region, the slab handed out covers the request *)
Theorem C04_footprint_cache_history_covers : forall reqs st, cache_ok st -> Forall (fun r => 0 <= snd r) reqs ->
  Forall2 (fun s r => slab_covers s (fst r) (snd r)) (run_requests approx st reqs) reqs.
Proof. exact approx_history_covers. Qed.
Print Assumptions C04_footprint_cache_history_covers.

(* the same for EVERY padding rule that does not shrink the request (in particular 100 * height, branch fix-C04-footprint-slab-padding) *)
Theorem C04_footprint_cache_any_padding : forall padf, (forall c h, 0 <= h -> h <= padf c h) ->
  forall reqs st, cache_ok st -> Forall (fun r => 0 <= snd r) reqs ->
  Forall2 (fun s r => slab_covers s (fst r) (snd r)) (run_requests (approx_with padf padf) st reqs) reqs.
Proof. exact approx_gen_history_covers. Qed.
Print Assumptions C04_footprint_cache_any_padding.

(* recording the padded height while building the slab with the requested one (seeded/C04-3) breaks at the second request *)
Theorem C04_footprint_cache_seeded_refuted : exists reqs, Forall (fun r => 0 <= snd r) reqs /\
  ~ Forall2 (fun s r => slab_covers s (fst r) (snd r)) (run_requests approx_seeded None reqs) reqs.
Proof. exact approx_seeded_refuted. Qed.
Print Assumptions C04_footprint_cache_seeded_refuted.

Example C04_footprint_cache_example :
  run_requests approx None [(0, 3); (30, 3); (-20, 2)] = [Slab 0 (pad 0 3); Slab 0 (pad 0 3); Slab 0 (pad 0 3)].
Proof. exact approx_reuses_cache. Qed.
