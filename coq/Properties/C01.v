(* C01 — property theorems.  Statements only: each is closed by [exact] of a lemma proved in
   coq/C01/, followed by Print Assumptions. *)
From Coq Require Import QArith ZArith List Bool Permutation Qround.
From Scenic Require Import C01.Prob C01.ProbProofs C01.Sampler C01.Prior C01.SamplerProofs C01.RejectionProofs C01.ChoiceProofs C01.ReachProofs
  C01.WfProofs C01.Capture C01.CaptureProofs C01.RangeProofs C01.NumProofs.
Import ListNotations.
Open Scope Q_scope.

(* independent draws commute (the lemma everything else rests on) *)
Theorem C01_fubini : forall (A B : Type) (t1 : ptree A) (t2 : ptree B) (h : A -> B -> Q),
  expect (fun a => expect (fun b => h a b) t2) t1 == expect (fun b => expect (fun a => h a b) t1) t2.
Proof. exact @fubini. Qed.
Print Assumptions C01_fubini.

(* every needed random value is drawn at most once per scene ... *)
Theorem C01_sample_once : forall g deps,
  wf_dag g -> (forall d, In d deps -> (d < length g)%nat) -> NoDup (dfs_order g deps).
Proof. exact sample_once. Qed.
Print Assumptions C01_sample_once.

(* ... the memoised depth-first sampler being exactly "draw along dfs_order" *)
Theorem C01_sampler_draws_dfs : forall g deps,
  wf_dag g -> (forall d, In d deps -> (d < length g)%nat) ->
  teq (sample_all g deps) (draw_seq g (dfs_order g deps) (empty_memo g)).
Proof. exact sampler_draws_dfs. Qed.
Print Assumptions C01_sampler_draws_dfs.

(* any two operands-first orders over the same nodes give the same distribution *)
Theorem C01_schedule_irrelevant : forall g l1 l2 vis m,
  valid g vis l1 -> valid g vis l2 -> Permutation l1 l2 ->
  teq (draw_seq g l1 m) (draw_seq g l2 m).
Proof. exact schedule_irrelevant. Qed.
Print Assumptions C01_schedule_irrelevant.

(* sampler = prior, for every DAG in creation order and every dependency list (unconditional:
   the prior's needed set is proved equal to the set the sampler visits) *)
Theorem C01_needed_is_dfs : forall g deps,
  wf_dag g -> (forall d, In d deps -> (d < length g)%nat) -> same_set (needed g deps) (dfs_order g deps).
Proof. exact needed_is_dfs. Qed.
Print Assumptions C01_needed_is_dfs.

Theorem C01_sampler_is_prior : forall g deps,
  wf_dag g -> (forall d, In d deps -> (d < length g)%nat) ->
  forall f, mass f (sample_all g deps) == mass f (prior g deps).
Proof. exact sampler_mass_is_prior. Qed.
Print Assumptions C01_sampler_is_prior.

Theorem C01_order_irrelevant : forall g deps1 deps2,
  wf_dag g -> (forall d, In d deps1 -> (d < length g)%nat) -> (forall d, In d deps2 -> (d < length g)%nat) ->
  (forall d, In d deps1 <-> In d deps2) ->
  teq (sample_all g deps1) (sample_all g deps2).
Proof. exact deps_order_irrelevant. Qed.
Print Assumptions C01_order_irrelevant.

(* resample: same law given the same operand values, drawn independently *)
Theorem C01_resample_same_law : forall g i j m,
  kind (node_at g i) = kind (node_at g j) -> args (node_at g i) = args (node_at g j) ->
  draw g i m = draw g j m.
Proof. exact resample_same_law. Qed.
Print Assumptions C01_resample_same_law.

Theorem C01_resample_independent : forall g i j r m,
  i <> j -> ~ In j (args (node_at g i)) -> ~ In i (args (node_at g j)) ->
  teq (draw_seq g (i :: j :: r) m)
      (bind (draw g i m) (fun a => bind (draw g j m) (fun b => draw_seq g r (upd (upd m i a) j b)))).
Proof. exact resample_independent. Qed.
Print Assumptions C01_resample_independent.

(* exact law of the bounded rejection loop, every bound n *)
Theorem C01_retry_law : forall (A : Type) (t : ptree A) n k (h : A * nat -> Q),
  expect h (retry t n k) ==
  wsum (fun j => qpow (rejmass t) j * expect (fun a => h (a, (k + j)%nat)) t) (seq 0 n).
Proof. exact @retry_law. Qed.
Print Assumptions C01_retry_law.

Theorem C01_rejection_exact : forall g deps,
  wf_dag g -> (forall d, In d deps -> (d < length g)%nat) ->
  forall rs acts n j (f : memo -> bool), (j < n)%nat ->
  expect (fun x => ind (f (fst x) && Nat.eqb (snd x) (S j))) (retry (attempt g deps rs acts) n 1) ==
  joint g deps rs acts f * qpow (rejmass (attempt g deps rs acts)) j.
Proof. exact rejection_exact_u. Qed.
Print Assumptions C01_rejection_exact.

(* per-attempt rejection probability.  The well-formedness of the attempt's tree is no longer a
   hypothesis: it is proved for every DAG whose weighted nodes carry non-decreasing cumulative weights
   with a positive total ([good_dagb], computed on every exported DAG by the driver) *)
Theorem C01_rejection_probability : forall g deps,
  wf_dag g -> (forall d, In d deps -> (d < length g)%nat) -> good_dagb g = true ->
  forall rs acts, rejmass (attempt g deps rs acts) == 1 - accept g deps rs acts.
Proof. exact rejection_probability_good. Qed.
Print Assumptions C01_rejection_probability.

Theorem C01_generated_trees_wf : forall g deps rs n, good_dagb g = true -> wf_tree (generate_inner g deps rs n).
Proof. exact wf_generate_inner. Qed.
Print Assumptions C01_generated_trees_wf.

(* the generator either returns a scene or raises RejectionException: total probability 1 *)
Theorem C01_generate_total : forall g deps rs n, good_dagb g = true ->
  expect (fun _ => 1) (generate_inner g deps rs n) + rejmass (generate_inner g deps rs n) == 1.
Proof. exact generate_total. Qed.
Print Assumptions C01_generate_total.

(* P(a scene is returned within n attempts | enforcement pattern) = 1 - (1 - accept)^n *)
Theorem C01_gives_up_probability : forall g deps,
  wf_dag g -> (forall d, In d deps -> (d < length g)%nat) -> good_dagb g = true ->
  forall rs acts n,
  expect (fun _ => 1) (retry (attempt g deps rs acts) n 1) == 1 - qpow (1 - accept g deps rs acts) n.
Proof. exact gives_up_probability. Qed.
Print Assumptions C01_gives_up_probability.

(* P(f | a scene is returned) = prior(f | enforced requirements), whatever the bound *)
Theorem C01_returned_is_conditioned_prior : forall g deps,
  wf_dag g -> (forall d, In d deps -> (d < length g)%nat) ->
  forall rs acts n (f : memo -> bool),
  expect (fun x => ind (f (fst x))) (retry (attempt g deps rs acts) n 1) * accept g deps rs acts ==
  joint g deps rs acts f * expect (fun _ => 1) (retry (attempt g deps rs acts) n 1).
Proof. exact returned_is_conditioned_prior_u. Qed.
Print Assumptions C01_returned_is_conditioned_prior.

Theorem C01_retry_gives_up : forall (A : Type) (t : ptree A) n k,
  wf_tree t -> expect (fun _ => 1) (retry t n k) == 1 - qpow (rejmass t) n.
Proof. exact @retry_gives_up. Qed.
Print Assumptions C01_retry_gives_up.

(* soft requirements: independent enforcement, mixture of the conditioned loops *)
Theorem C01_generate_mixture : forall g deps rs n (h : memo * nat -> Q),
  expect h (generate_inner g deps rs n) ==
  wsum (fun acts => act_prob rs acts * expect h (retry (attempt g deps rs acts) n 1)) (all_acts (length rs)).
Proof. exact generate_mixture. Qed.
Print Assumptions C01_generate_mixture.

(* requirement capture (model of PendingRequirement.__init__/compile: save the bindings of the referenced
   names when the statement runs; the closure rebinds them in the shared, never restored namespace before
   evaluating): the requirement of  pre; require[p] c; post  is evaluated with every name standing for what
   it was bound to after `pre` -- for every `post` (rebinding any name), every sample, every state [r] of the
   run-time namespace (earlier closures' leftovers) *)
Theorem C01_requirement_capture : forall pre p c post e m r d,
  fst (closure (nth (count_reqs pre) (snd (run_stmts (pre ++ PRequire p c :: post) e)) d) m r) =
  nceval (fun x => bval m (lookup (env_after pre e) x)) c.
Proof. exact requirement_capture. Qed.
Print Assumptions C01_requirement_capture.

(* ... and the closures, run in order on the shared namespace, are exactly the checker of the sampler model
   (conditions over the nodes bound at the statement), which the rejection theorems above are about *)
Theorem C01_closures_are_model_reqs : forall ss e acts m r,
  check_closures (snd (run_stmts ss e)) acts m r = check (compile_reqs ss e) acts m.
Proof. exact closures_are_model_reqs. Qed.
Print Assumptions C01_closures_are_model_reqs.

(* weighted discrete choice: random.choices on cumulative weights returns index i with
   probability w_i / sum(w), and never an index outside the list *)
Theorem C01_weighted_prob : forall ws i, (i < length ws)%nat ->
  mass (fun z => Z.eqb z (Z.of_nat i)) (weighted_tree ws) == nth i ws 0 / qsum ws.
Proof. exact weighted_prob. Qed.
Print Assumptions C01_weighted_prob.

(* CPython's bisect on u*total: index i is returned exactly on [cum(i-1), cum(i)) *)
Theorem C01_choices_interval : forall cum u,
  sorted cum -> cum <> [] -> 0 <= u -> u * last cum 0 < last cum 0 ->
  let i := choices_index cum u in
  (i < length cum)%nat /\ u * last cum 0 < nth i cum 0 /\
  (forall j, (j < i)%nat -> nth j cum 0 <= u * last cum 0).
Proof. exact choices_interval. Qed.
Print Assumptions C01_choices_interval.

(* ---- round 3: DiscreteRange with arbitrary (rational, possibly random) endpoint values ---- *)
(* the integers a DiscreteRange(lo, hi) may yield are exactly those between the endpoints ... *)
Theorem C01_int_between : forall lo hi k,
  (lo <= inject_Z k /\ inject_Z k <= hi) <-> (Qceiling lo <= k <= Qfloor hi)%Z.
Proof. exact int_between. Qed.
Print Assumptions C01_int_between.
(* ... each with the same probability 1 / (number of such integers), nothing else is drawn *)
Theorem C01_ndrange_law : forall lo hi k,
  mass (fun v => Z.eqb v k) (ndrange_tree lo hi) ==
  if in_range lo hi k then 1 / inject_Z (Qfloor hi - Qceiling lo + 1) else 0.
Proof. exact ndrange_law. Qed.
Print Assumptions C01_ndrange_law.
Theorem C01_ndrange_members : forall lo hi,
  let l := zrange (Qceiling lo) (Z.to_nat (Qfloor hi - Qceiling lo + 1)) in
  NoDup l /\ (forall k, In k l <-> in_range lo hi k = true) /\
  ((Qceiling lo <= Qfloor hi)%Z -> Z.of_nat (length l) = (Qfloor hi - Qceiling lo + 1)%Z).
Proof. exact ndrange_members. Qed.
Print Assumptions C01_ndrange_members.
(* the attempt is rejected iff no integer lies between the endpoints *)
Theorem C01_ndrange_rejects : forall lo hi,
  (forall k, in_range lo hi k = false) -> ndrange_tree lo hi = Rej.
Proof. exact ndrange_rejects. Qed.
Print Assumptions C01_ndrange_rejects.
Theorem C01_ndrange_accepts : forall lo hi k,
  in_range lo hi k = true -> rejmass (ndrange_tree lo hi) == 0.
Proof. exact ndrange_accepts. Qed.
Print Assumptions C01_ndrange_accepts.
Theorem C01_randint_prob : forall lo hi k, (lo <= hi)%Z ->
  mass (fun v => Z.eqb v k) (randint_tree lo hi) ==
  if ((lo <=? k) && (k <=? hi))%Z then 1 / inject_Z (hi - lo + 1) else 0.
Proof. exact randint_prob. Qed.
Print Assumptions C01_randint_prob.
(* the sampler model's DiscreteRange node is that law, for int and float endpoint values alike *)
Theorem C01_sem_drange : forall a b lo hi, num a = Some lo -> num b = Some hi ->
  sem KDRange [Some a; Some b] = bind (ndrange_tree lo hi) (fun z => Ret (VZ z)).
Proof. exact sem_drange. Qed.
Print Assumptions C01_sem_drange.
(* rounding the low endpoint down instead of up admits an integer outside the range (seeded/C01-3, C19-3) *)
Theorem C01_ndrange_floor_low_refuted :
  exists lo hi k, in_range lo hi k = false /\ (Qfloor lo <= k <= Qfloor hi)%Z.
Proof. exact ndrange_floor_low_refuted. Qed.
Print Assumptions C01_ndrange_floor_low_refuted.

(* weighted DiscreteRange(lo, lo+n-1, weights): lo + i with probability w_i / sum(w), nothing outside *)
Theorem C01_wrange_prob : forall lo ws i, (i < length ws)%nat ->
  mass (fun z => Z.eqb z (lo + Z.of_nat i)) (wrange_tree lo ws) == nth i ws 0 / qsum ws.
Proof. exact wrange_prob. Qed.
Print Assumptions C01_wrange_prob.
Theorem C01_wrange_prob_out : forall lo ws z, (z < lo \/ lo + Z.of_nat (length ws) <= z)%Z ->
  mass (fun x => Z.eqb x z) (wrange_tree lo ws) == 0.
Proof. exact wrange_prob_out. Qed.
Print Assumptions C01_wrange_prob_out.
Theorem C01_sem_wrange : forall lo ws,
  teq (sem (KDRangeW lo (accumulate 0 ws)) []) (bind (wrange_tree lo ws) (fun z => Ret (VZ z))).
Proof. exact sem_wrange. Qed.
Print Assumptions C01_sem_wrange.

(* ---- round 3: int/float operands.  Reflected operators compute the operator on exchanged operands;
   exchanging the operands of -, /, //, %, **, divmod is observable (seeded/C01-4); the rational path
   agrees with the integer one *)
Theorem C01_reflected_is_swapped : forall o o' x y,
  unreflect o = Some o' -> apply_op o [x; y] = apply_op o' [y; x].
Proof. exact reflected_is_swapped. Qed.
Print Assumptions C01_reflected_is_swapped.
Theorem C01_swapped_operands_observable :
  Forall (fun o => exists x y, apply_op o [x; y] <> apply_op o [y; x] /\
                               apply_op o [x; y] <> VErr /\ apply_op o [y; x] <> VErr)
         [OSub; ODiv; OFloorDiv; OMod; OPow; ODivmod].
Proof. exact swapped_operands_observable. Qed.
Print Assumptions C01_swapped_operands_observable.
Theorem C01_num_op_int_floordiv : forall a b, b <> 0%Z -> num_op OFloorDiv (VZ a) (VZ b) = VZ (a / b).
Proof. exact num_op_int_floordiv. Qed.
Print Assumptions C01_num_op_int_floordiv.
Theorem C01_num_op_int_sub : forall a b, num_op OSub (VZ a) (VZ b) = VZ (a - b).
Proof. exact num_op_int_sub. Qed.
Print Assumptions C01_num_op_int_sub.

(* non-vacuity: DiscreteRange(1/2, 5/2) yields 1 and 2 with probability 1/2 each and never 0 or 3;
   DiscreteRange(1/4, 3/4) is rejected; the weighted range 3..5 with weights 1,2,1 yields 4 w.p. 1/2;
   7.5 - 2 through __rsub__ *)
Example C01_example_ranges :
  Qred (mass (fun v => Z.eqb v 1) (ndrange_tree (1#2) (5#2))) = 1#2 /\
  Qred (mass (fun v => Z.eqb v 0) (ndrange_tree (1#2) (5#2))) = 0 /\
  Qred (mass (fun v => Z.eqb v 3) (ndrange_tree (1#2) (5#2))) = 0 /\
  ndrange_tree (1#4) (3#4) = Rej /\
  Qred (mass (fun v => Z.eqb v 4) (wrange_tree 3 [1; 2; 1])) = 1#2 /\
  Qred (mass (fun v => Z.eqb v 1) (wrange_tree 3 [1; 2; 1])) = 0 /\
  apply_op ORSub [VZ 2; VQ (15#2)] = VQ (11#2) /\ apply_op ODiv [VZ 3; VZ 2] = VQ (3#2) /\
  apply_op ODivmod [VZ 7; VQ (3#2)] = VT 0%N [VZ 4; VZ 1].
Proof. vm_compute. repeat split; reflexivity. Qed.

(* non-vacuity: a 6-node program with a shared parent, a clone, one hard and one soft requirement *)
Definition ex_g : dag :=
  [ mkNode (KConst (VZ 1)) []; mkNode (KConst (VZ 3)) [];
    mkNode KDRange [0; 1]%nat;                      (* x = DiscreteRange(1,3) *)
    mkNode KDRange [0; 1]%nat;                      (* w = resample(x) *)
    mkNode (KOp OAdd) [2; 2]%nat;                   (* x + x *)
    mkNode (KDRangeW 0 [1; 3]) [];                  (* selector with weights 1, 2 *)
    mkNode KMux [5; 4; 3]%nat ].                    (* Options({x+x: 1, w: 2}) *)
Definition ex_rs : list req := [mkReq 1 (CLt (RNode 2) (RConst (VZ 3))); mkReq (1#2) (CLt (RNode 3) (RNode 6))].
Example C01_example :
  wf_dagb ex_g = true /\ same_setb (needed ex_g [6; 2]%nat) (dfs_order ex_g [6; 2]%nat) = true /\
  dfs_order ex_g [6; 2]%nat = [5; 0; 1; 2; 4; 3; 6]%nat /\
  Qred (mass (fun x => Nat.eqb (snd x) 1) (generate_inner ex_g [6; 2]%nat ex_rs 3)) = 11 # 27 /\
  Qred (mass (fun x => Nat.eqb (snd x) 2) (generate_inner ex_g [6; 2]%nat ex_rs 3)) = 127 # 729 /\
  Qred (rejmass (generate_inner ex_g [6; 2]%nat ex_rs 3)) = 6448 # 19683 /\
  length (paths (generate_inner ex_g [6; 2]%nat ex_rs 1)) = 36%nat.
Proof. vm_compute. repeat split; reflexivity. Qed.

(* non-vacuity of the new hypotheses and of requirement capture:  x = A; require x < 3; x = B  on a sample
   with A = 1, B = 5, then  require x < 3; x = 0: the first closure says True and the second False (capture-time
   bindings A and B) although the namespace they start from holds garbage; late binding (x = 0 at the end) would
   say True for both, so the check with both enforced fails only under capture-time binding *)
Definition ex_prog : list pstmt :=
  [PAssign 0%nat (BNode 0); PRequire (1#2) (NLt (NName 0%nat) (NConst (VZ 3))); PAssign 0%nat (BNode 1);
   PRequire 1 (NLt (NName 0%nat) (NConst (VZ 3))); PAssign 0%nat (BConst (VZ 0))].
Definition ex_m : memo := [Some (VZ 1); Some (VZ 5)].
Definition ex_ps : list pending := snd (run_stmts ex_prog []).
Definition ex_junk : rns := fun _ => VZ 99.
Example C01_example_capture :
  good_dagb ex_g = true /\
  map (fun pd => fst (closure pd ex_m ex_junk)) ex_ps = [true; false] /\
  late_value (fst (run_stmts ex_prog [])) ex_m (NLt (NName 0%nat) (NConst (VZ 3))) = true /\
  compile_reqs ex_prog [] = [mkReq (1#2) (CLt (RNode 0) (RConst (VZ 3))); mkReq 1 (CLt (RNode 1) (RConst (VZ 3)))] /\
  check_closures ex_ps [true; true] ex_m ex_junk = false /\
  check_closures ex_ps [true; false] ex_m ex_junk = true.
Proof. vm_compute. repeat split; reflexivity. Qed.
