(* C06 — property theorems.  Statements only: each is closed by [exact] of a lemma proved in
   coq/C06/SpecifierProofs.v, followed by Print Assumptions.
   [resolve] is the repaired resolution algorithm (branch fix-C06-specifier-ties), [resolve_old] the
   algorithm as found in round 0; both are step-by-step models of Constructible._resolveSpecifiers. *)
From Coq Require Import ZArith NArith List Permutation.
From Scenic Require Import C06.Specifier C06.SpecifierProofs.
Import ListNotations.
Open Scope Z_scope.

(* The outcome -- which specifier specifies / modifies each property, or the class of error --
   does not depend on the order in which the specifiers are written (at most one modifying
   specifier: Scenic has only `on`, and a repeated name is refused). *)
Theorem C06_resolve_perm : forall specs specs' defaults finals,
  Permutation specs specs' -> (length (filter is_mod specs) <= 1)%nat ->
  same_outcome (resolve specs defaults finals) (resolve specs' defaults finals).
Proof. exact resolve_perm. Qed.
Print Assumptions C06_resolve_perm.

(* ... and with the side condition stated on the table of specifiers instead (all modifying specifiers
   share one name -- re-checked by vm_compute on the table regenerated from veneer.py on every run:
   gen/C06_SpecTable.v, theorems mod_single_name_3d and _2d). *)
Theorem C06_resolve_perm_builtin : forall specs specs' defaults finals,
  one_mod_name specs -> Permutation specs specs' ->
  same_outcome (resolve specs defaults finals) (resolve specs' defaults finals).
Proof. exact resolve_perm_builtin. Qed.
Print Assumptions C06_resolve_perm_builtin.

(* The reference's procedure, steps 1-3: on success no specifier name is used twice, no two normal
   specifiers tie on a property at any level, no final property is mentioned; a property that no
   modifying specifier mentions is held by its unique highest-priority specifier, else by the class
   default (the most derived one: [defaults] is the merged table), and is not modified. *)
Theorem C06_resolve_matches_doc : forall specs defaults finals r,
  resolve specs defaults finals = OK r ->
  let Tn := triples (filter nm specs) in
  NoDup (map sname specs) /\ tie_free Tn /\
  (forall s p k, In s specs -> In (p, k) (prios s) -> ~ In p finals) /\
  forall p, (forall s k, In s specs -> is_mod s = true -> ~ In (p, k) (prios s)) ->
    lookup (r_mods r) p = None /\
    match lookup (r_props r) p with
    | Some (x, k) => best Tn p x k \/ ((forall s k', ~ In (s, p, k') Tn) /\ lookup defaults p = Some x /\ k = -1)
    | None => (forall s k', ~ In (s, p, k') Tn) /\ lookup defaults p = None
    end.
Proof. exact resolve_matches_doc. Qed.
Print Assumptions C06_resolve_matches_doc.

(* A property the (single) modifying specifier M mentions: M specifies it when its priority is strictly
   higher than everybody else's (or nobody else specifies it); otherwise the best normal specifier keeps
   it and M modifies it exactly when the property is modifiable -- at most one modifier per property. *)
Theorem C06_resolve_matches_doc_modifier : forall specs defaults finals r M p k,
  resolve specs defaults finals = OK r ->
  filter is_mod specs = [M] -> NoDup (map fst (prios M)) -> In (p, k) (prios M) ->
  let Tn := triples (filter nm specs) in
  (forall s0 k0, best Tn p s0 k0 ->
     if k <? k0 then lookup (r_props r) p = Some (M, k) /\ lookup (r_mods r) p = None
     else lookup (r_props r) p = Some (s0, k0) /\
          lookup (r_mods r) p = (if memN p (modifiable M) then Some M else None)) /\
  ((forall s0 k0, ~ In (s0, p, k0) Tn) -> lookup (r_props r) p = Some (M, k) /\ lookup (r_mods r) p = None).
Proof. exact resolve_matches_doc_modifier. Qed.
Print Assumptions C06_resolve_matches_doc_modifier.

(* F1: the algorithm as found is order dependent (priorities 3,1,3 vs 3,3,1 on one property). *)
Theorem C06_resolve_order_dependent_refuted :
  Permutation specs_f1 specs_f1' /\ (length (filter is_mod specs_f1) <= 1)%nat /\
  ~ same_outcome (resolve_old specs_f1 [] []) (resolve_old specs_f1' [] []).
Proof. exact resolve_order_dependent_refuted. Qed.
Print Assumptions C06_resolve_order_dependent_refuted.

(* Step 1 of the reference: after the normal specifiers, every property is held by its unique
   highest-priority specifier; errors are exactly a tie (at any level) or a final property. *)
Theorem C06_normal_phase_matches_doc : forall finals T,
  match normal_new finals T [] [] with
  | OK m => tie_free T /\ nofinal finals T /\ winners T m
  | Err EFinal => ~ nofinal finals T
  | Err EAmbiguous => ~ tie_free T
  | Err _ => False
  end.
Proof. exact normal_new_correct. Qed.
Print Assumptions C06_normal_phase_matches_doc.

Theorem C06_tie_rejected : forall specs defaults finals s s' p k,
  In s specs -> In s' specs -> s <> s' -> is_mod s = false -> is_mod s' = false ->
  In (p, k) (prios s) -> In (p, k) (prios s') -> is_err (resolve specs defaults finals).
Proof. exact tie_rejected. Qed.
Print Assumptions C06_tie_rejected.

(* Every specifier is evaluated, after the suppliers of all properties it depends on; a modifier
   after the specifier whose value it modifies. *)
Theorem C06_order_topological : forall fx specs defaults finals r,
  resolve_gen fx specs defaults finals = OK r ->
  (forall d1 v d2, r_order r = d1 ++ v :: d2 ->
     (forall p, In p (deps v) -> exists x, supplier (r_props r) (r_mods r) p = Some x /\ In x d1) /\
     (forall p, mod_inv (r_mods r) v = Some p ->
        exists x k, lookup (r_props r) p = Some (x, k) /\ In x d1)) /\
  incl (r_all r) (r_order r) /\ incl specs (r_all r).
Proof. exact order_topological. Qed.
Print Assumptions C06_order_topological.

(* The DFS terminates within its fuel (= number of specifiers + 1): fuel exhaustion never happens. *)
Theorem C06_dfs_terminates : forall fx specs defaults finals,
  resolve_gen fx specs defaults finals <> Err EFuel.
Proof. exact resolve_no_fuel. Qed.
Print Assumptions C06_dfs_terminates.

(* A final property can be neither specified nor modified. *)
Theorem C06_final_rejected : forall specs defaults finals s p k,
  In s specs -> In (p, k) (prios s) -> In p finals -> is_err (resolve specs defaults finals).
Proof. exact final_rejected. Qed.
Print Assumptions C06_final_rejected.

(* ... which the code as found did not enforce for modifying specifiers (`on`). *)
Theorem C06_final_rejected_old_refuted :
  In sOn [sOn] /\ In (1%N, 1) (prios sOn) /\ In 1%N [1%N] /\ ~ is_err (resolve_old [sOn] [] [1%N]).
Proof. exact final_rejected_old_refuted. Qed.
Print Assumptions C06_final_rejected_old_refuted.

(* non-vacuity: a successful resolution with a dependency, a modifier and a default *)
Example C06_examples :
  let at_ := mkSpec 1%N [(1%N, 1)] [] false [] in
  let on_ := mkSpec 2%N [(1%N, 1); (2%N, 2)] [3%N] true [1%N] in
  let fac := mkSpec 3%N [(4%N, 1)] [1%N; 2%N] false [] in
  let dflt := mkSpec 0%N [(3%N, -1)] [] false [] in
  match resolve [fac; on_; at_] [(3%N, dflt)] [] with
  | OK r => r_order r = [dflt; at_; on_; fac] /\ lookup (r_mods r) 1%N = Some on_
  | Err _ => False
  end /\
  resolve [at_; at_] [] [] = Err ESelfModify /\
  resolve [fac] [] [] = Err EMissingDep.
Proof. vm_compute. repeat split; reflexivity. Qed.
