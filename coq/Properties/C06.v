(* C06 — property theorems.  Statements only: each is closed by [exact] of a lemma proved in
   coq/C06/SpecifierProofs.v, followed by Print Assumptions.
   [resolve] is the repaired resolution algorithm (branch fix-C06-specifier-ties), [resolve_old] the
   algorithm as found in round 0; both are step-by-step models of Constructible._resolveSpecifiers. *)
From Coq Require Import ZArith NArith List Bool Lia Permutation.
From Scenic Require Import C06.Specifier C06.SpecifierProofs C06.MoreProofs C06.Modifiable.
Import ListNotations.
Open Scope Z_scope.

(* The outcome -- which specifier specifies / modifies each property, or the class of error --
   does not depend on the order in which the specifiers are written (at most one modifying
   specifier: Scenic has only `on`, and a repeated name is refused). *)
Theorem C06_resolve_perm : forall specs specs' defaults finals,
  Permutation specs specs' -> (length (filter is_mod specs) <= 1)%nat ->
  same_outcome (resolve specs defaults finals) (resolve specs' defaults finals).
Proof. exact resolve_perm. Qed.
Print Assumptions C06_resolve_perm.

(* ... and with the side condition stated on the table of specifiers instead (all modifying specifiers
   share one name -- re-checked by vm_compute on the table regenerated from veneer.py on every run:
   gen/C06_SpecTable.v, theorems mod_single_name_3d and _2d). *)
Theorem C06_resolve_perm_builtin : forall specs specs' defaults finals,
  one_mod_name specs -> Permutation specs specs' ->
  same_outcome (resolve specs defaults finals) (resolve specs' defaults finals).
Proof. exact resolve_perm_builtin. Qed.
Print Assumptions C06_resolve_perm_builtin.

(* The reference's procedure, steps 1-3: on success no specifier name is used twice, no two normal
   specifiers tie on a property at any level, no final property is mentioned; a property that no
   modifying specifier mentions is held by its unique highest-priority specifier, else by the class
   default (the most derived one: [defaults] is the merged table), and is not modified. *)
Theorem C06_resolve_matches_doc : forall specs defaults finals r,
  resolve specs defaults finals = OK r ->
  let Tn := triples (filter nm specs) in
  NoDup (map sname specs) /\ tie_free Tn /\
  (forall s p k, In s specs -> In (p, k) (prios s) -> ~ In p finals) /\
  forall p, (forall s k, In s specs -> is_mod s = true -> ~ In (p, k) (prios s)) ->
    lookup (r_mods r) p = None /\
    match lookup (r_props r) p with
    | Some (x, k) => best Tn p x k \/ ((forall s k', ~ In (s, p, k') Tn) /\ lookup defaults p = Some x /\ k = -1)
    | None => (forall s k', ~ In (s, p, k') Tn) /\ lookup defaults p = None
    end.
Proof. exact resolve_matches_doc. Qed.
Print Assumptions C06_resolve_matches_doc.

(* A property the (single) modifying specifier M mentions: M specifies it when its priority is strictly
   higher than everybody else's (or nobody else specifies it); otherwise the best normal specifier keeps
   it and M modifies it exactly when the property is modifiable -- at most one modifier per property. *)
Theorem C06_resolve_matches_doc_modifier : forall specs defaults finals r M p k,
  resolve specs defaults finals = OK r ->
  filter is_mod specs = [M] -> NoDup (map fst (prios M)) -> In (p, k) (prios M) ->
  let Tn := triples (filter nm specs) in
  (forall s0 k0, best Tn p s0 k0 ->
     if k <? k0 then lookup (r_props r) p = Some (M, k) /\ lookup (r_mods r) p = None
     else lookup (r_props r) p = Some (s0, k0) /\
          lookup (r_mods r) p = (if memN p (modifiable M) then Some M else None)) /\
  ((forall s0 k0, ~ In (s0, p, k0) Tn) -> lookup (r_props r) p = Some (M, k) /\ lookup (r_mods r) p = None).
Proof. exact resolve_matches_doc_modifier. Qed.
Print Assumptions C06_resolve_matches_doc_modifier.

(* F1: the algorithm as found is order dependent (priorities 3,1,3 vs 3,3,1 on one property). *)
Theorem C06_resolve_order_dependent_refuted :
  Permutation specs_f1 specs_f1' /\ (length (filter is_mod specs_f1) <= 1)%nat /\
  ~ same_outcome (resolve_old specs_f1 [] []) (resolve_old specs_f1' [] []).
Proof. exact resolve_order_dependent_refuted. Qed.
Print Assumptions C06_resolve_order_dependent_refuted.

(* Step 1 of the reference: after the normal specifiers, every property is held by its unique
   highest-priority specifier; errors are exactly a tie (at any level) or a final property. *)
Theorem C06_normal_phase_matches_doc : forall finals T,
  match normal_new finals T [] [] with
  | OK m => tie_free T /\ nofinal finals T /\ winners T m
  | Err EFinal => ~ nofinal finals T
  | Err EAmbiguous => ~ tie_free T
  | Err _ => False
  end.
Proof. exact normal_new_correct. Qed.
Print Assumptions C06_normal_phase_matches_doc.

Theorem C06_tie_rejected : forall specs defaults finals s s' p k,
  In s specs -> In s' specs -> s <> s' -> is_mod s = false -> is_mod s' = false ->
  In (p, k) (prios s) -> In (p, k) (prios s') -> is_err (resolve specs defaults finals).
Proof. exact tie_rejected. Qed.
Print Assumptions C06_tie_rejected.

(* Every specifier is evaluated, after the suppliers of all properties it depends on; a modifier
   after the specifier whose value it modifies. *)
Theorem C06_order_topological : forall fx specs defaults finals r,
  resolve_gen fx specs defaults finals = OK r ->
  (forall d1 v d2, r_order r = d1 ++ v :: d2 ->
     (forall p, In p (deps v) -> exists x, supplier (r_props r) (r_mods r) p = Some x /\ In x d1) /\
     (forall p, mod_inv (r_mods r) v = Some p ->
        exists x k, lookup (r_props r) p = Some (x, k) /\ In x d1)) /\
  incl (r_all r) (r_order r) /\ incl specs (r_all r).
Proof. exact order_topological. Qed.
Print Assumptions C06_order_topological.

(* The DFS terminates within its fuel (= number of specifiers + 1): fuel exhaustion never happens. *)
Theorem C06_dfs_terminates : forall fx specs defaults finals,
  resolve_gen fx specs defaults finals <> Err EFuel.
Proof. exact resolve_no_fuel. Qed.
Print Assumptions C06_dfs_terminates.

(* A final property can be neither specified nor modified. *)
Theorem C06_final_rejected : forall specs defaults finals s p k,
  In s specs -> In (p, k) (prios s) -> In p finals -> is_err (resolve specs defaults finals).
Proof. exact final_rejected. Qed.
Print Assumptions C06_final_rejected.

(* ... which the code as found did not enforce for modifying specifiers (`on`). *)
Theorem C06_final_rejected_old_refuted :
  In sOn [sOn] /\ In (1%N, 1) (prios sOn) /\ In 1%N [1%N] /\ ~ is_err (resolve_old [sOn] [] [1%N]).
Proof. exact final_rejected_old_refuted. Qed.
Print Assumptions C06_final_rejected_old_refuted.

(* non-vacuity: a successful resolution with a dependency, a modifier and a default *)
Example C06_examples :
  let at_ := mkSpec 1%N [(1%N, 1)] [] false [] in
  let on_ := mkSpec 2%N [(1%N, 1); (2%N, 2)] [3%N] true [1%N] in
  let fac := mkSpec 3%N [(4%N, 1)] [1%N; 2%N] false [] in
  let dflt := mkSpec 0%N [(3%N, -1)] [] false [] in
  match resolve [fac; on_; at_] [(3%N, dflt)] [] with
  | OK r => r_order r = [dflt; at_; on_; fac] /\ lookup (r_mods r) 1%N = Some on_
  | Err _ => False
  end /\
  resolve [at_; at_] [] [] = Err ESelfModify /\
  resolve [fac] [] [] = Err EMissingDep.
Proof. vm_compute. repeat split; reflexivity. Qed.

(* ---------------------------------------------------------------- round 2 *)
(* Every specifier (and every default that was added) is evaluated exactly once, and nothing else is. *)
Theorem C06_order_nodup : forall fx specs defaults finals r,
  resolve_gen fx specs defaults finals = OK r ->
  NoDup (r_order r) /\ (forall x, In x (r_order r) <-> In x (r_all r)) /\
  (NoDup (r_all r) -> Permutation (r_order r) (r_all r)).
Proof. exact order_nodup. Qed.
Print Assumptions C06_order_nodup.

(* Class defaults (Constructible.__init_subclass__ / PropertyDefault.resolveFor; [defs_of mro p] = the definitions
   of p along the MRO, most derived first): exactly one default per property defined anywhere; it is the MOST
   DERIVED definition (own dependencies; an additive default depends on what any definition depends on);
   final iff the most derived definition is final, dynamic iff any definition is dynamic. *)
Theorem C06_defaults_most_derived : forall mro ds fin dyn,
  merge_defaults mro = Merged ds fin dyn ->
  NoDup (map fst ds) /\
  (forall p, In p (map fst ds) <-> defs_of mro p <> []) /\
  (forall p s, In (p, s) ds -> exists primary rest,
      defs_of mro p = primary :: rest /\ existsb d_final rest = false /\
      sname s = 0%N /\ prios s = [(p, -1)] /\ is_mod s = false /\ modifiable s = [] /\
      (if d_additive primary
       then forall x, In x (deps s) <-> exists d, In d (primary :: rest) /\ In x (d_deps d)
       else deps s = d_deps primary)) /\
  (forall p, In p fin <-> exists primary rest, defs_of mro p = primary :: rest /\ d_final primary = true) /\
  (forall p, In p dyn <-> exists d, In d (defs_of mro p) /\ d_dynamic d = true).
Proof. exact defaults_most_derived. Qed.
Print Assumptions C06_defaults_most_derived.

(* ... and merging is refused exactly when a class overrides a default that a less derived class made final. *)
Theorem C06_defaults_override_final : forall mro,
  (exists p, merge_defaults mro = OverridesFinal p) <->
  (exists p primary rest, defs_of mro p = primary :: rest /\ existsb d_final rest = true).
Proof. exact defaults_override_final. Qed.
Print Assumptions C06_defaults_override_final.

Example C06_merge_example :
  merge_defaults [cls_derived; cls_base] =
    Merged [(1%N, mkSpec 0%N [(1%N, -1)] [2%N] false []); (2%N, mkSpec 0%N [(2%N, -1)] [] false [])] [] [] /\
  merge_defaults [[(1%N, mkPdef [] false false false)]; [(1%N, mkPdef [] false false true)]] = OverridesFinal 1%N /\
  merge_defaults [[(1%N, mkPdef [3%N] true true false)]; [(1%N, mkPdef [2%N] true false false)]] =
    Merged [(1%N, mkSpec 0%N [(1%N, -1)] [3%N; 2%N] false [])] [] [1%N].
Proof. exact merge_example. Qed.

(* Any number of modifying specifiers: what never depends on the order.  A property somebody mentions ends up
   held with the best priority anybody gives it, by a specifier giving it that priority; a specifier that
   alone gives the best priority holds it whatever the order. *)
Theorem C06_resolve_holder_best : forall specs defaults finals r p,
  resolve specs defaults finals = OK r ->
  (exists s k, In s specs /\ In (p, k) (prios s)) ->
  exists x kx, lookup (r_props r) p = Some (x, kx) /\ In x specs /\ In (p, kx) (prios x) /\
    (forall s k, In s specs -> In (p, k) (prios s) -> kx <= k) /\
    (forall s, In s specs -> In (p, kx) (prios s) ->
       (forall s' , In s' specs -> In (p, kx) (prios s') -> s' = s) -> x = s).
Proof. exact resolve_holder_best. Qed.
Print Assumptions C06_resolve_holder_best.

(* ... and what does: with two different modifying specifiers (normal p@3, A p@1, B p@2) A holds p in both orders,
   but B modifies p only when written after A; with a third (C p@2) even success depends on the order.
   (Scenic has a single modifying specifier, `on`: hypothesis of C06_resolve_perm_builtin, re-checked per run.) *)
Theorem C06_two_modifiers_order_dependent_refuted :
  Permutation [mN; mA; mB] [mN; mB; mA] /\
  (exists r r', resolve [mN; mA; mB] [] [] = OK r /\ resolve [mN; mB; mA] [] [] = OK r' /\
     lookup (r_props r) 1%N = Some (mA, 1) /\ lookup (r_props r') 1%N = Some (mA, 1) /\
     lookup (r_mods r) 1%N = Some mB /\ lookup (r_mods r') 1%N = None) /\
  ~ same_outcome (resolve [mN; mA; mB] [] []) (resolve [mN; mB; mA] [] []).
Proof. exact two_modifiers_order_dependent. Qed.
Print Assumptions C06_two_modifiers_order_dependent_refuted.

Theorem C06_three_modifiers_error_order_dependent_refuted :
  Permutation [mN; mA; mB; mC] [mN; mB; mA; mC] /\
  resolve [mN; mA; mB; mC] [] [] = Err EModifiedTwice /\
  ~ is_err (resolve [mN; mB; mA; mC] [] []).
Proof. exact three_modifiers_error_order_dependent. Qed.
Print Assumptions C06_three_modifiers_error_order_dependent_refuted.

(* ---- Round 3: what a modifying specifier may touch.  Whatever the order and the number of modifying specifiers, a
   property ends up *modified* only by a modifying specifier of the written list that lists the property in its own
   modifiable set and itself mentions it with a priority number that does not beat the holder's; the property is then
   held by somebody (there is a value to modify).  The modifiable sets themselves are table facts re-checked on every
   run (gen/C06_SpecTable.v: modifiable_agrees_*, modifiable_within_prios_*, only_modifiers_modify_*, and
   probe_behaviour_*: behaviour observed through public syntax = [probe_outcome] on the documented rows). *)
Theorem C06_modifier_only_modifiable : forall fx specs defaults finals r p s,
  resolve_gen fx specs defaults finals = OK r -> lookup (r_mods r) p = Some s ->
  In s specs /\ is_mod s = true /\ In p (modifiable s) /\
  exists k, In (p, k) (prios s) /\
    exists s0 k0, lookup (r_props r) p = Some (s0, k0) /\ k0 <= k.
Proof. exact modifier_only_modifiable. Qed.
Print Assumptions C06_modifier_only_modifiable.

Theorem C06_unmodifiable_never_modified : forall fx specs defaults finals r p,
  resolve_gen fx specs defaults finals = OK r ->
  (forall s, In s specs -> is_mod s = true -> ~ In p (modifiable s)) ->
  lookup (r_mods r) p = None.
Proof. exact unmodifiable_never_modified. Qed.
Print Assumptions C06_unmodifiable_never_modified.

(* the two-specifier probe evaluated by the kernel on the regenerated table speaks about the maps of [resolve] *)
Theorem C06_probe_outcome_resolve : forall specs defaults r p,
  resolve specs defaults [] = OK r ->
  (probe_outcome specs p = 1%N <-> exists s, lookup (r_mods r) p = Some s).
Proof. exact probe_outcome_resolve. Qed.
Print Assumptions C06_probe_outcome_resolve.

(* non-vacuity: `on` (position@1 modifiable, q@2 not) modifies the position given by `at` and leaves `with q` alone; a
   table row that wrongly lists q as modifiable (seeded change C06-3) makes it overwrite the priority-1 value *)
Example C06_modifiable_example :
  (exists r, resolve [ex_on; ex_at; ex_withq] [] [] = OK r /\
     lookup (r_mods r) 1%N = Some ex_on /\ lookup (r_mods r) 2%N = None) /\
  (exists r, resolve [ex_on_bad; ex_at; ex_withq] [] [] = OK r /\ lookup (r_mods r) 2%N = Some ex_on_bad) /\
  probe_outcome [ex_withq; ex_on] 2%N = 0%N /\ probe_outcome [ex_at; ex_on] 1%N = 1%N /\
  probe_outcome [ex_withq; ex_on_bad] 2%N = 1%N.
Proof. exact modifiable_example. Qed.
