(* C07 — theorems about the geometric model, carrier R.  Trigonometric values are constrained only
   by c^2+s^2 = 1 (anorm2 = 1); orientations only by being unit quaternions. *)
From Coq Require Import Reals Lra List Nsatz.
From Scenic Require Import C07.Carrier C07.Vec3 C07.Quat C07.QuatProofs C07.Geometry.
Import ListNotations.
Open Scope R_scope.

Ltac unfg := cbv [orientation_of offset_locally to_local vhalf vmulc box_point m1 two half
                  dir_components by_components contact_offset dir_offset directional_obj directional_op
                  directional_vec dir_axis dir_dim dir_gap_value along
                  rot2d cross2 dot2 xy turn_res turn_dot north east sph_dir
                  offset_by offset_along offset_along_spec relative_to_op relative_to_orient
                  beyond_pos beyond_offset facing_local facing_orientation sight_local aadd
                  dist2 distance_res angle_res angle_dot altitude_res altitude_dot hypot_res forward
                  relheading_res relheading_dot appheading_res appheading_dot side_signs side_point].
Ltac unfall := unfg; unf.

Definition unitq (q : Rquat) : Prop := qnorm2 Ro q = 1.
Definition unita (a : Rang) : Prop := anorm2 Ro a = 1.

(* ---------------------------------------------------------------- frames *)
Lemma vadd_sub_cancel : forall p v : Rvec, vsub Ro (vadd Ro p v) p = v.
Proof. intros p v; dv p; dv v; unf; veq. Qed.

Lemma to_local_offset_locally : forall (pos : Rvec) (q : Rquat) (v : Rvec), unitq q ->
  to_local Ro pos q (offset_locally Ro pos q v) = v.
Proof. intros pos q v H. unfold to_local, offset_locally. rewrite vadd_sub_cancel.
  apply rotate_inv_l; exact H. Qed.

Lemma offset_locally_to_local : forall (pos : Rvec) (q : Rquat) (p : Rvec), unitq q ->
  offset_locally Ro pos q (to_local Ro pos q p) = p.
Proof. intros pos q p H. unfold to_local, offset_locally. rewrite rotate_inv_r by exact H.
  dv pos; dv p; unf; veq. Qed.

Lemma orientation_of_unit : forall (parent : Rquat) (y p r : Rang),
  unitq parent -> unita y -> unita p -> unita r -> unitq (orientation_of Ro parent y p r).
Proof. intros parent y p r H Hy Hp Hr. unfold unitq, orientation_of. rewrite qnorm2_mul, H.
  rewrite (from_euler_unit y p r Hy Hp Hr). ring. Qed.

(* an object that inherits parentOrientation := q and keeps zero local angles has orientation q *)
Lemma orientation_inherited : forall q : Rquat, orientation_of Ro q (a0 Ro) (a0 Ro) (a0 Ro) = q.
Proof. intros q; dq q; unfall; qeq. Qed.

(* ---------------------------------------------------------------- facing *)
Lemma facing_global : forall parent target : Rquat, unitq parent ->
  facing_orientation Ro parent target = target.
Proof. intros parent target H. unfold facing_orientation, facing_local.
  rewrite <- qmul_assoc, (qinv_r parent H). apply qmul_id_l. Qed.

(* forward axis of fromEuler(th, ph, 0) *)
Lemma euler_forward : forall th ph : Rang, unita th ->
  rotate Ro (from_euler Ro th ph (a0 Ro)) (ey Ro) = sph_dir Ro th ph.
Proof. intros th ph H. da th; da ph. unfold unita in H. revert H. unfall. intro H.
  apply vec_eq; try ring.
  transitivity ((2 * (r2 * r1)) * (r * r + r0 * r0)); [ring | rewrite H; ring]. Qed.

(* facing directly toward P: if (yaw, pitch) are the spherical angles of the line of sight expressed
   in the parent frame (rho = its length), the object's forward axis points exactly at P *)
Lemma facing_directly_toward_points : forall (parent : Rquat) (pos target : Rvec) (th ph : Rang) (rho : R),
  unitq parent -> unita th ->
  sight_local Ro parent pos target false = vscale Ro rho (sph_dir Ro th ph) ->
  vscale Ro rho (forward Ro (orientation_of Ro parent th ph (a0 Ro))) = vsub Ro target pos.
Proof. intros parent pos target th ph rho H Ht Hs. unfold forward, orientation_of.
  rewrite rotate_compose, (euler_forward th ph Ht), <- rotate_linear_scale, <- Hs.
  unfold sight_local. apply rotate_inv_r; exact H. Qed.

Lemma facing_directly_away_points : forall (parent : Rquat) (pos target : Rvec) (th ph : Rang) (rho : R),
  unitq parent -> unita th ->
  sight_local Ro parent pos target true = vscale Ro rho (sph_dir Ro th ph) ->
  vscale Ro rho (forward Ro (orientation_of Ro parent th ph (a0 Ro))) = vsub Ro pos target.
Proof. intros parent pos target th ph rho H Ht Hs. unfold forward, orientation_of.
  rewrite rotate_compose, (euler_forward th ph Ht), <- rotate_linear_scale, <- Hs.
  unfold sight_local. apply rotate_inv_r; exact H. Qed.

(* facing toward P (yaw only): in the parent frame the forward axis is the heading-th direction *)
Lemma facing_toward_forward : forall (parent : Rquat) (th : Rang),
  forward Ro (orientation_of Ro parent th (a0 Ro) (a0 Ro)) = rotate Ro parent (- asin Ro th, acos Ro th, 0).
Proof. intros parent th. unfold forward, orientation_of.
  rewrite rotate_compose, from_euler_heading, heading_convention_alg. reflexivity. Qed.

(* ---------------------------------------------------------------- directional specifiers *)
(* the new centre is X's centre plus the documented offset, in X's frame, whatever X's pose *)
Lemma directional_centre : forall d (xpos : Rvec) (xq : Rquat) (xdims sdims : Rvec) ct b, unitq xq ->
  to_local Ro xpos xq (fst (directional_obj Ro d xpos xq xdims sdims ct b)) =
    dir_offset Ro d sdims xdims (contact_offset Ro b ct) (by_components Ro d b)
  /\ snd (directional_obj Ro d xpos xq xdims sdims ct b) = xq.
Proof. intros. split; [|reflexivity]. unfold directional_obj, fst.
  apply to_local_offset_locally; assumption. Qed.

Lemma directional_centre_op : forall d (xpos : Rvec) (xq : Rquat) (sdims : Rvec) b, unitq xq ->
  to_local Ro xpos xq (fst (directional_op Ro d xpos xq sdims b)) =
    dir_offset Ro d sdims (0, 0, 0) 0 (by_components Ro d b)
  /\ snd (directional_op Ro d xpos xq sdims b) = xq.
Proof. intros. split; [|reflexivity]. unfold directional_op, fst.
  apply to_local_offset_locally; assumption. Qed.

Lemma directional_centre_vec : forall d (p : Rvec) (selfq : Rquat) (sdims : Rvec) b, unitq selfq ->
  to_local Ro p selfq (directional_vec Ro d p selfq sdims b) =
    dir_offset Ro d sdims (0, 0, 0) 0 (by_components Ro d b).
Proof. intros. unfold directional_vec. apply to_local_offset_locally; assumption. Qed.

Lemma to_local_box_point : forall (xpos : Rvec) (xq : Rquat) (c : Rvec) (dims s : Rvec), unitq xq ->
  to_local Ro xpos xq (box_point Ro (offset_locally Ro xpos xq c) xq dims s) =
  vadd Ro c (vmulc Ro s (vhalf Ro dims)).
Proof. intros xpos xq c dims s H. unfold box_point, offset_locally, to_local.
  replace (vsub Ro (vadd Ro (vadd Ro xpos (rotate Ro xq c)) (rotate Ro xq (vmulc Ro s (vhalf Ro dims)))) xpos)
    with (rotate Ro xq (vadd Ro c (vmulc Ro s (vhalf Ro dims)))).
  - apply rotate_inv_l; exact H.
  - rewrite rotate_linear_add.
    generalize (rotate Ro xq c) (rotate Ro xq (vmulc Ro s (vhalf Ro dims))). intros u v.
    dv xpos; dv u; dv v; unf; veq. Qed.

Lemma to_local_box_point_self : forall (xpos : Rvec) (xq : Rquat) (dims s : Rvec), unitq xq ->
  to_local Ro xpos xq (box_point Ro xpos xq dims s) = vmulc Ro s (vhalf Ro dims).
Proof. intros xpos xq dims s H. unfold box_point. apply to_local_offset_locally; exact H. Qed.

(* the gap: when the new object's orientation equals X's (inherited parentOrientation, zero local
   angles), for every point s of the new box and t of X's box (s, t arbitrary scale triples, corners
   being +-1) the difference of outward coordinates along X's axis is
     documented gap + (1 + s.axis) * newdim/2 + (1 - t.axis) * xdim/2,
   so over the corner sets its minimum (s.axis = -1, t.axis = +1, sizes >= 0) is exactly the gap *)
Lemma directional_gap : forall d (xpos : Rvec) (xq : Rquat) (xdims sdims : Rvec) ct b (s t : Rvec),
  unitq xq ->
  let newpos := fst (directional_obj Ro d xpos xq xdims sdims ct b) in
  along Ro xpos xq d (box_point Ro newpos xq sdims s) - along Ro xpos xq d (box_point Ro xpos xq xdims t)
  = dir_gap_value Ro d b ct
    + (1 + vdot Ro (dir_axis Ro d) s) * (dir_dim d sdims / 2)
    + (1 - vdot Ro (dir_axis Ro d) t) * (dir_dim d xdims / 2).
Proof. intros d xpos xq xdims sdims ct b s t H newpos. unfold newpos, along, directional_obj, fst.
  rewrite (to_local_box_point _ _ _ _ _ H), (to_local_box_point_self _ _ _ _ H).
  dv xdims; dv sdims; dv s; dv t.
  destruct d; destruct b as [|k|v]; try dv v; unfall; field. Qed.

Lemma directional_gap_corners : forall d (xpos : Rvec) (xq : Rquat) (xdims sdims : Rvec) ct b (s t : Rvec),
  unitq xq -> 0 <= dir_dim d sdims -> 0 <= dir_dim d xdims ->
  In s (corner_signs Ro) -> In t (corner_signs Ro) ->
  let newpos := fst (directional_obj Ro d xpos xq xdims sdims ct b) in
  dir_gap_value Ro d b ct <=
  along Ro xpos xq d (box_point Ro newpos xq sdims s) - along Ro xpos xq d (box_point Ro xpos xq xdims t).
Proof. intros d xpos xq xdims sdims ct b s t H Hs Hx Is It newpos. unfold newpos.
  rewrite (directional_gap d xpos xq xdims sdims ct b s t H).
  assert (A : 0 <= 1 + vdot Ro (dir_axis Ro d) s).
  { cbv [corner_signs In m1 Ro one opp] in Is. 
    destruct d; repeat (destruct Is as [<- | Is]; [unfall; lra|]); destruct Is. }
  assert (B : 0 <= 1 - vdot Ro (dir_axis Ro d) t).
  { cbv [corner_signs In m1 Ro one opp] in It. 
    destruct d; repeat (destruct It as [<- | It]; [unfall; lra|]); destruct It. }
  assert (0 <= (1 + vdot Ro (dir_axis Ro d) s) * (dir_dim d sdims / 2)) by (apply Rmult_le_pos; lra).
  assert (0 <= (1 - vdot Ro (dir_axis Ro d) t) * (dir_dim d xdims / 2)) by (apply Rmult_le_pos; lra).
  lra. Qed.

(* the minimum is attained: the facing faces *)
Lemma directional_gap_attained : forall d (xpos : Rvec) (xq : Rquat) (xdims sdims : Rvec) ct b,
  unitq xq ->
  let newpos := fst (directional_obj Ro d xpos xq xdims sdims ct b) in
  along Ro xpos xq d (box_point Ro newpos xq sdims (vneg Ro (dir_axis Ro d)))
  - along Ro xpos xq d (box_point Ro xpos xq xdims (dir_axis Ro d)) = dir_gap_value Ro d b ct.
Proof. intros d xpos xq xdims sdims ct b H newpos. unfold newpos. rewrite directional_gap by exact H.
  dv xdims; dv sdims. destruct d; unfall; field. Qed.

(* the alignment hypothesis cannot be dropped: X = unit cube at the origin, new 2x4x2 box
   `right of X by 1` but yawed by 2*atan(1/2) about Z (half-angle pair (2/sqrt5,1/sqrt5) replaced by the
   rational unit pair of the full angle's half: (4/5, 3/5)): one of its corners is nearer than 1 *)
Lemma directional_gap_needs_alignment_refuted :
  exists (xq nq : Rquat) (s : Rvec), unitq xq /\ unitq nq /\ In s (corner_signs Ro) /\
    let xpos := (0, 0, 0) in let xdims := (1, 1, 1) in let sdims := (2, 4, 2) in
    let newpos := fst (directional_obj Ro DRight xpos xq xdims sdims 0 (ByScalar 1)) in
    along Ro xpos xq DRight (box_point Ro newpos nq sdims s)
    - along Ro xpos xq DRight (box_point Ro xpos xq xdims (dir_axis Ro DRight)) < 1.
Proof. exists (0, 0, 0, 1), (0, 0, 3/5, 4/5), (-1, 1, 1).
  split; [unfold unitq; unf; field|]. split; [unfold unitq; unf; field|].
  split; [cbv [corner_signs In m1 Ro one opp]; right; left; reflexivity|].
  unfall. lra. Qed.

(* ---------------------------------------------------------------- offset by / relative to / offset along / beyond *)
Lemma offset_by_frame : forall (epos : Rvec) (eq : Rquat) (v : Rvec), unitq eq ->
  to_local Ro epos eq (fst (offset_by Ro epos eq v)) = v /\ snd (offset_by Ro epos eq v) = eq.
Proof. intros. split; [apply to_local_offset_locally; assumption | reflexivity]. Qed.

Lemma relative_to_frame : forall (ppos : Rvec) (pq : Rquat) (v : Rvec), unitq pq ->
  to_local Ro ppos pq (fst (relative_to_op Ro ppos pq v)) = v /\ snd (relative_to_op Ro ppos pq v) = pq.
Proof. intros. split; [apply to_local_offset_locally; assumption | reflexivity]. Qed.

Lemma offset_along_frame : forall (x : Rvec) (h : Rquat) (v : Rvec), unitq h ->
  to_local Ro x h (offset_along Ro x h v) = v.
Proof. intros. apply to_local_offset_locally; assumption. Qed.

(* relative to on orientations: first Y, then X in Y's frame: rotating by the result = Y after X *)
Lemma relative_to_orient_rotate : forall (x y : Rquat) (v : Rvec),
  rotate Ro (relative_to_orient Ro x y) v = rotate Ro y (rotate Ro x v).
Proof. intros. unfold relative_to_orient. apply rotate_compose. Qed.

(* beyond: the local frame is centred at P with +Y along the line of sight Q -> P *)
Lemma beyond_frame : forall (p q off : Rvec) (th ph : Rang) (rho : R),
  unita th -> unita ph -> vsub Ro p q = vscale Ro rho (sph_dir Ro th ph) ->
  to_local Ro p (from_euler Ro th ph (a0 Ro)) (beyond_pos Ro p off th ph) = off
  /\ vscale Ro rho (forward Ro (from_euler Ro th ph (a0 Ro))) = vsub Ro p q.
Proof. intros p q off th ph rho Ht Hp Hd. split.
  - apply to_local_offset_locally. apply from_euler_unit; try assumption. unfold a0; unf; ring.
  - unfold forward. rewrite (euler_forward th ph Ht). symmetry; exact Hd. Qed.

(* beyond P by D (scalar): D further along the line of sight *)
Lemma beyond_scalar : forall (p q : Rvec) (d : R) (th ph : Rang) (rho : R),
  unita th -> vsub Ro p q = vscale Ro rho (sph_dir Ro th ph) ->
  vscale Ro rho (vsub Ro (beyond_pos Ro p (beyond_offset Ro (ByScalar d)) th ph) p) = vscale Ro d (vsub Ro p q).
Proof. intros p q d th ph rho Ht Hd. rewrite Hd. unfold beyond_pos, beyond_offset.
  rewrite vadd_sub_cancel.
  assert (E : beyond_offset Ro (ByScalar d) = vscale Ro d (ey Ro))
    by (cbv [beyond_offset]; unf; apply vec_eq; ring).
  unfold beyond_offset in E; rewrite E.
  rewrite rotate_linear_scale, (euler_forward th ph Ht).
  generalize (sph_dir Ro th ph); intro u; dv u; unf; veq. Qed.

(* ---------------------------------------------------------------- scalar operators *)
Lemma distance_sym : forall (n : R) (a b : Rvec), dist2 Ro a b = dist2 Ro b a /\
  distance_res Ro n a b = distance_res Ro n b a.
Proof. intros n a b; dv a; dv b; split; unfall; ring. Qed.

Lemma distance_rigid : forall (q : Rquat) (t a b : Rvec), unitq q ->
  dist2 Ro (offset_locally Ro t q a) (offset_locally Ro t q b) = dist2 Ro a b.
Proof. intros q t a b H. unfold dist2, offset_locally.
  replace (vsub Ro (vadd Ro t (rotate Ro q b)) (vadd Ro t (rotate Ro q a)))
    with (vsub Ro (rotate Ro q b) (rotate Ro q a)).
  - apply rotate_isometry; exact H.
  - generalize (rotate Ro q b) (rotate Ro q a); intros u v; dv t; dv u; dv v; unf; veq. Qed.

(* turning: exchanging the two directions negates the angle (no unit hypothesis needed) *)
Lemma turn_antisym : forall (a : Rang) (u v : R * R),
  turn_res Ro (aneg Ro a) v u = - turn_res Ro a u v /\ turn_dot Ro (aneg Ro a) v u = turn_dot Ro a u v.
Proof. intros a u v; da a; destruct u, v; split; unfall; ring. Qed.

Lemma relative_heading_antisym : forall (rh : Rang) (q1 q2 : Rquat),
  relheading_res Ro (aneg Ro rh) q2 q1 = - relheading_res Ro rh q1 q2 /\
  relheading_dot Ro (aneg Ro rh) q2 q1 = relheading_dot Ro rh q1 q2.
Proof. intros. unfold relheading_res, relheading_dot. apply turn_antisym. Qed.

(* a heading's own azimuth: `angle` of the forward axis of from_heading a is a *)
Lemma angle_of_heading : forall (a : Rang) (p : Rvec), unita a ->
  angle_res Ro a p (vadd Ro p (forward Ro (from_heading Ro a))) = 0 /\
  angle_dot Ro a p (vadd Ro p (forward Ro (from_heading Ro a))) = 1.
Proof. intros a p H. unfold forward, angle_res, angle_dot. rewrite heading_convention_alg, vadd_sub_cancel.
  da a. unfold unita in H. revert H. unfall. intro H. split; [ring|].
  transitivity ((r * r + r0 * r0) * (r * r + r0 * r0)); [ring | rewrite H; ring]. Qed.

(* apparent heading = heading - azimuth of the line of sight: if the line of sight has azimuth al and the
   object's heading is h then ah := h - al satisfies the apparent-heading relation *)
Lemma apparent_heading_spec : forall (pos b : Rvec) (h al : Rang) (rho : R), unita h -> unita al ->
  xy (vsub Ro pos b) = (rho * - asin Ro al, rho * acos Ro al) ->
  let ah := aadd Ro h (aneg Ro al) in
  appheading_res Ro ah pos (from_heading Ro h) b = 0 /\
  appheading_dot Ro ah pos (from_heading Ro h) b = rho.
Proof. intros pos b h al rho Hh Ha Hd ah. unfold ah, appheading_res, appheading_dot, forward.
  rewrite heading_convention_alg, Hd. da h; da al. unfold unita in *. revert Hh Ha. unfall. intros Hh Ha.
  split; nsatz. Qed.

Lemma hyps_satisfiable :
  unita (3/5, 4/5) /\ unitq (1/2, 1/2, 1/2, 1/2) /\
  (exists (p q : Rvec) (th ph : Rang) (rho : R), unita th /\ unita ph /\ rho <> 0 /\
     vsub Ro p q = vscale Ro rho (sph_dir Ro th ph)).
Proof. split; [unfold unita; unf; field|]. split; [unfold unitq; unf; field|].
  exists (0, 2, 0), (0, 0, 0), (1, 0), (1, 0), 2.
  split; [unfold unita; unf; ring|]. split; [unfold unita; unf; ring|]. split; [lra|].
  unfall. apply vec_eq; ring. Qed.
