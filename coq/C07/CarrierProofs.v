(* C07 (round 2) — the optimised rational arithmetic of the running instance [Qo] is Q's own arithmetic:
   [qadd]/[qmulq]/[sub]/[div] are equal to Qplus/Qmult/Qminus/Qdiv up to Qeq, for ALL rationals (the
   dyadic shape of the numbers of a run only matters for speed).  Axiom-free. *)
From Coq Require Import QArith Qreduction ZArith Lia.
From Scenic Require Import C07.Carrier.
Open Scope Z_scope.

Lemma strip2_ratio : forall n d n' d', strip2 n d = (n', d') -> Zpos n * Zpos d' = Zpos n' * Zpos d.
Proof. induction n as [n IH|n IH|]; intros d n' d' H; cbn [strip2] in H.
  - injection H as <- <-. reflexivity.
  - destruct d as [d|d|]; try (injection H as <- <-; reflexivity).
    apply IH in H. rewrite (Pos2Z.inj_xO n), (Pos2Z.inj_xO d). lia.
  - injection H as <- <-. reflexivity. Qed.

Lemma dred_eq : forall q : Q, (dred q == q)%Q.
Proof. intros [n d]. unfold dred. cbn [Qnum Qden]. destruct n as [|n|n].
  - unfold Qeq; reflexivity.
  - destruct (strip2 n d) as [n' d'] eqn:E. apply strip2_ratio in E. unfold Qeq. cbn [Qnum Qden]. lia.
  - destruct (strip2 n d) as [n' d'] eqn:E. apply strip2_ratio in E. unfold Qeq. cbn [Qnum Qden].
    rewrite <- !Pos2Z.opp_pos. lia. Qed.

Lemma pshift_mul : forall p d, pshift p d = (p * d)%positive.
Proof. intros p d. induction d as [d IH|d IH|]; cbn [pshift].
  - reflexivity.
  - rewrite IH. lia.
  - lia. Qed.

Lemma zshift_mul : forall z d, zshift z d = z * Zpos d.
Proof. intros [|p|p] d; cbn [zshift]; rewrite ?pshift_mul; reflexivity. Qed.

Lemma dadd_spec : forall d1 n1 n2 d2 n d, dadd n1 d1 n2 d2 = (n, d) ->
  n * (Zpos d1 * Zpos d2) = (n1 * Zpos d2 + n2 * Zpos d1) * Zpos d.
Proof. induction d1 as [d1 IH|d1 IH|]; intros n1 n2 d2 n d H.
  - destruct d2 as [d2|d2|]; cbn [dadd] in H; injection H as <- <-; rewrite ?zshift_mul; lia.
  - destruct d2 as [d2|d2|]; cbn [dadd] in H.
    + injection H as <- <-. lia.
    + destruct (dadd n1 d1 n2 d2) as [n0 d0] eqn:E. injection H as <- <-. apply IH in E.
      rewrite (Pos2Z.inj_xO d1), (Pos2Z.inj_xO d2), (Pos2Z.inj_xO d0). nia.
    + injection H as <- <-. rewrite zshift_mul. lia.
  - cbn [dadd] in H. injection H as <- <-. rewrite zshift_mul. lia. Qed.

Theorem qadd_Qplus : forall a b : Q, (qadd a b == a + b)%Q.
Proof. intros [n1 d1] [n2 d2]. unfold qadd. cbn [Qnum Qden].
  destruct (dadd n1 d1 n2 d2) as [n d] eqn:E. rewrite dred_eq. apply dadd_spec in E.
  unfold Qeq, Qplus. cbn [Qnum Qden]. rewrite Pos2Z.inj_mul. lia. Qed.

Theorem qmulq_Qmult : forall a b : Q, (qmulq a b == a * b)%Q.
Proof. intros [n1 d1] [n2 d2]. unfold qmulq. cbn [Qnum Qden]. rewrite dred_eq, pshift_mul.
  unfold Qeq, Qmult. cbn [Qnum Qden]. reflexivity. Qed.

Theorem Qo_sub_Qminus : forall a b : Q, (sub Qo a b == a - b)%Q.
Proof. intros a b. cbn [sub Qo]. rewrite qadd_Qplus. reflexivity. Qed.

Theorem Qo_div_Qdiv : forall a b : Q, (div Qo a b == a / b)%Q.
Proof. intros a b. cbn [div Qo]. apply dred_eq. Qed.

(* all four field operations, the constants and the comparison of the running dictionary, at once *)
Theorem Qo_is_Q : forall a b : Q,
  (add Qo a b == a + b)%Q /\ (mul Qo a b == a * b)%Q /\ (sub Qo a b == a - b)%Q /\ (div Qo a b == a / b)%Q /\
  (opp Qo a == - a)%Q /\ (zero Qo == 0)%Q /\ (one Qo == 1)%Q /\ (leb Qo a b = true <-> (a <= b)%Q).
Proof. intros a b. repeat split; try reflexivity.
  - apply qadd_Qplus. - apply qmulq_Qmult. - apply Qo_sub_Qminus. - apply Qo_div_Qdiv.
  - intro H. apply Qle_bool_iff. exact H.
  - intro H. apply Qle_bool_iff. exact H. Qed.
