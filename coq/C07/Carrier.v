(* C07 — "one generic definition, two carriers" (DESIGN 2.4).
   Geometric formulas are written once over a record of field operations; the instance [Qo]
   runs (vm_compute / extraction) on the exact rational value of every float the implementation
   used, the instance [Ro] carries the theorems (ring / field / lra / nra).  Definitions only. *)
From Coq Require Import QArith Qreduction Reals.

Record ops (K : Type) : Type := mkOps {
  zero : K; one : K;
  add : K -> K -> K; mul : K -> K -> K; sub : K -> K -> K; opp : K -> K;
  div : K -> K -> K;
  leb : K -> K -> bool
}.
Arguments zero {K} _. Arguments one {K} _. Arguments add {K} _ _ _. Arguments mul {K} _ _ _.
Arguments sub {K} _ _ _. Arguments opp {K} _ _. Arguments div {K} _ _ _. Arguments leb {K} _ _ _.

(* rationals.  Every number of a correspondence run is a dyadic rational (floats, and halves of
   them), so instead of a gcd after each operation the common power of two is stripped: exact, lowest
   terms on dyadics, and linear instead of quadratic on the extracted binary integers. *)
Fixpoint strip2 (n d : positive) : positive * positive :=
  match n, d with
  | xO n', xO d' => strip2 n' d'
  | _, _ => (n, d)
  end.
Definition dred (q : Q) : Q :=
  match Qnum q with
  | Z0 => 0%Q
  | Zpos n => let (n', d') := strip2 n (Qden q) in Zpos n' # d'
  | Zneg n => let (n', d') := strip2 n (Qden q) in Zneg n' # d'
  end.
(* p * d, by shifting while d is even (d is a power of two on dyadics) *)
Fixpoint pshift (p d : positive) : positive :=
  match d with xO d' => xO (pshift p d') | xH => p | xI _ => Pos.mul p d end.
Definition zshift (z : Z) (d : positive) : Z :=
  match z with Z0 => Z0 | Zpos p => Zpos (pshift p d) | Zneg p => Zneg (pshift p d) end.
(* n1/d1 + n2/d2 as (numerator, denominator): the common power of two of the denominators is never
   multiplied out; exact for all rationals *)
Fixpoint dadd (n1 : Z) (d1 : positive) (n2 : Z) (d2 : positive) : Z * positive :=
  match d1, d2 with
  | xO d1', xO d2' => let (n, d) := dadd n1 d1' n2 d2' in (n, xO d)
  | xH, _ => (Z.add (zshift n1 d2) n2, d2)
  | _, xH => (Z.add n1 (zshift n2 d1), d1)
  | _, _ => (Z.add (Z.mul n1 (Zpos d2)) (Z.mul n2 (Zpos d1)), Pos.mul d1 d2)
  end.
Definition qadd (a b : Q) : Q := let (n, d) := dadd (Qnum a) (Qden a) (Qnum b) (Qden b) in dred (n # d).
Definition qmulq (a b : Q) : Q := dred (Z.mul (Qnum a) (Qnum b) # pshift (Qden a) (Qden b)).
Definition Qo : ops Q := {|
  zero := 0%Q; one := 1%Q;
  add := qadd; mul := qmulq;
  sub := fun a b => qadd a (Qopp b); opp := fun a => Qopp a;
  div := fun a b => dred (a / b);
  leb := Qle_bool |}.

(* sanity: the optimised operations agree with Q's own on non-dyadic samples too *)
Example Qo_ops_sane :
  (Qeq_bool (qadd (3 # 20) (-7 # 12)) ((3 # 20) + (-7 # 12)) &&
   Qeq_bool (qadd (5 # 8) (3 # 32)) ((5 # 8) + (3 # 32)) &&
   Qeq_bool (qadd (-5 # 1) (3 # 64)) ((-5 # 1) + (3 # 64)) &&
   Qeq_bool (qmulq (-5 # 6) (9 # 40)) ((-5 # 6) * (9 # 40)) &&
   Qeq_bool (div Qo (7 # 4) (1 + 1)) (7 # 8))%bool = true.
Proof. vm_compute. reflexivity. Qed.

Definition Ro : ops R := {|
  zero := 0%R; one := 1%R;
  add := Rplus; mul := Rmult; sub := Rminus; opp := Ropp;
  div := Rdiv;
  leb := fun a b => if Rle_dec a b then true else false |}.

(* unfold the dictionary [Ro] (and nothing of the reals) in a goal *)
Ltac unfold_Ro := cbv [Ro zero one add mul sub opp div].
