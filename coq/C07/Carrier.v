(* C07 — "one generic definition, two carriers" (DESIGN 2.4).
   Geometric formulas are written once over a record of field operations; the instance [Qo]
   runs (vm_compute / extraction) on the exact rational value of every float the implementation
   used, the instance [Ro] carries the theorems (ring / field / lra / nra).  Definitions only. *)
From Coq Require Import QArith Qreduction Reals.

Record ops (K : Type) : Type := mkOps {
  zero : K; one : K;
  add : K -> K -> K; mul : K -> K -> K; sub : K -> K -> K; opp : K -> K;
  div : K -> K -> K;
  leb : K -> K -> bool
}.
Arguments zero {K} _. Arguments one {K} _. Arguments add {K} _ _ _. Arguments mul {K} _ _ _.
Arguments sub {K} _ _ _. Arguments opp {K} _ _. Arguments div {K} _ _ _. Arguments leb {K} _ _ _.

(* rationals, kept in lowest terms so that long products of dyadic floats stay small *)
Definition Qo : ops Q := {|
  zero := 0%Q; one := 1%Q;
  add := fun a b => Qred (a + b); mul := fun a b => Qred (a * b);
  sub := fun a b => Qred (a - b); opp := fun a => Qopp a;
  div := fun a b => Qred (a / b);
  leb := Qle_bool |}.

Definition Ro : ops R := {|
  zero := 0%R; one := 1%R;
  add := Rplus; mul := Rmult; sub := Rminus; opp := Ropp;
  div := Rdiv;
  leb := fun a b => if Rle_dec a b then true else false |}.

(* unfold the dictionary [Ro] (and nothing of the reals) in a goal *)
Ltac unfold_Ro := cbv [Ro zero one add mul sub opp div].
