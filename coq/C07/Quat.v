(* C07 — quaternions (x,y,z,w) over a generic carrier, as scipy's Rotation / scenic's Orientation
   use them (definitions only).  Orientation.__mul__ is the Hamilton product; rotating a vector is
   the sandwich q (v,0) q*, which for unit q is scipy's Rotation.apply. *)
From Scenic Require Import C07.Carrier C07.Vec3.

Section Quat.
Context {K : Type} (o : ops K).
Local Infix "+" := (add o). Local Infix "*" := (mul o). Local Infix "-" := (sub o).
Local Notation "- x" := (opp o x).

Definition quat : Type := (K * K * K * K)%type.
Definition qx (q : quat) : K := fst (fst (fst q)).
Definition qy (q : quat) : K := snd (fst (fst q)).
Definition qz (q : quat) : K := snd (fst q).
Definition qw (q : quat) : K := snd q.

Definition qid : quat := (zero o, zero o, zero o, one o).          (* globalOrientation *)

(* Hamilton product (Orientation.__mul__ = scipy Rotation.__mul__): "A followed by B" (intrinsic) is A*B *)
Definition qmul (a b : quat) : quat :=
  ( qw a * qx b + qx a * qw b + qy a * qz b - qz a * qy b,
    qw a * qy b - qx a * qz b + qy a * qw b + qz a * qx b,
    qw a * qz b + qx a * qy b - qy a * qx b + qz a * qw b,
    qw a * qw b - qx a * qx b - qy a * qy b - qz a * qz b ).

Definition qconj (q : quat) : quat := (- qx q, - qy q, - qz q, qw q).   (* Orientation.inverse, unit q *)
Definition qneg (q : quat) : quat := (- qx q, - qy q, - qz q, - qw q).  (* same rotation *)
Definition qnorm2 (q : quat) : K := qx q * qx q + qy q * qy q + qz q * qz q + qw q * qw q.
Definition qdot (a b : quat) : K := qx a * qx b + qy a * qy b + qz a * qz b + qw a * qw b.

(* vector part of q (v,0) q*  (Vector.applyRotation / rotatedBy(Orientation)) *)
Definition rotate (q : quat) (v : vec) : vec :=
  let p := qmul (qmul q (vx v, vy v, vz v, zero o)) (qconj q) in (qx p, qy p, qz p).

(* ---- angles enter as half-angle pairs (c, s) = (cos(a/2), sin(a/2)), constrained by c^2+s^2=1 *)
Definition ang : Type := (K * K)%type.
Definition ahc (a : ang) : K := fst a.
Definition ahs (a : ang) : K := snd a.
Definition a0 : ang := (one o, zero o).
Definition acos (a : ang) : K := ahc a * ahc a - ahs a * ahs a.     (* cos of the full angle *)
Definition asin (a : ang) : K := (one o + one o) * (ahs a * ahc a). (* sin of the full angle *)
Definition aneg (a : ang) : ang := (ahc a, - ahs a).
Definition anorm2 (a : ang) : K := ahc a * ahc a + ahs a * ahs a.

Definition rotZ (a : ang) : quat := (zero o, zero o, ahs a, ahc a).
Definition rotX (a : ang) : quat := (ahs a, zero o, zero o, ahc a).
Definition rotY (a : ang) : quat := (zero o, ahs a, zero o, ahc a).

(* Orientation._fromHeading: rotation about +Z *)
Definition from_heading (a : ang) : quat := rotZ a.
(* Orientation.fromEuler(yaw,pitch,roll) = scipy from_euler("ZXY", …): intrinsic Z, then X, then Y *)
Definition from_euler (yaw pitch roll : ang) : quat := qmul (qmul (rotZ yaw) (rotX pitch)) (rotY roll).
End Quat.
