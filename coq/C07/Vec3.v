(* C07 — 3-vectors over a generic carrier (definitions only; mirrors scenic.core.vectors.Vector). *)
From Scenic Require Import C07.Carrier.

Section Vec3.
Context {K : Type} (o : ops K).
Local Infix "+" := (add o). Local Infix "*" := (mul o). Local Infix "-" := (sub o).
Local Notation "- x" := (opp o x).

Definition vec : Type := (K * K * K)%type.
Definition vx (v : vec) : K := fst (fst v).
Definition vy (v : vec) : K := snd (fst v).
Definition vz (v : vec) : K := snd v.

Definition vzero : vec := (zero o, zero o, zero o).
Definition vadd (a b : vec) : vec := (vx a + vx b, vy a + vy b, vz a + vz b).     (* Vector.__add__ *)
Definition vsub (a b : vec) : vec := (vx a - vx b, vy a - vy b, vz a - vz b).     (* Vector.__sub__ *)
Definition vneg (a : vec) : vec := (- vx a, - vy a, - vz a).
Definition vscale (k : K) (a : vec) : vec := (k * vx a, k * vy a, k * vz a).      (* Vector.__mul__ *)
Definition vdot (a b : vec) : K := vx a * vx b + vy a * vy b + vz a * vz b.       (* Vector.dot *)
Definition vcross (a b : vec) : vec :=
  (vy a * vz b - vz a * vy b, vz a * vx b - vx a * vz b, vx a * vy b - vy a * vx b).
Definition vnorm2 (a : vec) : K := vdot a a.

(* the three unit axes of a local frame: right (+X), forward (+Y), up (+Z) *)
Definition ex : vec := (one o, zero o, zero o).
Definition ey : vec := (zero o, one o, zero o).
Definition ez : vec := (zero o, zero o, one o).
End Vec3.
