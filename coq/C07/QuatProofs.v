(* C07 — lemmas about vectors and quaternions over the carrier R (ring identities). *)
From Coq Require Import Reals Lra.
From Scenic Require Import C07.Carrier C07.Vec3 C07.Quat.
Open Scope R_scope.

Lemma vec_eq : forall (a b c a' b' c' : R), a = a' -> b = b' -> c = c' -> (a, b, c) = (a', b', c').
Proof. intros; subst; reflexivity. Qed.
Lemma quat_eq : forall (a b c d a' b' c' d' : R), a = a' -> b = b' -> c = c' -> d = d' ->
  (a, b, c, d) = (a', b', c', d').
Proof. intros; subst; reflexivity. Qed.

Ltac unf := cbv [rotate qmul qconj qneg qnorm2 qdot qid qx qy qz qw
                 vadd vsub vneg vscale vdot vcross vnorm2 vzero vx vy vz ex ey ez
                 rotZ rotX rotY from_heading from_euler acos asin aneg anorm2 ahc ahs a0
                 fst snd Ro zero one add mul sub opp div].
Ltac dq q := destruct q as [[[? ?] ?] ?].
Ltac dv v := destruct v as [[? ?] ?].
Ltac da a := destruct a as [? ?].
Ltac veq := apply vec_eq; ring.
Ltac qeq := apply quat_eq; ring.

Notation Rquat := (@quat R). Notation Rvec := (@vec R). Notation Rang := (@ang R).

Lemma qmul_assoc : forall a b c : Rquat, qmul Ro (qmul Ro a b) c = qmul Ro a (qmul Ro b c).
Proof. intros a b c; dq a; dq b; dq c; unf; qeq. Qed.

Lemma qmul_id_l : forall q : Rquat, qmul Ro (qid Ro) q = q.
Proof. intros q; dq q; unf; qeq. Qed.
Lemma qmul_id_r : forall q : Rquat, qmul Ro q (qid Ro) = q.
Proof. intros q; dq q; unf; qeq. Qed.

Lemma qmul_conj_r_gen : forall q : Rquat, qmul Ro q (qconj Ro q) = (0, 0, 0, qnorm2 Ro q).
Proof. intros q; dq q; unf; qeq. Qed.
Lemma qmul_conj_l_gen : forall q : Rquat, qmul Ro (qconj Ro q) q = (0, 0, 0, qnorm2 Ro q).
Proof. intros q; dq q; unf; qeq. Qed.

Lemma qinv_r : forall q : Rquat, qnorm2 Ro q = 1 -> qmul Ro q (qconj Ro q) = qid Ro.
Proof. intros q H; rewrite qmul_conj_r_gen, H; reflexivity. Qed.
Lemma qinv_l : forall q : Rquat, qnorm2 Ro q = 1 -> qmul Ro (qconj Ro q) q = qid Ro.
Proof. intros q H; rewrite qmul_conj_l_gen, H; reflexivity. Qed.

Lemma qnorm2_mul : forall a b : Rquat, qnorm2 Ro (qmul Ro a b) = qnorm2 Ro a * qnorm2 Ro b.
Proof. intros a b; dq a; dq b; unf; ring. Qed.
Lemma qnorm2_conj : forall q : Rquat, qnorm2 Ro (qconj Ro q) = qnorm2 Ro q.
Proof. intros q; dq q; unf; ring. Qed.
Lemma qconj_mul : forall a b : Rquat, qconj Ro (qmul Ro a b) = qmul Ro (qconj Ro b) (qconj Ro a).
Proof. intros a b; dq a; dq b; unf; qeq. Qed.
Lemma qconj_conj : forall q : Rquat, qconj Ro (qconj Ro q) = q.
Proof. intros q; dq q; unf; qeq. Qed.

(* rotation: composition, identity, scalar quaternions *)
Lemma rotate_compose : forall (q1 q2 : Rquat) (v : Rvec),
  rotate Ro (qmul Ro q1 q2) v = rotate Ro q1 (rotate Ro q2 v).
Proof. intros q1 q2 v; dq q1; dq q2; dv v; unf; veq. Qed.

Lemma rotate_scalar : forall (n : R) (v : Rvec), rotate Ro (0, 0, 0, n) v = vscale Ro (n * n) v.
Proof. intros n v; dv v; unf; veq. Qed.

Lemma rotate_id : forall v : Rvec, rotate Ro (qid Ro) v = v.
Proof. intros v; dv v; unf; veq. Qed.

Lemma vscale_1 : forall v : Rvec, vscale Ro 1 v = v.
Proof. intros v; dv v; unf; veq. Qed.

Lemma rotate_inv_l : forall (q : Rquat) (v : Rvec), qnorm2 Ro q = 1 ->
  rotate Ro (qconj Ro q) (rotate Ro q v) = v.
Proof. intros q v H. rewrite <- rotate_compose, qmul_conj_l_gen, H, rotate_scalar.
  replace (1 * 1) with 1 by ring. apply vscale_1. Qed.
Lemma rotate_inv_r : forall (q : Rquat) (v : Rvec), qnorm2 Ro q = 1 ->
  rotate Ro q (rotate Ro (qconj Ro q) v) = v.
Proof. intros q v H. rewrite <- rotate_compose, qmul_conj_r_gen, H, rotate_scalar.
  replace (1 * 1) with 1 by ring. apply vscale_1. Qed.

Lemma rotate_dot_gen : forall (q : Rquat) (u v : Rvec),
  vdot Ro (rotate Ro q u) (rotate Ro q v) = qnorm2 Ro q * qnorm2 Ro q * vdot Ro u v.
Proof. intros q u v; dq q; dv u; dv v; unf; ring. Qed.

Lemma rotate_dot : forall (q : Rquat) (u v : Rvec), qnorm2 Ro q = 1 ->
  vdot Ro (rotate Ro q u) (rotate Ro q v) = vdot Ro u v.
Proof. intros q u v H; rewrite rotate_dot_gen, H; ring. Qed.

Lemma rotate_linear_add : forall (q : Rquat) (u v : Rvec),
  rotate Ro q (vadd Ro u v) = vadd Ro (rotate Ro q u) (rotate Ro q v).
Proof. intros q u v; dq q; dv u; dv v; unf; veq. Qed.
Lemma rotate_linear_sub : forall (q : Rquat) (u v : Rvec),
  rotate Ro q (vsub Ro u v) = vsub Ro (rotate Ro q u) (rotate Ro q v).
Proof. intros q u v; dq q; dv u; dv v; unf; veq. Qed.
Lemma rotate_linear_scale : forall (q : Rquat) (k : R) (v : Rvec),
  rotate Ro q (vscale Ro k v) = vscale Ro k (rotate Ro q v).
Proof. intros q k v; dq q; dv v; unf; veq. Qed.
Lemma rotate_neg_quat : forall (q : Rquat) (v : Rvec), rotate Ro (qneg Ro q) v = rotate Ro q v.
Proof. intros q v; dq q; dv v; unf; veq. Qed.

(* distances are preserved: |R u - R v|^2 = |u - v|^2 *)
Lemma rotate_isometry : forall (q : Rquat) (u v : Rvec), qnorm2 Ro q = 1 ->
  vnorm2 Ro (vsub Ro (rotate Ro q u) (rotate Ro q v)) = vnorm2 Ro (vsub Ro u v).
Proof. intros q u v H. rewrite <- rotate_linear_sub. unfold vnorm2. apply rotate_dot; exact H. Qed.

(* Euler / heading quaternions are unit when the half-angle pairs are *)
Lemma rot_norms : forall a : Rang, qnorm2 Ro (rotZ Ro a) = anorm2 Ro a /\
  qnorm2 Ro (rotX Ro a) = anorm2 Ro a /\ qnorm2 Ro (rotY Ro a) = anorm2 Ro a.
Proof. intros a; da a; unf; repeat split; ring. Qed.
Lemma from_euler_unit : forall y p r : Rang, anorm2 Ro y = 1 -> anorm2 Ro p = 1 -> anorm2 Ro r = 1 ->
  qnorm2 Ro (from_euler Ro y p r) = 1.
Proof. intros y p r Hy Hp Hr. unfold from_euler. rewrite !qnorm2_mul.
  destruct (rot_norms y) as [-> _]. destruct (rot_norms p) as [_ [-> _]].
  destruct (rot_norms r) as [_ [_ ->]]. rewrite Hy, Hp, Hr; ring. Qed.

(* heading 0 = +Y, positive = counter-clockwise (seen from +Z) *)
Lemma heading_convention_alg : forall a : Rang,
  rotate Ro (from_heading Ro a) (ey Ro) = (- asin Ro a, acos Ro a, 0).
Proof. intros a; da a; unf; veq. Qed.

Lemma heading_convention : forall theta : R,
  rotate Ro (from_heading Ro (cos (theta / 2), sin (theta / 2))) (ey Ro) = (- sin theta, cos theta, 0).
Proof. intros theta. rewrite heading_convention_alg. unf.
  set (h := theta / 2). replace theta with (2 * h) by (unfold h; field).
  rewrite sin_2a, cos_2a. apply vec_eq; ring. Qed.

(* yaw-only Euler = heading *)
Lemma from_euler_heading : forall a : Rang, from_euler Ro a (a0 Ro) (a0 Ro) = from_heading Ro a.
Proof. intros a; da a; unf; qeq. Qed.

