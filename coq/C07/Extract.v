(* Extraction of the C07 model (carrier Q) to OCaml.  ExtrOcamlBasic only; Z, positive, nat, Q stay
   the extracted inductive types. *)
From Coq Require Import QArith List.
From Coq Require Extraction.
From Coq Require Import ExtrOcamlBasic.
From Scenic Require Import C07.Cases.
Extraction Language OCaml.
Extraction "model.ml" run_case.
