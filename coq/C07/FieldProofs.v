(* C07 (round 2) — vector fields (`facing <field>`, `following`, `offset along <field>`), `on`, the executable
   [gap_along] fold tied to the all-corner-pairs statement, and the Euler-angle round trip away from gimbal
   lock.  Carrier R unless stated otherwise. *)
From Coq Require Import Reals Lra Lia List Nsatz QArith Psatz.
From Scenic Require Import C07.Carrier C07.Vec3 C07.Quat C07.QuatProofs C07.Geometry C07.GeometryProofs.
Import ListNotations.
Open Scope R_scope.

Notation Rfield := (Rvec -> Rquat).

(* ---------------------------------------------------------------- facing <field> *)
(* whatever the (unit) parent orientation, the object's global orientation is the field's value at its
   position *)
Lemma facing_field_global : forall (parent : Rquat) (F : Rfield) (pos : Rvec), unitq parent ->
  facing_field_orientation Ro parent F pos = F pos.
Proof. intros parent F pos H. unfold facing_field_orientation, facing_field_local.
  rewrite <- qmul_assoc, (qinv_r parent H). apply qmul_id_l. Qed.

(* the order of the product matters: with the operands swapped (F pos * parent^-1) the global orientation
   is parent * F pos * parent^-1, which differs from F pos as soon as they do not commute *)
Lemma facing_field_order_matters :
  exists (parent f : Rquat), unitq parent /\ unitq f /\
    qmul Ro parent (qmul Ro f (qconj Ro parent)) <> f /\
    qmul Ro parent (qmul Ro f (qconj Ro parent)) <> qneg Ro f.
Proof.
  exists (3/5, 0, 0, 4/5), (0, 0, 3/5, 4/5). unfold unitq. split; [unf; lra|]. split; [unf; lra|]. split.
  - intro E. assert (X := f_equal (@qy R) E). revert X. unf. lra.
  - intro E. assert (X := f_equal (@qw R) E). revert X. unf. lra.
Qed.

(* X relative to Y on fields: rotating by the result = rotating by X's value, then by Y's *)
Lemma relative_to_field_rotate : forall (X Y : Rfield) (pos v : Rvec),
  rotate Ro (relative_to_field Ro X Y pos) v = rotate Ro (Y pos) (rotate Ro (X pos) v).
Proof. intros. unfold relative_to_field, relative_to_orient. apply rotate_compose. Qed.

Lemma offset_along_field_frame : forall (x : Rvec) (F : Rfield) (v : Rvec), unitq (F x) ->
  to_local Ro x (F x) (offset_along_field Ro x F v) = v.
Proof. intros. unfold offset_along_field. apply offset_along_frame; assumption. Qed.

(* ---------------------------------------------------------------- apparently facing (repaired, F21) *)
(* if the line of sight from P to the object, expressed in the parent frame, has azimuth al (rho = its planar
   length), then with yaw := al + H the object's planar forward axis in the parent frame, (-sin yaw, cos yaw),
   is that line of sight turned by H: the object has heading H with respect to the line of sight, whatever the
   parent orientation (and `apparently facing 0 from P` = `facing away from P`) *)
Lemma apparently_facing_spec : forall (parent : Rquat) (pos p : Rvec) (h al : Rang) (rho : R),
  unita h -> unita al ->
  xy (sight_local Ro parent pos p true) = (rho * - asin Ro al, rho * acos Ro al) ->
  let yaw := aadd Ro al h in
  turn_res Ro h (xy (sight_local Ro parent pos p true)) (- asin Ro yaw, acos Ro yaw) = 0 /\
  turn_dot Ro h (xy (sight_local Ro parent pos p true)) (- asin Ro yaw, acos Ro yaw) = rho /\
  forward Ro (orientation_of Ro parent yaw (a0 Ro) (a0 Ro)) = rotate Ro parent (- asin Ro yaw, acos Ro yaw, 0).
Proof. intros parent pos p h al rho Hh Ha Hd yaw. split; [|split]; [| |apply facing_toward_forward].
  - rewrite Hd. unfold yaw. da h; da al. unfold unita in *. revert Hh Ha. unfall. intros Hh Ha. nsatz.
  - rewrite Hd. unfold yaw. da h; da al. unfold unita in *. revert Hh Ha. unfall. intros Hh Ha. nsatz.
Qed.

(* ---------------------------------------------------------------- following *)
Lemma follow_eq_rec : forall (F : Rfield) n step pos,
  follow Ro F n step pos = follow_rec Ro (map F (visited Ro F n step pos)) step pos.
Proof. intros F n step. induction n as [|n IH]; intro pos; [reflexivity|]. cbn [follow visited map follow_rec].
  apply IH. Qed.

Lemma visited_length : forall (F : Rfield) n step pos, length (visited Ro F n step pos) = n.
Proof. intros F n step. induction n as [|n IH]; intro pos; [reflexivity|]. cbn [visited length]. now rewrite IH. Qed.

(* every step has length |step| *)
Lemma follow_step_length : forall (q : Rquat) (step : R) (pos : Rvec), unitq q ->
  vnorm2 Ro (vsub Ro (follow_step Ro q step pos) pos) = step * step.
Proof. intros q step pos H. unfold follow_step. rewrite vadd_sub_cancel. unfold vnorm2.
  rewrite (rotate_dot q _ _ H). unf. ring. Qed.

(* each step goes along the field's forward axis at the current position *)
Lemma follow_step_forward : forall (q : Rquat) (step : R) (pos : Rvec),
  vsub Ro (follow_step Ro q step pos) pos = vscale Ro step (forward Ro q).
Proof. intros q step pos. unfold follow_step, forward. rewrite vadd_sub_cancel, <- rotate_linear_scale.
  f_equal. unf. apply vec_eq; ring. Qed.

(* in a constant field, following for n steps of length s is a straight move by n*s along its forward axis *)
Lemma follow_const : forall (F : Rfield) (q : Rquat) n step pos, (forall p, F p = q) ->
  follow Ro F n step pos = vadd Ro pos (vscale Ro (INR n * step) (forward Ro q)).
Proof. intros F q n step pos HF. revert pos. induction n as [|n IH]; intro pos.
  - cbn [follow INR]. dv pos. generalize (forward Ro q); intro f; dv f. unf. apply vec_eq; ring.
  - cbn [follow]. rewrite IH, HF. rewrite S_INR.
    assert (E : follow_step Ro q step pos = vadd Ro pos (vscale Ro step (forward Ro q))).
    { rewrite <- (follow_step_forward q step pos). generalize (follow_step Ro q step pos); intro u.
      dv pos; dv u; unf; apply vec_eq; ring. }
    rewrite E. generalize (forward Ro q); intro f. dv pos; dv f. unf. apply vec_eq; ring. Qed.

(* n equal steps of D/n cover D *)
Lemma follow_const_distance : forall (F : Rfield) (q : Rquat) n D pos, (forall p, F p = q) -> (0 < n)%nat ->
  follow Ro F n (D / INR n) pos = vadd Ro pos (vscale Ro D (forward Ro q)).
Proof. intros F q n D pos HF Hn. rewrite (follow_const F q n _ pos HF). do 2 f_equal.
  field. apply not_0_INR. lia. Qed.

(* the squared distance covered by n steps is at most (n*step)^2 (triangle inequality, squared form) *)
Lemma norm2_add_bound : forall (u v : Rvec) (a b : R), 0 <= a -> 0 <= b ->
  vnorm2 Ro u <= a * a -> vnorm2 Ro v <= b * b -> vnorm2 Ro (vadd Ro u v) <= (a + b) * (a + b).
Proof. intros u v a b Ha Hb Hu Hv. dv u; dv v. revert Hu Hv. unf. intros Hu Hv.
  (* Cauchy-Schwarz: (u.v)^2 <= |u|^2 |v|^2 <= (ab)^2, hence u.v <= ab *)
  assert (CS : (r * r2 + r0 * r3 + r1 * r4) * (r * r2 + r0 * r3 + r1 * r4)
               <= (r * r + r0 * r0 + r1 * r1) * (r2 * r2 + r3 * r3 + r4 * r4)).
  { match goal with |- ?a <= ?b =>
      replace b with (a + (Rsqr (r * r3 - r0 * r2) + Rsqr (r * r4 - r1 * r2) + Rsqr (r0 * r4 - r1 * r3)))
        by (unfold Rsqr; ring) end.
    pose proof (Rle_0_sqr (r * r3 - r0 * r2)). pose proof (Rle_0_sqr (r * r4 - r1 * r2)).
    pose proof (Rle_0_sqr (r0 * r4 - r1 * r3)). lra. }
  assert (P1 : 0 <= r * r + r0 * r0 + r1 * r1) by nra.
  assert (P2 : 0 <= r2 * r2 + r3 * r3 + r4 * r4) by nra.
  assert (B : (r * r + r0 * r0 + r1 * r1) * (r2 * r2 + r3 * r3 + r4 * r4) <= (a * a) * (b * b)).
  { apply Rmult_le_compat; assumption. }
  assert (D : r * r2 + r0 * r3 + r1 * r4 <= a * b).
  { destruct (Rle_or_lt (r * r2 + r0 * r3 + r1 * r4) (a * b)) as [L|L]; [exact L|].
    assert (0 <= a * b) by (apply Rmult_le_pos; assumption). nra. }
  nra. Qed.

Lemma follow_distance_bound : forall (F : Rfield) n step pos, (forall p, unitq (F p)) ->
  vnorm2 Ro (vsub Ro (follow Ro F n step pos) pos) <= (INR n * Rabs step) * (INR n * Rabs step).
Proof. intros F n step pos HF. revert pos. induction n as [|n IH]; intro pos.
  - cbn [follow INR]. dv pos. unf. nra.
  - cbn [follow]. set (p1 := follow_step Ro (F pos) step pos).
    replace (vsub Ro (follow Ro F n step p1) pos)
      with (vadd Ro (vsub Ro (follow Ro F n step p1) p1) (vsub Ro p1 pos)).
    2:{ generalize (follow Ro F n step p1); intro u. dv u; dv p1; dv pos. unf. apply vec_eq; ring. }
    rewrite S_INR. replace ((INR n + 1) * Rabs step) with (INR n * Rabs step + Rabs step) by ring.
    apply norm2_add_bound.
    + apply Rmult_le_pos; [apply pos_INR | apply Rabs_pos].
    + apply Rabs_pos.
    + apply IH.
    + unfold p1. rewrite (follow_step_length _ _ _ (HF pos)).
      rewrite <- (Rabs_mult step step), Rabs_right; [lra | nra]. Qed.

(* ---------------------------------------------------------------- on *)
(* the centre of the new object, in the frame of the surface point and surface orientation, is the contact
   offset (0,0,ct/2) - baseOffset *)
Lemma on_frame : forall (p : Rvec) (q : Rquat) (ct : R) (base : Rvec), unitq q ->
  to_local Ro p q (fst (on_pos Ro p q ct base)) = on_offset Ro ct base /\ snd (on_pos Ro p q ct base) = q.
Proof. intros p q ct base H. split; [|reflexivity]. unfold on_pos, fst.
  apply (to_local_offset_locally p q _ H). Qed.

(* with the default baseOffset (0,0,-height/2) and the inherited orientation, every point s of the new box is
   ct/2 + (1 + s.z) * height/2 above the surface point along the surface normal: the bottom face is exactly
   contactTolerance/2 above it *)
Lemma on_gap : forall (p : Rvec) (q : Rquat) (ct : R) (dims s : Rvec), unitq q ->
  vz (to_local Ro p q (box_point Ro (fst (on_pos Ro p q ct (default_base Ro dims))) q dims s))
  = ct / 2 + (1 + vz s) * (vz dims / 2).
Proof. intros p q ct dims s H. unfold on_pos, fst.
  change (vadd Ro p (rotate Ro q (on_offset Ro ct (default_base Ro dims))))
    with (offset_locally Ro p q (on_offset Ro ct (default_base Ro dims))).
  rewrite (to_local_box_point _ _ _ _ _ H). dv dims; dv s.
  cbv [on_offset default_base]. unfall. field. Qed.

Lemma on_gap_corners : forall (p : Rvec) (q : Rquat) (ct : R) (dims s : Rvec), unitq q -> 0 <= vz dims ->
  In s (corner_signs Ro) ->
  ct / 2 <= vz (to_local Ro p q (box_point Ro (fst (on_pos Ro p q ct (default_base Ro dims))) q dims s)).
Proof. intros p q ct dims s H Hd Is. rewrite (on_gap p q ct dims s H).
  assert (A : 0 <= 1 + vz s).
  { cbv [corner_signs In m1 Ro one opp] in Is.
    repeat (destruct Is as [<- | Is]; [unf; lra|]); destruct Is. }
  assert (0 <= (1 + vz s) * (vz dims / 2)) by (apply Rmult_le_pos; lra). lra. Qed.

(* ---------------------------------------------------------------- the executable fold [gap_along] *)
Section Fold.
Context {K : Type} (o : ops K) (le : K -> K -> Prop).
Hypothesis le_refl : forall a, le a a.
Hypothesis le_trans : forall a b c, le a b -> le b c -> le a c.
Hypothesis leb_true : forall a b, leb o a b = true -> le a b.
Hypothesis leb_false : forall a b, leb o a b = false -> le b a.

Lemma fold_min_spec : forall l x,
  In (fold_left (kmin o) l x) (x :: l) /\ forall y, In y (x :: l) -> le (fold_left (kmin o) l x) y.
Proof. induction l as [|a l IH]; intro x; cbn [fold_left].
  - split; [left; reflexivity|]. intros y [<-|[]]. apply le_refl.
  - destruct (IH (kmin o x a)) as [I L]. unfold kmin in *. destruct (leb o x a) eqn:E.
    + split.
      * destruct I as [I|I]; [left; exact I | right; right; exact I].
      * intros y [<-|[<-|Hy]].
        -- apply L; left; reflexivity.
        -- apply le_trans with x; [apply L; left; reflexivity | apply leb_true; exact E].
        -- apply L; right; exact Hy.
    + split.
      * destruct I as [I|I]; [right; left; exact I | right; right; exact I].
      * intros y [<-|[<-|Hy]].
        -- apply le_trans with a; [apply L; left; reflexivity | apply leb_false; exact E].
        -- apply L; left; reflexivity.
        -- apply L; right; exact Hy.
Qed.

Lemma fold_max_spec : forall l x,
  In (fold_left (kmax o) l x) (x :: l) /\ forall y, In y (x :: l) -> le y (fold_left (kmax o) l x).
Proof. induction l as [|a l IH]; intro x; cbn [fold_left].
  - split; [left; reflexivity|]. intros y [<-|[]]. apply le_refl.
  - destruct (IH (kmax o x a)) as [I L]. unfold kmax in *. destruct (leb o x a) eqn:E.
    + split.
      * destruct I as [I|I]; [right; left; exact I | right; right; exact I].
      * intros y [<-|[<-|Hy]].
        -- apply le_trans with a; [apply leb_true; exact E | apply L; left; reflexivity].
        -- apply L; left; reflexivity.
        -- apply L; right; exact Hy.
    + split.
      * destruct I as [I|I]; [left; exact I | right; right; exact I].
      * intros y [<-|[<-|Hy]].
        -- apply L; left; reflexivity.
        -- apply le_trans with x; [apply leb_false; exact E | apply L; left; reflexivity].
        -- apply L; right; exact Hy.
Qed.

Lemma list_min_spec : forall l, l <> [] ->
  In (list_min o l) l /\ forall y, In y l -> le (list_min o l) y.
Proof. intros [|x l] H; [contradiction|]. apply fold_min_spec. Qed.
Lemma list_max_spec : forall l, l <> [] ->
  In (list_max o l) l /\ forall y, In y l -> le y (list_max o l).
Proof. intros [|x l] H; [contradiction|]. apply fold_max_spec. Qed.

(* the fold computes: min over the new corners minus max over X's corners, both attained *)
Lemma gap_along_fold : forall xpos xq d (cx cn : list (@vec K)), cx <> [] -> cn <> [] ->
  exists p q, In p cn /\ In q cx /\
    gap_along o xpos xq d cx cn = sub o (along o xpos xq d p) (along o xpos xq d q) /\
    (forall p', In p' cn -> le (along o xpos xq d p) (along o xpos xq d p')) /\
    (forall q', In q' cx -> le (along o xpos xq d q') (along o xpos xq d q)).
Proof. intros xpos xq d cx cn Hx Hn. unfold gap_along.
  destruct (list_min_spec (map (along o xpos xq d) cn)) as [Im Lm]; [destruct cn; [contradiction|discriminate]|].
  destruct (list_max_spec (map (along o xpos xq d) cx)) as [IM LM]; [destruct cx; [contradiction|discriminate]|].
  apply in_map_iff in Im. destruct Im as [p [Ep Ip]]. apply in_map_iff in IM. destruct IM as [q [Eq Iq]].
  exists p, q. repeat split; try assumption.
  - rewrite Ep, Eq. reflexivity.
  - intros p' Hp'. rewrite Ep. apply Lm. apply in_map. exact Hp'.
  - intros q' Hq'. rewrite Eq. apply LM. apply in_map. exact Hq'.
Qed.
End Fold.

Lemma Ro_leb_true : forall a b : R, leb Ro a b = true -> a <= b.
Proof. intros a b. cbn [leb Ro]. destruct (Rle_dec a b); [auto | discriminate]. Qed.
Lemma Ro_leb_false : forall a b : R, leb Ro a b = false -> b <= a.
Proof. intros a b. cbn [leb Ro]. destruct (Rle_dec a b); [discriminate | lra]. Qed.

Definition gap_along_fold_R :=
  @gap_along_fold R Ro Rle Rle_refl Rle_trans Ro_leb_true Ro_leb_false.

(* the same characterisation for the instance that actually runs (carrier Q, Qle_bool) *)
Lemma Qo_leb_true : forall a b : Q, leb Qo a b = true -> (a <= b)%Q.
Proof. intros a b H. apply Qle_bool_iff. exact H. Qed.
Lemma Qo_leb_false : forall a b : Q, leb Qo a b = false -> (b <= a)%Q.
Proof. intros a b H. cbn [leb Qo] in H. destruct (Qlt_le_dec b a) as [L|L]; [apply Qlt_le_weak; exact L|].
  apply Qle_bool_iff in L. rewrite L in H. discriminate. Qed.
Definition gap_along_fold_Q :=
  @gap_along_fold Q Qo Qle Qle_refl Qle_trans Qo_leb_true Qo_leb_false.

(* corners are the images of the eight sign patterns *)
Lemma in_corners : forall (pos : Rvec) (q : Rquat) (dims p : Rvec),
  In p (corners Ro pos q dims) -> exists s, In s (corner_signs Ro) /\ p = box_point Ro pos q dims s.
Proof. intros pos q dims p H. unfold corners in H. apply in_map_iff in H. destruct H as [s [E I]].
  exists s. split; [exact I | symmetry; exact E]. Qed.

Lemma corners_nonempty : forall (pos : Rvec) (q : Rquat) (dims : Rvec), corners Ro pos q dims <> [].
Proof. intros. unfold corners, corner_signs. cbn [map]. discriminate. Qed.

(* a corner on the facing side of each box *)
Definition near_corner (d : direction) : Rvec :=   (* of the new box: axis component -1 *)
  match d with DLeft => (1, 1, 1) | DRight => (-1, 1, 1) | DAhead => (1, -1, 1) | DBehind => (1, 1, 1)
             | DAbove => (1, 1, -1) | DBelow => (1, 1, 1) end.
Definition far_corner (d : direction) : Rvec :=    (* of X: axis component +1 *)
  match d with DLeft => (-1, 1, 1) | DRight => (1, 1, 1) | DAhead => (1, 1, 1) | DBehind => (1, -1, 1)
             | DAbove => (1, 1, 1) | DBelow => (1, 1, -1) end.
Lemma near_corner_in : forall d, In (near_corner d) (corner_signs Ro).
Proof. destruct d; cbv [near_corner corner_signs m1 Ro one opp In];
  repeat (first [left; apply vec_eq; lra | right]). Qed.
Lemma far_corner_in : forall d, In (far_corner d) (corner_signs Ro).
Proof. destruct d; cbv [far_corner corner_signs m1 Ro one opp In];
  repeat (first [left; apply vec_eq; lra | right]). Qed.

(* THE TIE: for the aligned placement `<dir> X [by D]`, the number the executable fold computes from the two
   corner lists is exactly the documented gap *)
Theorem gap_along_directional : forall d (xpos : Rvec) (xq : Rquat) (xdims sdims : Rvec) ct b,
  unitq xq -> 0 <= dir_dim d sdims -> 0 <= dir_dim d xdims ->
  let newpos := fst (directional_obj Ro d xpos xq xdims sdims ct b) in
  gap_along Ro xpos xq d (corners Ro xpos xq xdims) (corners Ro newpos xq sdims) = dir_gap_value Ro d b ct.
Proof. intros d xpos xq xdims sdims ct b H Hs Hx newpos.
  destruct (gap_along_fold_R xpos xq d (corners Ro xpos xq xdims) (corners Ro newpos xq sdims)
              (corners_nonempty _ _ _) (corners_nonempty _ _ _)) as [p [q [Ip [Iq [E [Lp Lq]]]]]].
  rewrite E. cbn [sub Ro].
  destruct (in_corners _ _ _ _ Ip) as [s [Is ->]]. destruct (in_corners _ _ _ _ Iq) as [t [It ->]].
  apply Rle_antisym.
  - (* upper bound: the fold is below the facing pair of corners, whose difference is the gap *)
    pose proof (Lp (box_point Ro newpos xq sdims (near_corner d))
                   (in_map _ _ _ (near_corner_in d))) as L1.
    pose proof (Lq (box_point Ro xpos xq xdims (far_corner d))
                   (in_map _ _ _ (far_corner_in d))) as L2.
    pose proof (directional_gap d xpos xq xdims sdims ct b (near_corner d) (far_corner d) H) as G.
    cbv zeta in G. fold newpos in G.
    assert (Z : (1 + vdot Ro (dir_axis Ro d) (near_corner d)) = 0 /\ (1 - vdot Ro (dir_axis Ro d) (far_corner d)) = 0).
    { destruct d; cbv [near_corner far_corner]; unfall; split; ring. }
    destruct Z as [Z1 Z2]. rewrite Z1, Z2 in G. lra.
  - exact (directional_gap_corners d xpos xq xdims sdims ct b s t H Hs Hx Is It).
Qed.

(* ---------------------------------------------------------------- Euler angles: the round trip *)
(* full-angle cos/sin of a unit half-angle pair are a point of the unit circle *)
Lemma full_unit : forall a : Rang, unita a -> acos Ro a * acos Ro a + asin Ro a * asin Ro a = 1.
Proof. intros a H. da a. unfold unita in H. revert H. unf. intro H.
  transitivity ((r * r + r0 * r0) * (r * r + r0 * r0)); [ring | rewrite H; ring]. Qed.

(* the defining equations of the intrinsic ZXY angles (what scipy's as_euler("ZXY") inverts):
   forward axis = (-sin y cos p, cos y cos p, sin p); z components of the right / up axes = -cos p sin r, cos p cos r *)
Lemma euler_matrix : forall y p r : Rang, unita y -> unita p -> unita r ->
  let q := from_euler Ro y p r in
  rotate Ro q (ey Ro) = (- asin Ro y * acos Ro p, acos Ro y * acos Ro p, asin Ro p) /\
  vz (rotate Ro q (ex Ro)) = - acos Ro p * asin Ro r /\
  vz (rotate Ro q (ez Ro)) = acos Ro p * acos Ro r.
Proof. intros y p r Hy Hp Hr q. unfold q. destruct y as [cy sy]; destruct p as [cp sp]; destruct r as [cr sr].
  unfold unita in *. revert Hy Hp Hr. unf. intros Hy Hp Hr. repeat split.
  - apply vec_eq.
    + transitivity (- ((1 + 1) * (sy * cy)) * (cp * cp - sp * sp) * (cr * cr + sr * sr)); [ring | rewrite Hr; ring].
    + transitivity ((cy * cy - sy * sy) * (cp * cp - sp * sp) * (cr * cr + sr * sr)); [ring | rewrite Hr; ring].
    + transitivity (((1 + 1) * (sp * cp)) * (cy * cy + sy * sy) * (cr * cr + sr * sr)); [ring | rewrite Hy, Hr; ring].
  - transitivity (- (cp * cp - sp * sp) * ((1 + 1) * (sr * cr)) * (cy * cy + sy * sy)); [ring | rewrite Hy; ring].
  - transitivity ((cp * cp - sp * sp) * (cr * cr - sr * sr) * (cy * cy + sy * sy)); [ring | rewrite Hy; ring].
Qed.

(* away from gimbal lock (cos pitch > 0, the range as_euler returns) the three angles are determined by the
   rotation: two Euler triples giving the same rotation have the same (cos, sin) of yaw, pitch and roll.
   Hence fromEuler(as_euler(fromEuler(y,p,r))) recovers y, p, r (mod 2 pi). *)
Theorem euler_roundtrip : forall y p r y' p' r' : Rang,
  unita y -> unita p -> unita r -> unita y' -> unita p' -> unita r' ->
  0 < acos Ro p -> 0 < acos Ro p' ->
  (forall v, rotate Ro (from_euler Ro y p r) v = rotate Ro (from_euler Ro y' p' r') v) ->
  (acos Ro y = acos Ro y' /\ asin Ro y = asin Ro y') /\
  (acos Ro p = acos Ro p' /\ asin Ro p = asin Ro p') /\
  (acos Ro r = acos Ro r' /\ asin Ro r = asin Ro r').
Proof. intros y p r y' p' r' Hy Hp Hr Hy' Hp' Hr' Cp Cp' E.
  destruct (euler_matrix y p r Hy Hp Hr) as [F [X Z]].
  destruct (euler_matrix y' p' r' Hy' Hp' Hr') as [F' [X' Z']]. cbv zeta in *.
  rewrite (E (ey Ro)), F' in F. rewrite (E (ex Ro)), X' in X. rewrite (E (ez Ro)), Z' in Z.
  assert (F1 := f_equal (@vx R) F); assert (F2 := f_equal (@vy R) F); assert (F3 := f_equal (@vz R) F).
  cbn [vx vy vz fst snd] in F1, F2, F3. clear F.
  pose proof (full_unit p Hp) as Up. pose proof (full_unit p' Hp') as Up'.
  pose proof (full_unit y Hy) as Uy. pose proof (full_unit y' Hy') as Uy'.
  pose proof (full_unit r Hr) as Ur. pose proof (full_unit r' Hr') as Ur'.
  set (cy := acos Ro y) in *. set (sy := asin Ro y) in *. set (cp := acos Ro p) in *. set (sp := asin Ro p) in *.
  set (cr := acos Ro r) in *. set (sr := asin Ro r) in *.
  set (cy' := acos Ro y') in *. set (sy' := asin Ro y') in *. set (cp' := acos Ro p') in *. set (sp' := asin Ro p') in *.
  set (cr' := acos Ro r') in *. set (sr' := asin Ro r') in *.
  assert (Ecp : cp = cp').
  { assert (Q : (cp - cp') * (cp + cp') = 0) by nra.
    apply Rmult_integral in Q. destruct Q; lra. }
  assert (Ne : cp' <> 0) by lra.
  repeat split.
  - apply Rmult_eq_reg_r with cp'; [|exact Ne]. rewrite <- Ecp at 1. lra.
  - apply Rmult_eq_reg_r with cp'; [|exact Ne]. rewrite <- Ecp at 1. lra.
  - exact Ecp.
  - lra.
  - apply Rmult_eq_reg_l with cp'; [|exact Ne]. rewrite <- Ecp at 1. lra.
  - apply Rmult_eq_reg_l with cp'; [|exact Ne]. rewrite <- Ecp at 1. lra.
Qed.

(* non-vacuity of the round trip's hypotheses *)
Example euler_roundtrip_hyps : exists y p r : Rang, unita y /\ unita p /\ unita r /\ 0 < acos Ro p /\ asin Ro p <> 0.
Proof. exists (3/5, 4/5), (4/5, 3/5), (5/13, 12/13). unfold unita. unf. repeat split; lra. Qed.
