(* C07 — model of Scenic's built-in geometric specifiers and operators over a generic carrier
   (definitions only).  Mirrors src/scenic/syntax/veneer.py (directionalSpecHelper, Left/Right/
   Ahead/Behind/Above/Below, Beyond, OffsetBy, OffsetAlong, RelativeTo, Facing*, DistanceFrom,
   AngleFrom, AltitudeFrom, RelativeHeading, ApparentHeading), src/scenic/core/vectors.py
   (offsetLocally, applyRotation, sphericalCoordinates, azimuthTo, altitudeTo) and
   src/scenic/core/object_types.py (orientation = parentOrientation * fromEuler(yaw,pitch,roll),
   relativePosition, relativize, corners, front/back/left/right/top/bottom ...).
   Trigonometric and square-root values never get computed here: angles are half-angle (cos,sin)
   pairs, and the value an operator returned is checked against its defining relation. *)
From Coq Require Import List.
From Scenic Require Import C07.Carrier C07.Vec3 C07.Quat.
Import ListNotations.

Section Geometry.
Context {K : Type} (o : ops K).
Local Infix "+" := (add o). Local Infix "*" := (mul o). Local Infix "-" := (sub o).
Local Notation "- x" := (opp o x).
Local Notation O0 := (zero o). Local Notation I1 := (one o).
Local Notation vec := (@vec K). Local Notation quat := (@quat K). Local Notation ang := (@ang K).

Definition two : K := I1 + I1.
Definition half (k : K) : K := div o k two.

(* ------------------------------------------------------------------ poses *)
(* OrientedPoint.orientation = parentOrientation * Orientation.fromEuler(yaw, pitch, roll) *)
Definition orientation_of (parent : quat) (yaw pitch roll : ang) : quat :=
  qmul o parent (from_euler o yaw pitch roll).
(* Vector.offsetLocally / OrientedPoint.relativePosition: pos + R(q) v *)
Definition offset_locally (pos : vec) (q : quat) (v : vec) : vec := vadd o pos (rotate o q v).
(* coordinates of a global point in the local frame (pos, q) *)
Definition to_local (pos : vec) (q : quat) (p : vec) : vec := rotate o (qconj o q) (vsub o p pos).

(* ------------------------------------------------------------------ boxes *)
Definition vhalf (d : vec) : vec := (half (vx d), half (vy d), half (vz d)).
Definition vmulc (s d : vec) : vec := (vx s * vx d, vy s * vy d, vz s * vz d).
(* the point of the box (pos, q, dims) with sign pattern s (each component in {-I1,O0,I1}) *)
Definition box_point (pos : vec) (q : quat) (dims s : vec) : vec :=
  offset_locally pos q (vmulc s (vhalf dims)).
Definition m1 : K := - I1.
(* Object.corners, in Scenic's order *)
Definition corner_signs : list vec :=
  [ (I1, I1, I1); (m1, I1, I1); (m1, m1, I1); (I1, m1, I1); (I1, I1, m1); (m1, I1, m1); (m1, m1, m1); (I1, m1, m1) ].
Definition corners (pos : vec) (q : quat) (dims : vec) : list vec :=
  map (box_point pos q dims) corner_signs.

(* front/back/left/right/top/bottom [...] of Object: OrientedPoint at box_point, orientation q *)
Inductive side := SFront | SBack | SLeft | SRight | STop | SBottom
  | SFrontLeft | SFrontRight | SBackLeft | SBackRight
  | STopFrontLeft | STopFrontRight | STopBackLeft | STopBackRight
  | SBottomFrontLeft | SBottomFrontRight | SBottomBackLeft | SBottomBackRight.
Definition side_signs (s : side) : vec :=
  match s with
  | SFront => (O0, I1, O0) | SBack => (O0, m1, O0) | SLeft => (m1, O0, O0) | SRight => (I1, O0, O0)
  | STop => (O0, O0, I1) | SBottom => (O0, O0, m1)
  | SFrontLeft => (m1, I1, O0) | SFrontRight => (I1, I1, O0) | SBackLeft => (m1, m1, O0) | SBackRight => (I1, m1, O0)
  | STopFrontLeft => (m1, I1, I1) | STopFrontRight => (I1, I1, I1) | STopBackLeft => (m1, m1, I1) | STopBackRight => (I1, m1, I1)
  | SBottomFrontLeft => (m1, I1, m1) | SBottomFrontRight => (I1, I1, m1)
  | SBottomBackLeft => (m1, m1, m1) | SBottomBackRight => (I1, m1, m1)
  end.
Definition side_point (pos : vec) (q : quat) (dims : vec) (s : side) : vec * quat :=
  (box_point pos q dims (side_signs s), q).

(* ------------------------------------------------------------------ directional specifiers *)
Inductive direction := DLeft | DRight | DAhead | DBehind | DAbove | DBelow.
Inductive by_arg := ByNone | ByScalar (d : K) | ByVector (v : vec).

(* toComponents of LeftSpec/.../Below *)
Definition dir_components (d : direction) (dist : K) : vec :=
  match d with
  | DLeft | DRight => (dist, O0, O0) | DAhead | DBehind => (O0, dist, O0) | DAbove | DBelow => (O0, O0, dist)
  end.
(* (dx,dy,dz) of directionalSpecHelper *)
Definition by_components (d : direction) (b : by_arg) : vec :=
  match b with ByNone => (O0, O0, O0) | ByScalar k => dir_components d k | ByVector v => v end.
(* makeContactOffset *)
Definition contact_offset (b : by_arg) (ct : K) : K :=
  match b with ByNone => half ct | _ => O0 end.
(* makeOffset lambdas: self dims, reference dims, tolerance, (dx,dy,dz) *)
Definition dir_offset (d : direction) (sd rd : vec) (tol : K) (c : vec) : vec :=
  match d with
  | DLeft   => (- half (vx sd) - vx c - half (vx rd) - tol, vy c, vz c)
  | DRight  => (half (vx sd) + vx c + half (vx rd) + tol, vy c, vz c)
  | DAhead  => (vx c, half (vy sd) + vy c + half (vy rd) + tol, vz c)
  | DBehind => (vx c, - half (vy sd) - vy c - half (vy rd) - tol, vz c)
  | DAbove  => (vx c, vy c, half (vz sd) + vz c + half (vz rd) + tol)
  | DBelow  => (vx c, vy c, - half (vz sd) - vz c - half (vz rd) - tol)
  end.

(* `<dir> X [by D]` with X an Object: position; parentOrientation := X's orientation *)
Definition directional_obj (d : direction) (xpos : vec) (xq : quat) (xdims sdims : vec)
    (ct : K) (b : by_arg) : vec * quat :=
  (offset_locally xpos xq (dir_offset d sdims xdims (contact_offset b ct) (by_components d b)), xq).
(* ... with X an OrientedPoint: no dimensions, no tolerance *)
Definition directional_op (d : direction) (xpos : vec) (xq : quat) (sdims : vec) (b : by_arg)
    : vec * quat :=
  (offset_locally xpos xq (dir_offset d sdims (O0, O0, O0) O0 (by_components d b)), xq).
(* ... with X a vector: offset in the frame of the new object's own orientation; no orientation given *)
Definition directional_vec (d : direction) (p : vec) (selfq : quat) (sdims : vec) (b : by_arg) : vec :=
  offset_locally p selfq (dir_offset d sdims (O0, O0, O0) O0 (by_components d b)).

(* outward unit axis of a direction in X's local frame, the size along it, the documented gap *)
Definition dir_axis (d : direction) : vec :=
  match d with
  | DLeft => (m1, O0, O0) | DRight => (I1, O0, O0) | DAhead => (O0, I1, O0) | DBehind => (O0, m1, O0)
  | DAbove => (O0, O0, I1) | DBelow => (O0, O0, m1)
  end.
Definition dir_dim (d : direction) (v : vec) : K :=
  match d with DLeft | DRight => vx v | DAhead | DBehind => vy v | DAbove | DBelow => vz v end.
Definition dir_gap_value (d : direction) (b : by_arg) (ct : K) : K :=
  match b with ByNone => half ct | ByScalar k => k | ByVector v => dir_dim d v end.
(* outward coordinate of a global point along X's axis *)
Definition along (xpos : vec) (xq : quat) (d : direction) (p : vec) : K :=
  vdot o (dir_axis d) (to_local xpos xq p).

Definition kmin (a b : K) : K := if leb o a b then a else b.
Definition kmax (a b : K) : K := if leb o a b then b else a.
Definition list_min (l : list K) : K := match l with [] => O0 | x :: r => fold_left kmin r x end.
Definition list_max (l : list K) : K := match l with [] => O0 | x :: r => fold_left kmax r x end.
(* gap between two corner sets along X's outward axis *)
Definition gap_along (xpos : vec) (xq : quat) (d : direction) (cx cn : list vec) : K :=
  list_min (map (along xpos xq d) cn) - list_max (map (along xpos xq d) cx).

(* ------------------------------------------------------------------ planar angle relations *)
Definition vec2 : Type := (K * K)%type.
(* rotate a planar vector counter-clockwise by the (full) angle of a *)
Definition rot2d (a : ang) (u : vec2) : vec2 :=
  (acos o a * fst u - asin o a * snd u, asin o a * fst u + acos o a * snd u).
Definition cross2 (u v : vec2) : K := fst u * snd v - snd u * fst v.
Definition dot2 (u v : vec2) : K := fst u * fst v + snd u * snd v.
Definition xy (v : vec) : vec2 := (vx v, vy v).
(* "turning u by a gives the direction of v": residual (must be O0) and witness (must be > O0) *)
Definition turn_res (a : ang) (u v : vec2) : K := cross2 (rot2d a u) v.
Definition turn_dot (a : ang) (u v : vec2) : K := dot2 (rot2d a u) v.
Definition north : vec2 := (O0, I1).      (* heading O0 *)
Definition east : vec2 := (I1, O0).

(* unit vector with azimuth (heading) th and altitude ph: R(fromEuler(th,ph,O0)) (O0,I1,O0) *)
Definition sph_dir (th ph : ang) : vec :=
  (- asin o th * acos o ph, acos o th * acos o ph, asin o ph).

(* ------------------------------------------------------------------ position specifiers *)
(* offset by V: V in ego's frame; parentOrientation := ego's orientation *)
Definition offset_by (epos : vec) (eq : quat) (v : vec) : vec * quat := (offset_locally epos eq v, eq).
(* X offset along H by V (operator) / offset along H by V (specifier, X = ego, parent := ego's) *)
Definition offset_along (x : vec) (h : quat) (v : vec) : vec := offset_locally x h v.
Definition offset_along_spec (epos : vec) (eq h : quat) (v : vec) : vec * quat :=
  (offset_along epos h v, eq).
(* V relative to OrientedPoint: OrientedPoint at relativePosition, with the same orientation *)
Definition relative_to_op (ppos : vec) (pq : quat) (v : vec) : vec * quat := (offset_locally ppos pq v, pq).
(* O1 relative to O2 = O2 * O1 *)
Definition relative_to_orient (x y : quat) : quat := qmul o y x.
(* beyond P by off from Q: th/ph are the spherical angles of P - Q (recorded);
   frame = fromEuler(th, ph, O0) *)
Definition beyond_pos (p off : vec) (th ph : ang) : vec :=
  vadd o p (rotate o (from_euler o th ph (a0 o)) off).
Definition beyond_offset (b : by_arg) : vec :=
  match b with ByNone => (O0, O0, O0) | ByScalar k => (O0, k, O0) | ByVector v => v end.

(* ------------------------------------------------------------------ facing family *)
(* facing O: local angles are the Euler angles of parent^-I1 * O (localAnglesFor); the resulting
   global orientation is parent * (parent^-I1 * O) *)
Definition facing_local (parent target : quat) : quat := qmul o (qconj o parent) target.
Definition facing_orientation (parent target : quat) : quat := qmul o parent (facing_local parent target).
(* facing [directly] toward / away from P: the line of sight expressed in the parent frame *)
Definition sight_local (parent : quat) (pos target : vec) (away : bool) : vec :=
  rotate o (qconj o parent) (if away then vsub o pos target else vsub o target pos).
(* angle sum on half-angle pairs (apparently facing: yaw = angleTo + heading) *)
Definition aadd (a b : ang) : ang := (ahc a * ahc b - ahs a * ahs b, ahs a * ahc b + ahc a * ahs b).

(* ------------------------------------------------------------------ scalar operators *)
Definition dist2 (a b : vec) : K := vnorm2 o (vsub o b a).
(* distance from a to b = n : n*n - |b-a|^2 must vanish (and n >= O0) *)
Definition distance_res (n : K) (a b : vec) : K := n * n - dist2 a b.
(* angle from a to b = al : turning north by al gives the planar direction of b - a *)
Definition angle_res (al : ang) (a b : vec) : K := turn_res al north (xy (vsub o b a)).
Definition angle_dot (al : ang) (a b : vec) : K := turn_dot al north (xy (vsub o b a)).
(* altitude from a to b = ph, with m = hypot(dx,dy) recorded *)
Definition altitude_res (ph : ang) (m : K) (a b : vec) : K := turn_res ph east (m, vz (vsub o b a)).
Definition altitude_dot (ph : ang) (m : K) (a b : vec) : K := turn_dot ph east (m, vz (vsub o b a)).
Definition hypot_res (m : K) (a b : vec) : K :=
  m * m - (vx (vsub o b a) * vx (vsub o b a) + vy (vsub o b a) * vy (vsub o b a)).
(* yaw of an orientation = azimuth of its forward axis *)
Definition forward (q : quat) : vec := rotate o q (ey o).
(* relative heading of q1 from q2 = rh : turning q2's planar forward axis by rh gives q1's *)
Definition relheading_res (rh : ang) (q1 q2 : quat) : K := turn_res rh (xy (forward q2)) (xy (forward q1)).
Definition relheading_dot (rh : ang) (q1 q2 : quat) : K := turn_dot rh (xy (forward q2)) (xy (forward q1)).
(* apparent heading of (pos, q) from b = ah : turning the line of sight b -> pos by ah gives the
   planar forward axis of q *)
Definition appheading_res (ah : ang) (pos : vec) (q : quat) (b : vec) : K :=
  turn_res ah (xy (vsub o pos b)) (xy (forward q)).
Definition appheading_dot (ah : ang) (pos : vec) (q : quat) (b : vec) : K :=
  turn_dot ah (xy (vsub o pos b)) (xy (forward q)).

(* ------------------------------------------------------------------ vector fields (round 2) *)
(* A vector field gives an orientation at every point (VectorField.__getitem__). *)
(* facing <field>: headingAtPos = F pos; local angles are the Euler angles of parent^-1 * F pos
   (Facing, vector-field branch); the resulting global orientation is parent * (parent^-1 * F pos) *)
Definition facing_field_local (parent : quat) (F : vec -> quat) (pos : vec) : quat :=
  qmul o (qconj o parent) (F pos).
Definition facing_field_orientation (parent : quat) (F : vec -> quat) (pos : vec) : quat :=
  qmul o parent (facing_field_local parent F pos).
(* X relative to Y with (at least one) field: evaluated at the object's position, Y[pos] * X[pos] *)
Definition relative_to_field (X Y : vec -> quat) (pos : vec) : quat := relative_to_orient (X pos) (Y pos).
(* X offset along <field> by V: the field is evaluated at X *)
Definition offset_along_field (x : vec) (F : vec -> quat) (v : vec) : vec := offset_along x (F x) v.
(* VectorField.followFrom: n forward-Euler steps of signed length step along the field's forward axis *)
Definition follow_step (q : quat) (step : K) (pos : vec) : vec := vadd o pos (rotate o q (O0, step, O0)).
Fixpoint follow (F : vec -> quat) (n : nat) (step : K) (pos : vec) : vec :=
  match n with O => pos | S n' => follow F n' step (follow_step (F pos) step pos) end.
(* the positions at which the field is evaluated *)
Fixpoint visited (F : vec -> quat) (n : nat) (step : K) (pos : vec) : list vec :=
  match n with O => [] | S n' => pos :: visited F n' step (follow_step (F pos) step pos) end.
(* executable form: the field's values at the visited positions are given *)
Fixpoint follow_rec (qs : list quat) (step : K) (pos : vec) : vec :=
  match qs with [] => pos | q :: r => follow_rec r step (follow_step q step pos) end.
(* following F [from X] for D / follow F from X for D: position and parentOrientation *)
Definition following (F : vec -> quat) (n : nat) (step : K) (x : vec) : vec * quat :=
  let p := follow F n step x in (p, F p).

(* ------------------------------------------------------------------ on (round 2) *)
(* On: contactOffset = (0,0,contactTolerance/2) - baseOffset, rotated by the surface orientation when the
   target provides one; position = surface point + contactOffset *)
Definition on_offset (ct : K) (base : vec) : vec := vsub o (O0, O0, half ct) base.
Definition on_pos (p : vec) (q : quat) (ct : K) (base : vec) : vec * quat :=
  (vadd o p (rotate o q (on_offset ct base)), q).
Definition on_pos_plain (p : vec) (ct : K) (base : vec) : vec := vadd o p (on_offset ct base).
(* Object.baseOffset default *)
Definition default_base (dims : vec) : vec := (O0, O0, - half (vz dims)).
End Geometry.
