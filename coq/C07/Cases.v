(* C07 — entry points of the correspondence check: the generic model instantiated at the carrier Q,
   as one function from a case kind and a flat list of rationals to a flat list of rationals
   (definitions only; the harness documents the layouts in harness/c07.py). *)
From Coq Require Import QArith List.
From Scenic Require Import C07.Carrier C07.Vec3 C07.Quat C07.Geometry.
Import ListNotations.

Open Scope nat_scope.
Definition qvec := @vec Q. Definition qquat := @quat Q. Definition qang := @ang Q.

Section Access.
Variable a : list Q.
Definition g (i : nat) : Q := nth i a 0%Q.
Definition gv (i : nat) : qvec := (g i, g (1 + i), g (2 + i)).
Definition ga (i : nat) : qang := (g i, g (1 + i)).
(* three consecutive half-angle pairs: yaw, pitch, roll *)
Definition ge (i : nat) : qquat := from_euler Qo (ga i) (ga (2 + i)) (ga (4 + i)).
(* pose block: pos(3) parent(6) local(6) -> (pos, parent q, q) *)
Definition gpose (i : nat) : qvec * qquat * qquat :=
  let parent := ge (3 + i) in
  (gv i, parent, orientation_of Qo parent (ga (9 + i)) (ga (11 + i)) (ga (13 + i))).
Definition code (i : nat) : nat := Z.to_nat (Qnum (g i)).
Definition gby (imode iv : nat) (d : direction) : @by_arg Q :=
  match code imode with O => ByNone | S O => ByScalar (dir_dim d (gv iv)) | _ => ByVector (gv iv) end.
End Access.

Definition z3 : qvec := (0%Q, 0%Q, 0%Q).
Definition ov (v : qvec) : list Q := [vx v; vy v; vz v].
Definition oq (q : qquat) : list Q := [qx q; qy q; qz q; qw q].
Definition ovs (l : list qvec) : list Q := flat_map ov l.

Definition dir_of (n : nat) : direction :=
  match n with 0 => DLeft | 1 => DRight | 2 => DAhead | 3 => DBehind | 4 => DAbove | _ => DBelow end.
Definition side_of (n : nat) : side :=
  match n with
  | 0 => SFront | 1 => SBack | 2 => SLeft | 3 => SRight | 4 => STop | 5 => SBottom
  | 6 => SFrontLeft | 7 => SFrontRight | 8 => SBackLeft | 9 => SBackRight
  | 10 => STopFrontLeft | 11 => STopFrontRight | 12 => STopBackLeft | 13 => STopBackRight
  | 14 => SBottomFrontLeft | 15 => SBottomFrontRight | 16 => SBottomBackLeft | _ => SBottomBackRight
  end.

(* kind 1 — directional specifier.
   in : 0 dir | 1 refkind (0 object, 1 oriented point, 2 vector) | 2.. X pose (15) | 17 X dims (3)
        | 20 new own parent (6) | 26 new local angles (6) | 32 new dims (3) | 35 contactTolerance
        | 36 by-mode (0 none, 1 scalar [in the slot of the axis], 2 vector) | 37 by (3)
        | 40 X q as the implementation stored it (4) | 44 new q as the implementation stored it (4)
        | 48 new position as the implementation stored it (3)
        (stage-wise: corners, gap and local coordinates start from the stored float quaternions, which
         are themselves compared with the computed ones, so that the rationals stay a few hundred bits)
   out: X q (4) | new pos (3) | new parentOrientation (4) | new q (4) | X corners (24) | new corners (24)
        | gap along X's axis (1) | new centre in X's frame (3) *)
Definition case_directional (a : list Q) : list Q :=
  let d := dir_of (code a 0) in
  let '(xpos, _, xq) := gpose a 2 in
  let xdims := gv a 17 in let sdims := gv a 32 in let ct := g a 35 in
  let b := gby a 36 37 d in
  let ownparent := ge a 20 in
  let local (p : qquat) := orientation_of Qo p (ga a 26) (ga a 28) (ga a 30) in
  let '(newpos, newparent, rdims) :=
    match code a 1 with
    | O => let r := directional_obj Qo d xpos xq xdims sdims ct b in (fst r, snd r, xdims)
    | S O => let r := directional_op Qo d xpos xq sdims b in (fst r, snd r, z3)
    | _ => (directional_vec Qo d xpos (local ownparent) sdims b, ownparent, z3)
    end in
  let newq := local newparent in
  let xq' : qquat := (g a 40, g a 41, g a 42, g a 43) in
  let newq' : qquat := (g a 44, g a 45, g a 46, g a 47) in
  (* for a vector reference the frame of the documented offset is the new object's own *)
  let fq := match code a 1 with S (S _) => newq' | _ => xq' end in
  let cx := corners Qo xpos fq rdims in
  let newpos' := gv a 48 in
  let cn := corners Qo newpos' newq' sdims in
  oq xq ++ ov newpos ++ oq newparent ++ oq newq ++ ovs cx ++ ovs cn
  ++ [gap_along Qo xpos fq d cx cn] ++ ov (to_local Qo xpos fq newpos').

(* kind 2 — beyond P by off from Q.
   in : 0 P (3) | 3 Q (3) | 6 by-mode (0 unused, 1 scalar in slot 1, 2 vector) | 7 by (3) | 10 th | 12 ph | 14 rho
   out: new pos (3) | (P - Q) - rho * sph_dir th ph (3) | new pos in the frame (P, fromEuler(th,ph,0)) (3) *)
Definition case_beyond (a : list Q) : list Q :=
  let p := gv a 0 in let q := gv a 3 in
  let b := match code a 6 with S O => ByScalar (g a 8) | _ => ByVector (gv a 7) end in
  let th := ga a 10 in let ph := ga a 12 in
  let np := beyond_pos Qo p (beyond_offset Qo b) th ph in
  ov np ++ ov (vsub Qo (vsub Qo p q) (vscale Qo (g a 14) (sph_dir Qo th ph)))
  ++ ov (to_local Qo p (from_euler Qo th ph (a0 Qo)) np).

(* kind 3 — offset by / offset along / relative to.
   in : 0 ego pose (15) | 15 H (6) | 21 v (3)
   out: ego q (4) | offset by v: pos (3) | H q (4) | offset along H by v: pos (3) | ego.orientation relative to H (4)
        | H relative to ego.orientation (4) *)
Definition case_offset (a : list Q) : list Q :=
  let '(epos, _, eq) := gpose a 0 in
  let h := ge a 15 in let v := gv a 21 in
  oq eq ++ ov (fst (offset_by Qo epos eq v)) ++ oq h ++ ov (offset_along Qo epos h v)
  ++ oq (relative_to_orient Qo eq h) ++ oq (relative_to_orient Qo h eq).

(* kind 4 — facing O.
   in : 0 parent (6) | 6 target (6) | 12 local angles the implementation chose (6)
   out: parent q | target q | parent * (parent^-1 * target) | parent * fromEuler(local) *)
Definition case_facing (a : list Q) : list Q :=
  let parent := ge a 0 in let target := ge a 6 in
  oq parent ++ oq target ++ oq (facing_orientation Qo parent target)
  ++ oq (orientation_of Qo parent (ga a 12) (ga a 14) (ga a 16)).

(* kind 5 — facing [directly] toward / away from P, apparently facing H from V.
   in : 0 pos (3) | 3 parent (6) | 9 P (3) | 12 away (0/1) | 13 yaw | 15 pitch | 17 roll (as chosen by the
        implementation) | 19 rho | 20 H (apparently facing) 
   out: sight in the parent frame (3) | q (4) | yaw relation: res, dot | sight - rho*sph_dir yaw pitch (3)
        | apparently-facing relation, global frame (yaw - H vs azimuth of pos - P; the code before the repair): res, dot
        | apparently-facing relation, parent frame (yaw - H vs azimuth of parent^-1 (pos - P); repaired): res, dot *)
Definition case_toward (a : list Q) : list Q :=
  let pos := gv a 0 in let parent := ge a 3 in let p := gv a 9 in
  let away := match code a 12 with O => false | _ => true end in
  let yaw := ga a 13 in let pitch := ga a 15 in let roll := ga a 17 in
  let sl := sight_local Qo parent pos p away in
  let d := aadd Qo yaw (aneg Qo (ga a 20)) in
  ov sl ++ oq (orientation_of Qo parent yaw pitch roll)
  ++ [turn_res Qo yaw (north Qo) (xy sl); turn_dot Qo yaw (north Qo) (xy sl)]
  ++ ov (vsub Qo sl (vscale Qo (g a 19) (sph_dir Qo yaw pitch)))
  ++ [turn_res Qo d (north Qo) (xy (vsub Qo pos p)); turn_dot Qo d (north Qo) (xy (vsub Qo pos p))]
  ++ [turn_res Qo d (north Qo) (xy (sight_local Qo parent pos p true));
      turn_dot Qo d (north Qo) (xy (sight_local Qo parent pos p true))].

(* kind 6 — scalar operators.
   in : 0 A (3) | 3 B (3) | 6 n = distance | 7 al = angle | 9 ph = altitude | 11 m = hypot(dx,dy)
        | 12 pose1 (15) | 27 pose2 (15) | 42 rh = relative heading of q1 from q2 | 44 ah = apparent heading of pose1 from B
        | 46 q1 as stored (4) | 50 q2 as stored (4)   (the heading relations start from the stored quaternions)
   out: distance_res | angle_res angle_dot | hypot_res | altitude_res altitude_dot | relheading_res _dot
        | appheading_res _dot | q1 (4) | q2 (4) *)
Definition case_scalar (a : list Q) : list Q :=
  let pa := gv a 0 in let pb := gv a 3 in
  let '(p1, _, q1) := gpose a 12 in let '(_, _, q2) := gpose a 27 in
  let q1' : qquat := (g a 46, g a 47, g a 48, g a 49) in
  let q2' : qquat := (g a 50, g a 51, g a 52, g a 53) in
  [distance_res Qo (g a 6) pa pb; angle_res Qo (ga a 7) pa pb; angle_dot Qo (ga a 7) pa pb;
   hypot_res Qo (g a 11) pa pb; altitude_res Qo (ga a 9) (g a 11) pa pb; altitude_dot Qo (ga a 9) (g a 11) pa pb;
   relheading_res Qo (ga a 42) q1' q2'; relheading_dot Qo (ga a 42) q1' q2';
   appheading_res Qo (ga a 44) p1 q1' pb; appheading_dot Qo (ga a 44) p1 q1' pb]
  ++ oq q1 ++ oq q2.

(* kind 7 — box: corners and the `front of` family.
   in : 0 pose (15) | 15 dims (3) | 18 side | 19 q as stored (4)
   out: q (4) | side point (3) | corners (24) *)
Definition case_box (a : list Q) : list Q :=
  let '(pos, _, q) := gpose a 0 in let dims := gv a 15 in
  let q' : qquat := (g a 19, g a 20, g a 21, g a 22) in
  oq q ++ ov (fst (side_point Qo pos q' dims (side_of (code a 18)))) ++ ovs (corners Qo pos q' dims).

(* kind 8 — facing <field> (optionally composed with a heading/orientation by `relative to`).
   in : 0 parentOrientation as stored (4) | 4 F(pos) (6) | 10 H (6)
        | 16 mode (0 plain, 1 `H relative to F` = F*H, 2 `F relative to H` = H*F)
        | 17 local angles the implementation chose (6)
   out: target q (4) | parent * (parent^-1 * target) (4) | parent * fromEuler(local) (4) *)
Definition case_facing_field (a : list Q) : list Q :=
  let parent : qquat := (g a 0, g a 1, g a 2, g a 3) in let f := ge a 4 in let h := ge a 10 in
  let F : qvec -> qquat := fun _ => f in let Hf : qvec -> qquat := fun _ => h in
  let T : qvec -> qquat :=
    match code a 16 with O => F | S O => relative_to_field Qo Hf F | _ => relative_to_field Qo F Hf end in
  oq (T z3) ++ oq (facing_field_orientation Qo parent T z3)
  ++ oq (orientation_of Qo parent (ga a 17) (ga a 19) (ga a 21)).

(* kind 9 — X offset along <field> by V, for two base points.
   in : 0 X1 (3) | 3 F(X1) (6) | 9 X2 (3) | 12 F(X2) (6) | 18 V (3)   out: position 1 (3) | position 2 (3) *)
Definition case_along_field (a : list Q) : list Q :=
  let f1 := ge a 3 in let f2 := ge a 12 in
  ov (offset_along_field Qo (gv a 0) (fun _ => f1) (gv a 18))
  ++ ov (offset_along_field Qo (gv a 9) (fun _ => f2) (gv a 18)).

(* kind 10 — following F [from X] for D.
   in : 0 X (3) | 3 step | 4 n | 5 F at the final position (6) | 11.. F at the n visited positions (6 each)
   out: final position (3) | parentOrientation (4) *)
Fixpoint ges (a : list Q) (i n : nat) : list qquat :=
  match n with O => [] | S n' => ge a i :: ges a (6 + i) n' end.
Definition case_following (a : list Q) : list Q :=
  ov (follow_rec Qo (ges a 11 (code a 4)) (g a 3) (gv a 0)) ++ oq (ge a 5).

(* kind 11 — on <Object>: invariants of the placement, from the stored poses.  The surface used is any face of X
   whose outward normal has a global z component >= 1/2 (defaultSideSurface); the harness names the face.
   in : 0 X pose (15) | 15 X dims (3) | 18 X q as stored (4) | 22 new position as stored (3)
        | 25 new q as stored (4) | 29 new dims (3) | 32 face of X (direction code, as for kind 1)
   out: X q (4) | gap along the face's outward normal between the corner sets (1) | new centre in X's frame (3)
        | up axis of the new object minus the face normal (3) | the face normal (3) *)
Definition case_on_object (a : list Q) : list Q :=
  let '(xpos, _, xq) := gpose a 0 in
  let xq' : qquat := (g a 18, g a 19, g a 20, g a 21) in
  let np := gv a 22 in let nq : qquat := (g a 25, g a 26, g a 27, g a 28) in
  let d := dir_of (code a 32) in
  let cx := corners Qo xpos xq' (gv a 15) in let cn := corners Qo np nq (gv a 29) in
  let nrm := rotate Qo xq' (dir_axis Qo d) in
  oq xq ++ [gap_along Qo xpos xq' d cx cn] ++ ov (to_local Qo xpos xq' np)
  ++ ov (vsub Qo (rotate Qo nq (ez Qo)) nrm) ++ ov nrm.

(* kind 12 — on <vector> / on <oriented region> / in <oriented region>.
   in : 0 surface point (3) | 3 surface orientation (6) | 9 contactTolerance | 10 baseOffset (3)
        | 13 mode (0 `on` without orientation, 1 `on` oriented, 2 `in` oriented: no contact offset)
   out: position (3) | parentOrientation provided (4; identity when none) *)
Definition case_on_point (a : list Q) : list Q :=
  match code a 13 with
  | O => ov (on_pos_plain Qo (gv a 0) (g a 9) (gv a 10)) ++ oq (qid Qo)
  | S O => let r := on_pos Qo (gv a 0) (ge a 3) (g a 9) (gv a 10) in ov (fst r) ++ oq (snd r)
  | _ => ov (gv a 0) ++ oq (ge a 3)
  end.

Definition run_case (kind : nat) (a : list Q) : list Q :=
  match kind with
  | 1 => case_directional a | 2 => case_beyond a | 3 => case_offset a | 4 => case_facing a
  | 5 => case_toward a | 6 => case_scalar a | 7 => case_box a
  | 8 => case_facing_field a | 9 => case_along_field a | 10 => case_following a
  | 11 => case_on_object a | 12 => case_on_point a | _ => []
  end.
