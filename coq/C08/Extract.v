(* Extraction of the C08 model to OCaml.  Directives: ExtrOcamlBasic only. *)
From Coq Require Import ZArith QArith List.
From Coq Require Extraction.
From Coq Require Import ExtrOcamlBasic.
From Scenic Require Import C08.Relations C08.Prune C08.Visibility.
Extraction Language OCaml.
Extraction "model.ml" match_bounds dist_clamp rh_clamp rh_range rh_overlap erode_iterations
  buffer_iterations_asis buffer_iterations_fixed visibility_bound max_erosion
  max_distance_between vis_bound rh_overlap_fixed buffer_box Qred.
