(* C08 — proofs about the visibility plumbing, the repaired overlap test, the retry loops and the cycle check. *)
From Coq Require Import ZArith QArith Qround Qabs List Bool Arith Lia Lqa.
From Scenic Require Import C08.Prune C08.PruneProofs C08.Visibility.
Import ListNotations.
Open Scope Q_scope.

(* ================================================================ visibility bounds in a metric space *)
Section VisSound.
  Variable P : Type.
  Variable dist : P -> P -> Q.
  Hypothesis dist_tri : forall a b c, dist a c <= dist a b + dist b c.
  Hypothesis dist_sym : forall a b, dist a b == dist b a.

  (* a concrete scene: centre, camera position, points and actual visible distance of every object *)
  Variable pos cam : nat -> P.
  Variable pts : nat -> P -> Prop.
  Variable vdist : nat -> Q.
  Definition sees (a b : nat) : Prop := exists x, pts b x /\ dist (cam a) x <= vdist a.

  Variable ego : nat.
  Variable objs : list vobj.
  Variable rels : list (list drel).
  Notation obj k := (nth k objs no_obj).

  (* the static bounds bound the scene *)
  Hypothesis vd_ok : forall k v, vd_up (obj k) = Some v -> vdist k <= v.
  Hypothesis cam_ok : forall k c, cam_hyp (obj k) = Some c -> dist (pos k) (cam k) <= c.
  Hypothesis rad_ok : forall k r, rad_up (obj k) = Some r -> forall x, pts k x -> dist (pos k) x <= r.
  (* the scene satisfies the visibility specifiers and the distance requirements *)
  Hypothesis reqvis_ok : forall k, req_vis (obj k) = true -> sees ego k.
  Hypothesis observer_ok : forall k j, observer (obj k) = Some j -> sees j k.
  Hypothesis rels_ok : forall i t u, In (t, Some u) (nth i rels []) -> dist (pos i) (pos t) <= u.

  Lemma vis_bound_sound a b q :
    sees a b -> vis_bound (obj a) (obj b) = Some q -> dist (pos a) (pos b) <= q.
  Proof.
    intros [x [Hx Hd]] H. unfold vis_bound in H.
    destruct (vd_up (obj a)) as [v|] eqn:V; [|discriminate].
    destruct (cam_hyp (obj a)) as [c|] eqn:C; [|discriminate].
    destruct (rad_up (obj b)) as [r|] eqn:R; [|discriminate].
    injection H as <-. unfold visibility_bound.
    assert (A1 := vd_ok _ _ V). assert (A2 := cam_ok _ _ C). assert (A3 := rad_ok _ _ R x Hx).
    assert (T1 := dist_tri (pos a) (cam a) (pos b)). assert (T2 := dist_tri (cam a) x (pos b)).
    assert (S := dist_sym x (pos b)). lra.
  Qed.

  Definition ub (D : Q) (e : ext) : Prop := match e with EFin q => D <= q | _ => True end.

  Lemma emin_opt_ub fixed D e b : ub D e -> (forall q, b = Some q -> D <= q) -> ub D (emin_opt fixed e b).
  Proof.
    intros He Hb. destruct e as [|x|], b as [q|], fixed; cbn; auto.
    - unfold qmin. destruct (qleb x q); [exact He|auto].
    - unfold qmin. destruct (qleb x q); [exact He|auto].
  Qed.
  Lemma emin_ub D a b : ub D a -> ub D b -> ub D (emin a b).
  Proof.
    intros Ha Hb. destruct a as [|x|], b as [|y|]; cbn; auto.
    unfold qmin. destruct (qleb x y); auto.
  Qed.

  Lemma req_dist_ub i j : ub (dist (pos i) (pos j)) (req_dist (nth i rels []) j).
  Proof.
    unfold req_dist.
    assert (G : forall l acc, (forall t u, In (t, Some u) l -> dist (pos i) (pos t) <= u) ->
                              ub (dist (pos i) (pos j)) acc ->
                              ub (dist (pos i) (pos j))
                                 (fold_left (fun acc r => if Nat.eqb (fst r) j then
                                    match snd r, acc with
                                    | Some u, EInf => EFin u
                                    | Some u, EFin x => if qltb' u x then EFin u else EFin x
                                    | _, _ => acc end else acc) l acc)).
    { induction l as [|[t ou] l IH]; intros acc Hl Ha; cbn [fold_left]; [exact Ha|].
      apply IH; [intros; apply Hl; now right|].
      cbn [fst snd]. destruct (Nat.eqb t j) eqn:E; [|exact Ha].
      apply Nat.eqb_eq in E. subst t.
      destruct ou as [u|]; [|exact Ha].
      assert (U : dist (pos i) (pos j) <= u) by (apply Hl; now left).
      destruct acc as [|x|]; cbn; auto. destruct (qltb' u x); cbn; auto. }
    apply G; [apply rels_ok|exact I].
  Qed.

  (* the distance bound used by relative-heading pruning holds in every scene that satisfies the visibility
     specifiers and the distance requirements *)
  Theorem max_distance_sound fixed i j d :
    max_distance_between fixed ego objs rels i j = EFin d -> dist (pos i) (pos j) <= d.
  Proof.
    unfold max_distance_between.
    set (D := dist (pos i) (pos j)).
    set (v1 := if Nat.eqb i ego && req_vis (obj j) then emin_opt fixed EInf (vis_bound (obj ego) (obj j)) else EInf).
    set (v2 := if Nat.eqb j ego && req_vis (obj i) then emin_opt fixed v1 (vis_bound (obj ego) (obj i)) else v1).
    set (v3 := if obs_is (observer (obj i)) j then emin_opt fixed v2 (vis_bound (obj j) (obj i)) else v2).
    set (v4 := if obs_is (observer (obj j)) i then emin_opt fixed v3 (vis_bound (obj i) (obj j)) else v3).
    assert (U1 : ub D v1).
    { unfold v1. destruct (Nat.eqb i ego) eqn:E; cbn [andb]; [|exact I].
      destruct (req_vis (obj j)) eqn:RV; [|exact I].
      apply Nat.eqb_eq in E. apply emin_opt_ub; [exact I|]. intros q Hq.
      unfold D. rewrite E. apply (vis_bound_sound ego j q); [now apply reqvis_ok|exact Hq]. }
    assert (U2 : ub D v2).
    { unfold v2. destruct (Nat.eqb j ego) eqn:E; cbn [andb]; [|exact U1].
      destruct (req_vis (obj i)) eqn:RV; [|exact U1].
      apply Nat.eqb_eq in E. apply emin_opt_ub; [exact U1|]. intros q Hq.
      unfold D. rewrite E. rewrite dist_sym. apply (vis_bound_sound ego i q); [now apply reqvis_ok|exact Hq]. }
    assert (U3 : ub D v3).
    { unfold v3. destruct (observer (obj i)) as [k|] eqn:O; cbn [obs_is]; [|exact U2].
      destruct (Nat.eqb k j) eqn:E; [|exact U2]. apply Nat.eqb_eq in E. subst k.
      apply emin_opt_ub; [exact U2|]. intros q Hq. unfold D. rewrite dist_sym.
      apply (vis_bound_sound j i q); [now apply observer_ok|exact Hq]. }
    assert (U4 : ub D v4).
    { unfold v4. destruct (observer (obj j)) as [k|] eqn:O; cbn [obs_is]; [|exact U3].
      destruct (Nat.eqb k i) eqn:E; [|exact U3]. apply Nat.eqb_eq in E. subst k.
      apply emin_opt_ub; [exact U3|]. intros q Hq. unfold D.
      apply (vis_bound_sound i j q); [now apply observer_ok|exact Hq]. }
    intros H.
    assert (U : ub D (emin v4 (req_dist (nth i rels []) j))) by (apply emin_ub; [exact U4|apply req_dist_ub]).
    destruct v4; try discriminate; rewrite H in U; exact U.
  Qed.

  (* pruneVisibility: an object seen by an observer has its SAMPLED point (position minus offset) within
     radius + maxDistance of the observer's view region, so intersecting the base region with any superset
     of that buffer keeps it *)
  Variable view : P -> Prop.
  Definition buffered (r : Q) (b : P) : Prop := exists x, view x /\ dist b x <= r.
  Theorem visibility_buffer_sound k (base : P) radius maxDistance :
    dist base (pos k) <= maxDistance ->                       (* position = base point + offset *)
    (forall x, pts k x -> dist (pos k) x <= radius) ->
    (exists x, pts k x /\ view x) ->                          (* some point of the object is in the view region *)
    buffered (radius + maxDistance) base.
  Proof.
    intros Ho Hr [x [Hx Hv]]. exists x. split; [exact Hv|].
    assert (T := dist_tri base (pos k) x). assert (R := Hr x Hx). lra.
  Qed.
End VisSound.

(* swapping the two arguments of visibilityBound in one branch is NOT sound: the observer sees farther than
   the observed object *)
Theorem vis_bound_swapped_refuted :
  exists (o t : vobj) (d : Q),
    vis_bound t o = Some d /\ exists q, vis_bound o t = Some q /\ d < q.
Proof.
  exists (mk_vobj (Some 60) (Some 0) (Some 1) false None), (mk_vobj (Some 50) (Some 0) (Some 1) false (Some 0%nat)).
  exists 51. split; [reflexivity|]. exists 61. split; reflexivity.
Qed.

(* ================================================================ the repaired overlap test *)
Lemma qleb_true_iff a b : qleb a b = true <-> a <= b.
Proof. unfold qleb. apply Qle_bool_iff. Qed.

(* generalisation of rh_range_sound_unnormalised to wrapping arcs: whatever points the code puts in its two
   lists, every difference of a target heading and a base heading lying between two listed points is in range *)
Lemma in_rhs points tpoints a d :
  In a points -> In d tpoints -> In (d - a) (flat_map (fun tp => map (fun p => tp - p) points) tpoints).
Proof.
  intros Ha Hd. apply in_flat_map. exists d. split; [exact Hd|].
  apply in_map_iff. exists a. split; [reflexivity|exact Ha].
Qed.

Definition rh_points (pi h oL oR : Q) : list Q :=
  let lower := normalize pi (h + oL) in
  let upper := normalize pi (h + oR) in
  if qltb' upper lower then [lower; upper; pi; - pi] else [lower; upper].

Lemma rh_range_points pi bh oL oR th tL tR :
  rh_range pi bh oL oR th tL tR =
  match flat_map (fun tp => map (fun p => tp - p) (rh_points pi bh oL oR)) (rh_points pi th tL tR) with
  | [] => (0, 0) | x :: r => (lmin x r, lmax x r) end.
Proof. reflexivity. Qed.

Lemma in_min_max (l : list Q) y :
  In y l -> match l with [] => True | x :: r => lmin x r <= y <= lmax x r end.
Proof.
  destruct l as [|x r]; [tauto|].
  destruct (lmin_le r x) as [A1 A2]. destruct (lmax_ge r x) as [B1 B2].
  intros [<-|H]; split; auto.
Qed.

Theorem rh_range_sound_hull pi bh oL oR th tL tR p tp a b c d :
  In a (rh_points pi bh oL oR) -> In b (rh_points pi bh oL oR) -> a <= p <= b ->
  In c (rh_points pi th tL tR) -> In d (rh_points pi th tL tR) -> c <= tp <= d ->
  fst (rh_range pi bh oL oR th tL tR) <= tp - p <= snd (rh_range pi bh oL oR th tL tR).
Proof.
  intros Ha Hb Hp Hc Hd Ht. rewrite rh_range_points.
  assert (I1 := in_rhs _ _ _ _ Hb Hc). assert (I2 := in_rhs _ _ _ _ Ha Hd).
  destruct (flat_map _ _) as [|x r]; [contradiction|].
  apply in_min_max in I1. apply in_min_max in I2. cbn [fst snd]. lra.
Qed.

(* if the normalised relative heading -- the difference shifted by -2pi, 0 or 2pi -- satisfies the requirement's
   bounds, the repaired test keeps the pair of cells *)
Theorem rh_overlap_fixed_complete pi range lowerBound upperBound x s :
  fst range <= x <= snd range ->
  s == - (2 * pi) \/ s == 0 \/ s == 2 * pi ->
  lowerBound <= x + s <= upperBound ->
  rh_overlap_fixed pi range lowerBound upperBound = true.
Proof.
  intros Hx Hs Hb. unfold rh_overlap_fixed, rh_overlap, shift_range. cbn [fst snd].
  destruct Hs as [E|[E|E]].
  - apply orb_true_iff; left. apply orb_true_iff; left.
    apply andb_true_iff; split; apply qleb_true_iff; lra.
  - apply orb_true_iff; left. apply orb_true_iff; right.
    apply andb_true_iff; split; apply qleb_true_iff; lra.
  - apply orb_true_iff; right.
    apply andb_true_iff; split; apply qleb_true_iff; lra.
Qed.

(* normalizeAngle of a difference of two normalised headings is that difference shifted by -2pi, 0 or 2pi *)
Lemma qltb'_true a b : qltb' a b = true -> a < b.
Proof. unfold qltb'. intros H. apply negb_true_iff in H. apply Qnot_le_lt. intro L. apply Qle_bool_iff in L. congruence. Qed.
Lemma qltb'_false a b : qltb' a b = false -> b <= a.
Proof. unfold qltb'. intros H. apply negb_false_iff in H. now apply Qle_bool_iff. Qed.

Lemma normalize_shift pi x :
  0 < pi -> - (2 * pi) <= x <= 2 * pi ->
  exists s, (s == - (2 * pi) \/ s == 0 \/ s == 2 * pi) /\ normalize pi x == x + s /\ - pi <= x + s <= pi.
Proof.
  intros Hpi Hx. unfold normalize.
  assert (D : exists y, norm_down pi 8 x = y /\ ((y = x /\ x <= pi) \/ (y = x - 2 * pi /\ pi < x))).
  { cbn [norm_down]. destruct (qltb' pi x) eqn:E1.
    - apply qltb'_true in E1. destruct (qltb' pi (x - 2 * pi)) eqn:E2.
      + apply qltb'_true in E2. lra.
      + eexists; split; [reflexivity|right; split; [reflexivity|exact E1]].
    - apply qltb'_false in E1. eexists; split; [reflexivity|left; split; [reflexivity|exact E1]]. }
  destruct D as [y [-> [[-> Hy]|[-> Hy]]]].
  - cbn [norm_up]. destruct (qltb' x (- pi)) eqn:E1.
    + apply qltb'_true in E1. destruct (qltb' (x + 2 * pi) (- pi)) eqn:E2.
      * apply qltb'_true in E2. lra.
      * exists (2 * pi). split; [right; right; reflexivity|]. split; [reflexivity|lra].
    + apply qltb'_false in E1. exists 0. split; [right; left; reflexivity|]. split; [lra|lra].
  - cbn [norm_up]. destruct (qltb' (x - 2 * pi) (- pi)) eqn:E1.
    + apply qltb'_true in E1. lra.
    + apply qltb'_false in E1. exists (- (2 * pi)). split; [left; reflexivity|]. split; [lra|lra].
Qed.

(* end to end: base heading p and target heading tp between listed points, all listed points in [-pi, pi]; if the
   normalised relative heading satisfies the bounds the repaired test accepts, while the test as it is rejects
   the witness of rh_range_refuted *)
Theorem rh_overlap_fixed_sound pi bh oL oR th tL tR p tp a b c d lowerBound upperBound :
  0 < pi ->
  In a (rh_points pi bh oL oR) -> In b (rh_points pi bh oL oR) -> a <= p <= b ->
  In c (rh_points pi th tL tR) -> In d (rh_points pi th tL tR) -> c <= tp <= d ->
  - pi <= p <= pi -> - pi <= tp <= pi ->
  lowerBound <= normalize pi (tp - p) <= upperBound ->
  rh_overlap_fixed pi (rh_range pi bh oL oR th tL tR) lowerBound upperBound = true.
Proof.
  intros Hpi Ha Hb Hp Hc Hd Ht Pp Pt Hn.
  assert (R := rh_range_sound_hull pi bh oL oR th tL tR p tp a b c d Ha Hb Hp Hc Hd Ht).
  destruct (normalize_shift pi (tp - p) Hpi) as [s [Hs [E _]]]; [lra|].
  apply (rh_overlap_fixed_complete pi _ lowerBound upperBound (tp - p) s R Hs). lra.
Qed.

Theorem rh_overlap_fixed_repairs_witness :
  let pi := 22 # 7 in
  let r := rh_range pi 3 0 0 (-3) 0 0 in
  rh_overlap r 0 1 = false /\ rh_overlap_fixed pi r 0 1 = true.
Proof. vm_compute. split; reflexivity. Qed.

(* ================================================================ retry loops *)
Section RetryProofs.
  Variable R : Type.
  Variable attempt : Q -> option R.

  Lemma next_pitch_ge p : 1 <= 2 * p -> 1 <= next_pitch p.
  Proof. intros H. unfold next_pitch, qmin. destruct (qleb (2 * p) 1); lra. Qed.
  Lemma next_pitch_double p : 2 * p <= 1 -> next_pitch p == 2 * p.
  Proof.
    intros H. unfold next_pitch, qmin. destruct (qleb (2 * p) 1) eqn:E; [reflexivity|].
    apply qleb_false in E. lra.
  Qed.

  (* bufferHelper's loop ends as soon as the pitch has reached 1, where _bufferOverapproximate takes the
     bounding-box path and cannot fail: k doublings suffice from any pitch >= 2^-k *)
  Theorem buffer_retry_terminates :
    (forall p, 1 <= p -> attempt p <> None) ->
    forall k p, 1 <= inject_Z (2 ^ Z.of_nat k) * p -> retry R attempt (S k) p <> None.
  Proof.
    intros H1 k. induction k as [|k IH]; intros p Hp.
    - cbn [retry]. change (inject_Z (2 ^ Z.of_nat 0)) with 1 in Hp.
      destruct (attempt p) eqn:A; [discriminate|]. exfalso. apply (H1 p); [lra|exact A].
    - cbn [retry]. destruct (attempt p) eqn:A; [discriminate|].
      apply IH.
      assert (E : inject_Z (2 ^ Z.of_nat (S k)) == 2 * inject_Z (2 ^ Z.of_nat k)).
      { rewrite Nat2Z.inj_succ, Z.pow_succ_r by lia. rewrite inject_Z_mult. reflexivity. }
      rewrite E in Hp.
      assert (P : 0 <= inject_Z (2 ^ Z.of_nat k)).
      { change 0 with (inject_Z 0). rewrite <- Zle_Qle. apply Z.pow_nonneg. lia. }
      unfold next_pitch, qmin. destruct (qleb (2 * p) 1) eqn:Q.
      + lra.
      + apply qleb_false in Q.
        assert (1 <= inject_Z (2 ^ Z.of_nat k)).
        { change 1 with (inject_Z 1). rewrite <- Zle_Qle.
          assert (0 < 2 ^ Z.of_nat k)%Z by (apply Z.pow_pos_nonneg; lia). lia. }
        lra.
  Qed.

  (* with PRUNING_PITCH = 0.15: 0.15, 0.3, 0.6, 1 *)
  Corollary buffer_retry_terminates_0_15 :
    (forall p, 1 <= p -> attempt p <> None) -> retry R attempt 4 pruning_pitch <> None.
  Proof. intros H. apply (buffer_retry_terminates H 3%nat). vm_compute. discriminate. Qed.

  (* the repaired erosion loop always ends, with or without an eroded container *)
  Theorem erosion_retry_giveup_terminates k p :
    1 <= inject_Z (2 ^ Z.of_nat k) * p -> retry_giveup R attempt (S k) p <> None.
  Proof.
    revert p. induction k as [|k IH]; intros p Hp.
    - cbn [retry_giveup]. change (inject_Z (2 ^ Z.of_nat 0)) with 1 in Hp.
      destruct (attempt p); [discriminate|].
      destruct (qleb 1 p) eqn:Q; [discriminate|]. apply qleb_false in Q. lra.
    - cbn [retry_giveup]. destruct (attempt p); [discriminate|].
      destruct (qleb 1 p) eqn:Q1; [discriminate|]. apply IH.
      assert (E : inject_Z (2 ^ Z.of_nat (S k)) == 2 * inject_Z (2 ^ Z.of_nat k)).
      { rewrite Nat2Z.inj_succ, Z.pow_succ_r by lia. rewrite inject_Z_mult. reflexivity. }
      rewrite E in Hp.
      unfold next_pitch, qmin. destruct (qleb (2 * p) 1) eqn:Q.
      + lra.
      + assert (1 <= inject_Z (2 ^ Z.of_nat k)).
        { change 1 with (inject_Z 1). rewrite <- Zle_Qle.
          assert (0 < 2 ^ Z.of_nat k)%Z by (apply Z.pow_pos_nonneg; lia). lia. }
        lra.
  Qed.
End RetryProofs.

(* pruneContainment as it is retries at the same pitch: one failure of the first attempt and the loop never ends,
   even when every other pitch would succeed *)
Theorem erosion_retry_asis_refuted :
  exists attempt : Q -> option unit,
    (forall p, ~ p == pruning_pitch -> attempt p <> None) /\
    forall fuel, retry_asis unit attempt fuel pruning_pitch = None.
Proof.
  exists (fun p => if Qeq_bool p pruning_pitch then None else Some tt). split.
  - intros p Hp. destruct (Qeq_bool p pruning_pitch) eqn:E; [|discriminate].
    apply Qeq_bool_iff in E. contradiction.
  - intros fuel. generalize pruning_pitch at 2. induction fuel as [|k IH]; intros p; [reflexivity|].
    cbn [retry_asis]. change (Qeq_bool pruning_pitch pruning_pitch) with true. cbn iota. apply IH.
Qed.

(* ================================================================ checkConditionedCycle terminates *)
Section CycleProofs.
  Variable deps : nat -> list nat.
  Variable n D : nat.
  Hypothesis closed : forall v, (v < n)%nat -> Forall (fun d => (d < n)%nat) (deps v).
  Hypothesis degree : forall v, (length (deps v) <= D)%nat.

  Lemma mem_true x l : mem x l = true <-> In x l.
  Proof.
    unfold mem. rewrite existsb_exists. split.
    - intros [y [H E]]. apply Nat.eqb_eq in E. now subst.
    - intros H. exists x. split; [exact H|apply Nat.eqb_refl].
  Qed.

  Lemma filter_len_le (A : Type) (f g : A -> bool) l :
    (forall x, In x l -> f x = true -> g x = true) -> (length (filter f l) <= length (filter g l))%nat.
  Proof.
    induction l as [|a l IH]; intros H; cbn; [lia|].
    assert (IH' := IH (fun x Hx => H x (or_intror Hx))).
    destruct (f a) eqn:F.
    - rewrite (H a (or_introl eq_refl) F). cbn. lia.
    - destruct (g a); cbn; lia.
  Qed.
  Lemma filter_len (A : Type) (f : A -> bool) l : (length (filter f l) <= length l)%nat.
  Proof. induction l as [|a l IH]; cbn; [lia|]. destruct (f a); cbn; lia. Qed.
  Lemma filter_len_lt (A : Type) (f g : A -> bool) l y :
    (forall x, In x l -> f x = true -> g x = true) -> In y l -> f y = false -> g y = true ->
    (length (filter f l) < length (filter g l))%nat.
  Proof.
    induction l as [|a l IH]; intros H Hy Fy Gy; [contradiction|]. cbn.
    assert (M := filter_len_le A f g l (fun x Hx => H x (or_intror Hx))).
    destruct Hy as [->|Hy].
    - rewrite Fy, Gy. cbn. lia.
    - assert (IH' := IH (fun x Hx => H x (or_intror Hx)) Hy Fy Gy).
      destruct (f a) eqn:F.
      + rewrite (H a (or_introl eq_refl) F). cbn. lia.
      + destruct (g a); cbn; lia.
  Qed.

  Lemma out_count_mono seen seen' :
    incl seen seen' -> (out_count n seen' <= out_count n seen)%nat.
  Proof.
    intros I. unfold out_count. apply filter_len_le. intros x _ H.
    apply negb_true_iff in H. apply negb_true_iff.
    destruct (mem x seen) eqn:M; [|reflexivity].
    apply mem_true in M. apply I in M. apply mem_true in M. congruence.
  Qed.
  Lemma out_count_strict seen seen' d :
    incl seen seen' -> (d < n)%nat -> mem d seen = false -> In d seen' ->
    (out_count n seen' < out_count n seen)%nat.
  Proof.
    intros I Hd M Hin. unfold out_count. apply (filter_len_lt _ _ _ _ d).
    - intros x _ H. apply negb_true_iff in H. apply negb_true_iff.
      destruct (mem x seen) eqn:M'; [|reflexivity].
      apply mem_true in M'. apply I in M'. apply mem_true in M'. congruence.
    - apply in_seq. lia.
    - apply negb_false_iff. now apply mem_true.
    - now rewrite M.
  Qed.

  (* every iteration strictly decreases D * (nodes not yet recorded) + (length of the work list) *)
  Theorem cycle_loop_terminates b :
    forall fuel seen unseen,
      Forall (fun d => (d < n)%nat) unseen ->
      (D * out_count n seen + length unseen < fuel)%nat ->
      cycle_loop deps fuel b seen unseen <> None.
  Proof.
    induction fuel as [|k IH]; intros seen unseen Hu Hm; [lia|].
    cbn [cycle_loop]. destruct unseen as [|t rest]; [discriminate|].
    destruct (Nat.eqb t b || mem b (deps t)); [discriminate|].
    inversion Hu as [|? ? Ht Hrest]; subst.
    set (new := deps t). set (fl := filter (fun d => negb (mem d seen)) new).
    assert (Cn : Forall (fun d => (d < n)%nat) new) by (apply closed; exact Ht).
    apply IH.
    - apply Forall_app. split; [|exact Hrest].
      apply Forall_forall. intros x Hx. apply in_rev in Hx. unfold fl in Hx. apply filter_In in Hx.
      destruct Hx as [Hx _]. rewrite Forall_forall in Cn. now apply Cn.
    - rewrite app_length, rev_length. cbn [length] in Hm.
      assert (L : (length fl <= D)%nat).
      { unfold fl. eapply Nat.le_trans; [apply filter_len|apply degree]. }
      assert (Mono : (out_count n (new ++ seen) <= out_count n seen)%nat)
        by (apply out_count_mono; apply incl_appr, incl_refl).
      destruct fl as [|d fl'] eqn:F.
      + cbn [length].
        assert (M2 : (D * out_count n (new ++ seen) <= D * out_count n seen)%nat)
          by (apply Nat.mul_le_mono_l; exact Mono).
        lia.
      + assert (Hd : In d fl) by (rewrite F; now left).
        unfold fl in Hd. apply filter_In in Hd. destruct Hd as [Hin Hneg].
        apply negb_true_iff in Hneg.
        assert (S : (out_count n (new ++ seen) < out_count n seen)%nat).
        { apply (out_count_strict seen (new ++ seen) d); [apply incl_appr, incl_refl| |exact Hneg|].
          - rewrite Forall_forall in Cn. now apply Cn.
          - apply in_or_app. now left. }
        assert (M2 : (D * (out_count n (new ++ seen) + 1) <= D * out_count n seen)%nat)
          by (apply Nat.mul_le_mono_l; lia).
        rewrite Nat.mul_add_distr_l, Nat.mul_1_r in M2. lia.
  Qed.

  Theorem cycle_check_terminates a b :
    (a < n)%nat -> check_cycle deps (D * n + D + 1) a b <> None.
  Proof.
    intros Ha. unfold check_cycle. destruct (Nat.eqb a b); [discriminate|].
    apply cycle_loop_terminates.
    - apply Forall_forall. intros x Hx. apply in_rev in Hx.
      assert (C := closed a Ha). rewrite Forall_forall in C. now apply C.
    - rewrite rev_length. assert (L := degree a).
      assert (O : (out_count n [] <= n)%nat).
      { unfold out_count. eapply Nat.le_trans; [apply filter_len|]. rewrite seq_length. lia. }
      nia.
  Qed.
End CycleProofs.

(* non-vacuity: a diamond-shaped dependency graph 0 -> 1,2 -> 3 *)
Example cycle_check_diamond :
  let deps := fun v => match v with 0 => [1; 2] | 1 => [3] | 2 => [3] | _ => [] end%nat in
  check_cycle deps 11 0 3 = Some true /\ check_cycle deps 11 3 0 = Some false.
Proof. split; reflexivity. Qed.
