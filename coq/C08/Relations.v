(* C08 — model of the requirement-syntax matcher of src/scenic/syntax/relations.py
   (RequirementMatcher.matchBounds / matchBoundsInner / matchAbsBounds and the clamps of
   inferDistanceRelations / inferRelativeHeadingRelations) on a mini-AST.  Definitions only. *)
From Coq Require Import ZArith QArith Qabs List Bool.
Import ListNotations.
Open Scope Q_scope.

(* terms of a comparison: what matchConstant / matchAtom can tell about a sub-expression *)
Inductive term :=
  | TConst (c : Q)          (* evaluates, before sampling, to a number *)
  | TAtom (q : nat)         (* DistanceFrom(X) / RelativeHeading(X): the bounded quantity number q *)
  | TAbs (t : term)         (* abs(t) *)
  | TAdd (a b : term)
  | TSub (a b : term)
  | TOther (k : nat).       (* any other expression (random, not an atom) *)

Inductive cmpop := Lt | LtE | Gt | GtE | Eq | NotEq | Is | IsNot | In_ | NotIn.

Record compare := { c_left : term; c_rest : list (cmpop * term) }.

(* ---- semantics (the spec): Python's chained comparison under a valuation *)
Fixpoint tval (nu om : nat -> Q) (t : term) : Q :=
  match t with
  | TConst c => c
  | TAtom q => nu q
  | TAbs a => Qabs (tval nu om a)
  | TAdd a b => tval nu om a + tval nu om b
  | TSub a b => tval nu om a - tval nu om b
  | TOther k => om k
  end.

Section Holds.
  Variable other : cmpop -> Q -> Q -> Prop.   (* is / in ...: whatever they mean *)
  Definition op_holds (o : cmpop) (a b : Q) : Prop :=
    match o with
    | Lt => a < b | LtE => a <= b | Gt => b < a | GtE => b <= a
    | Eq => a == b | NotEq => ~ a == b
    | _ => other o a b
    end.
  Fixpoint chain_holds (nu om : nat -> Q) (first : term) (rest : list (cmpop * term)) : Prop :=
    match rest with
    | [] => True
    | (o, second) :: r => op_holds o (tval nu om first) (tval nu om second) /\ chain_holds nu om second r
    end.
  Definition holds (nu om : nat -> Q) (c : compare) : Prop := chain_holds nu om (c_left c) (c_rest c).
End Holds.

(* ---- the matcher *)
(* matchConstant: the expression evaluates now and does not need sampling *)
Fixpoint const_of (t : term) : option Q :=
  match t with
  | TConst c => Some c
  | TAbs a => option_map Qabs (const_of a)
  | TAdd a b => match const_of a, const_of b with Some x, Some y => Some (x + y) | _, _ => None end
  | TSub a b => match const_of a, const_of b with Some x, Some y => Some (x - y) | _, _ => None end
  | TAtom _ | TOther _ => None
  end.
Definition atom_of (t : term) : option nat := match t with TAtom q => Some q | _ => None end.

Definition bound := (option Q * option Q * nat)%type.     (* lower, upper (None = no bound), target *)
Inductive mres := MNone | MBound (b : bound) | MInconsistent.

Definition is_eq (o : cmpop) : bool := match o with Eq => true | _ => false end.
Definition qltb (a b : Q) : bool := negb (Qle_bool b a).

Definition match_abs (node : term) (c : Q) (o : cmpop) (is_upper : bool) : mres :=
  match node with
  | TAbs arg =>
      if negb is_upper && negb (is_eq o) then MNone
      else if qltb c 0 then MInconsistent
      else
        match atom_of arg with
        | Some t => MBound (Some (- c), Some c, t)
        | None =>
            let pick (a b : term) : option (Q * nat) :=
              match const_of a, atom_of b with
              | Some m, Some t => Some (m, t)
              | _, _ => match const_of b, atom_of a with Some m, Some t => Some (m, t) | _, _ => None end
              end in
            match arg with
            | TAdd a b => match pick a b with
                          | Some (m, t) => MBound (Some (- c - m), Some (c - m), t) | None => MNone end
            | TSub a b => match pick a b with
                          | Some (m, t) => MBound (Some (- c + m), Some (c + m), t) | None => MNone end
            | _ => MNone
            end
        end
  | _ => MNone
  end.

(* [strict_ops = true]: behaviour after fix-C08-matcher-ops (only < <= == > >= give bounds);
   [false]: the code as it was, where every operator other than > >= == is read as <= (F11). *)
Definition accepted (strict_ops : bool) (o : cmpop) : bool :=
  match o with Lt | LtE | Eq => true | _ => negb strict_ops end.

Definition inner' (strict_ops : bool) (left right : term) (o : cmpop) : mres :=
  if negb (accepted strict_ops o) then MNone else
  let right_part :=
    match const_of right with
    | Some rc =>
        match atom_of left with
        | Some t => MBound (if is_eq o then (Some rc, Some rc, t) else (None, Some rc, t))
        | None => match_abs left rc o true
        end
    | None => MNone
    end in
  match const_of left with
  | Some lc =>
      match atom_of right with
      | Some t => MBound (if is_eq o then (Some lc, Some lc, t) else (Some lc, None, t))
      | None => match match_abs right lc o false with
                | MNone => right_part
                | r => r
                end
      end
  | None => right_part
  end.

Definition match_bounds_inner (strict_ops : bool) (left right : term) (o : cmpop) : mres :=
  match o with
  | Gt => inner' strict_ops right left Lt
  | GtE => inner' strict_ops right left LtE
  | _ => inner' strict_ops left right o
  end.

Definition omax (a b : option Q) : option Q :=   (* tighter lower bound; None = -inf *)
  match a, b with
  | None, x | x, None => x
  | Some x, Some y => Some (if Qle_bool x y then y else x)
  end.
Definition omin (a b : option Q) : option Q :=   (* tighter upper bound; None = +inf *)
  match a, b with
  | None, x | x, None => x
  | Some x, Some y => Some (if Qle_bool x y then x else y)
  end.

Definition btab := list (nat * (option Q * option Q)).
Fixpoint upd (tab : btab) (t : nat) (lo hi : option Q) : btab :=
  match tab with
  | [] => [(t, (lo, hi))]
  | (t', (l, h)) :: r => if Nat.eqb t t' then (t', (omax l lo, omin h hi)) :: r else (t', (l, h)) :: upd r t lo hi
  end.

Fixpoint match_chain (strict_ops : bool) (first : term) (rest : list (cmpop * term)) (tab : btab) : option btab :=
  match rest with
  | [] => Some tab
  | (o, second) :: r =>
      match match_bounds_inner strict_ops first second o with
      | MInconsistent => None                            (* InconsistentScenarioError *)
      | MNone => match_chain strict_ops second r tab
      | MBound (lo, hi, t) => match_chain strict_ops second r (upd tab t lo hi)
      end
  end.
Definition match_bounds (strict_ops : bool) (c : compare) : option btab :=
  match_chain strict_ops (c_left c) (c_rest c) [].

(* ---- clamps *)
(* inferDistanceRelations: Some (lower, upper) recorded, None = skipped as trivial *)
Definition dist_clamp (b : option Q * option Q) : option (Q * option Q) :=
  match b with
  | (None, None) => None
  | (None, Some u) => Some (0, Some u)
  | (Some l, u) => if qltb l 0 then (match u with None => None | _ => Some (0, u) end) else Some (l, u)
  end.
(* inferRelativeHeadingRelations with pi as a parameter *)
Definition rh_clamp (pi : Q) (b : option Q * option Q) : option (Q * Q) :=
  let lo := match fst b with None => - pi | Some l => if qltb l (- pi) then - pi else l end in
  let hi := match snd b with None => pi | Some u => if qltb pi u then pi else u end in
  if Qeq_bool lo (- pi) && Qeq_bool hi pi then None else Some (lo, hi).
