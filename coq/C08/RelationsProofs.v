(* C08 — every bound the (repaired) matcher extracts is implied by the requirement. *)
From Coq Require Import ZArith QArith Qabs List Bool Lia Lqa.
From Scenic Require Import C08.Relations.
Import ListNotations.
Open Scope Q_scope.

Definition lo_ok (l : option Q) (x : Q) : Prop := match l with Some a => a <= x | None => True end.
Definition hi_ok (u : option Q) (x : Q) : Prop := match u with Some b => x <= b | None => True end.
Definition bound_ok (nu : nat -> Q) (b : bound) : Prop :=
  let '(lo, hi, t) := b in lo_ok lo (nu t) /\ hi_ok hi (nu t).

Section Sound.
  Variable other : cmpop -> Q -> Q -> Prop.
  Variables nu om : nat -> Q.

  Lemma const_of_sound t : forall c, const_of t = Some c -> tval nu om t == c.
  Proof.
    induction t; cbn; intros c0 H; try discriminate.
    - inversion H. reflexivity.
    - destruct (const_of t) as [x|]; cbn in H; inversion H. rewrite (IHt x eq_refl). reflexivity.
    - destruct (const_of t1) as [x|]; try discriminate. destruct (const_of t2) as [y|]; try discriminate.
      inversion H. rewrite (IHt1 x eq_refl), (IHt2 y eq_refl). reflexivity.
    - destruct (const_of t1) as [x|]; try discriminate. destruct (const_of t2) as [y|]; try discriminate.
      inversion H. rewrite (IHt1 x eq_refl), (IHt2 y eq_refl). reflexivity.
  Qed.

  Lemma atom_of_sound t q : atom_of t = Some q -> tval nu om t = nu q.
  Proof. destruct t; cbn; intros H; inversion H. reflexivity. Qed.

  Lemma qltb_false a b : qltb a b = false -> b <= a.
  Proof. unfold qltb. intros H. apply negb_false_iff in H. now apply Qle_bool_iff. Qed.
  Lemma qltb_true a b : qltb a b = true -> a < b.
  Proof.
    unfold qltb. intros H. apply negb_true_iff in H. apply Qnot_le_lt. intro L.
    apply Qle_bool_iff in L. congruence.
  Qed.

  Lemma pick_sound a b m t :
    match const_of a, atom_of b with
    | Some m, Some t => Some (m, t)
    | _, _ => match const_of b, atom_of a with Some m, Some t => Some (m, t) | _, _ => None end
    end = Some (m, t) ->
    (tval nu om a == m /\ tval nu om b = nu t) \/ (tval nu om b == m /\ tval nu om a = nu t).
  Proof.
    destruct (const_of a) as [x|] eqn:Ca.
    - destruct (atom_of b) as [q|] eqn:Ab.
      + intros H; inversion H; subst. left. split; [now apply const_of_sound|now apply atom_of_sound].
      + destruct (const_of b) as [y|] eqn:Cb; try discriminate.
        destruct (atom_of a) as [q|] eqn:Aa; try discriminate.
        intros H; inversion H; subst. right. split; [now apply const_of_sound|now apply atom_of_sound].
    - destruct (const_of b) as [y|] eqn:Cb; try discriminate.
      destruct (atom_of a) as [q|] eqn:Aa; try discriminate.
      intros H; inversion H; subst. right. split; [now apply const_of_sound|now apply atom_of_sound].
  Qed.

  Lemma match_abs_sound node c o up b :
    match_abs node c o up = MBound b -> tval nu om node <= c -> bound_ok nu b.
  Proof.
    destruct node; cbn [match_abs]; try discriminate.
    destruct (negb up && negb (is_eq o)); try discriminate.
    destruct (qltb c 0); try discriminate.
    cbn [tval]. intros H L. apply Qabs_Qle_condition in L. destruct L as [L1 L2].
    destruct (atom_of node) as [q|] eqn:A.
    - inversion H; subst. rewrite (atom_of_sound _ _ A) in *. cbn. split; assumption.
    - destruct node; try discriminate.
      + match type of H with match ?p with _ => _ end = _ => destruct p as [[m t]|] eqn:P end; try discriminate.
        inversion H; subst. cbn [tval] in L1, L2.
        destruct (pick_sound _ _ _ _ P) as [[E1 E2]|[E1 E2]]; rewrite E2 in *; cbn; split; lra.
      + match type of H with match ?p with _ => _ end = _ => destruct p as [[m t]|] eqn:P end; try discriminate.
        inversion H; subst. cbn [tval] in L1, L2.
        destruct (pick_sound _ _ _ _ P) as [[E1 E2]|[E1 E2]]; rewrite E2 in *; cbn; split; lra.
  Qed.

  (* under the three accepted operators the left value is <= the right value *)
  Lemma accepted_le o a b : accepted true o = true -> op_holds other o a b -> a <= b /\ (is_eq o = true -> a == b).
  Proof.
    destruct o; cbn; try discriminate; intros _ H; split; try discriminate; try lra; auto.
  Qed.

  Lemma inner'_sound left right o b :
    inner' true left right o = MBound b ->
    op_holds other o (tval nu om left) (tval nu om right) -> bound_ok nu b.
  Proof.
    unfold inner'. destruct (accepted true o) eqn:Acc; cbn [negb]; try discriminate.
    intros H Hop. destruct (accepted_le _ _ _ Acc Hop) as [LE EQ].
    assert (RP : forall b',
      match const_of right with
      | Some rc => match atom_of left with
                   | Some t => MBound (if is_eq o then (Some rc, Some rc, t) else (None, Some rc, t))
                   | None => match_abs left rc o true end
      | None => MNone end = MBound b' -> bound_ok nu b').
    { intros b' H'. destruct (const_of right) as [rc|] eqn:Cr; try discriminate.
      assert (Er := const_of_sound _ _ Cr).
      destruct (atom_of left) as [t|] eqn:Al.
      - rewrite (atom_of_sound _ _ Al) in *.
        destruct (is_eq o) eqn:E; inversion H'; subst; cbn; [specialize (EQ eq_refl)|]; split; auto; lra.
      - eapply match_abs_sound; eauto. lra. }
    destruct (const_of left) as [lc|] eqn:Cl; [|now apply RP].
    assert (El := const_of_sound _ _ Cl).
    destruct (atom_of right) as [t|] eqn:Ar.
    - rewrite (atom_of_sound _ _ Ar) in *.
      destruct (is_eq o) eqn:E; inversion H; subst; cbn; [specialize (EQ eq_refl)|]; split; auto; lra.
    - destruct (match_abs right lc o false) as [|b'|] eqn:MA; try discriminate.
      + now apply RP.
      + inversion H; subst b'. eapply match_abs_sound; eauto.
        (* not an upper bound: the operator must be == *)
        destruct right; cbn [match_abs] in MA; try discriminate.
        destruct (is_eq o) eqn:E; cbn in MA; try discriminate. specialize (EQ eq_refl). lra.
  Qed.

  Lemma inner_sound left right o b :
    match_bounds_inner true left right o = MBound b ->
    op_holds other o (tval nu om left) (tval nu om right) -> bound_ok nu b.
  Proof.
    destruct o; cbn [match_bounds_inner]; intros H Hop; eapply inner'_sound; eauto.
  Qed.

  Definition tab_ok (tab : btab) : Prop :=
    forall t lo hi, In (t, (lo, hi)) tab -> lo_ok lo (nu t) /\ hi_ok hi (nu t).

  Lemma omax_ok a b x : lo_ok a x -> lo_ok b x -> lo_ok (omax a b) x.
  Proof. destruct a, b; cbn; auto. destruct (Qle_bool q q0); auto. Qed.
  Lemma omin_ok a b x : hi_ok a x -> hi_ok b x -> hi_ok (omin a b) x.
  Proof. destruct a, b; cbn; auto. destruct (Qle_bool q q0); auto. Qed.

  Lemma upd_ok tab t lo hi : tab_ok tab -> lo_ok lo (nu t) -> hi_ok hi (nu t) -> tab_ok (upd tab t lo hi).
  Proof.
    induction tab as [|[t' [l h]] r IH]; intros T L H t0 lo0 hi0 I; cbn in I.
    - destruct I as [I|[]]. inversion I; subst. auto.
    - destruct (Nat.eqb t t') eqn:E.
      + apply Nat.eqb_eq in E. subst t'. destruct I as [I|I].
        * inversion I; subst. destruct (T t0 l h (or_introl eq_refl)). split; [apply omax_ok|apply omin_ok]; auto.
        * apply (T t0 lo0 hi0). now right.
      + destruct I as [I|I].
        * apply (T t0 lo0 hi0). left. exact I.
        * apply IH; auto. intros a b c0 J. apply (T a b c0). now right.
  Qed.

  Lemma match_chain_sound rest : forall first tab tab',
    tab_ok tab -> match_chain true first rest tab = Some tab' ->
    chain_holds other nu om first rest -> tab_ok tab'.
  Proof.
    induction rest as [|[o second] r IH]; intros first tab tab' T M Hc; cbn in M.
    - inversion M; subst. exact T.
    - destruct Hc as [Hop Hr].
      destruct (match_bounds_inner true first second o) as [|[[lo hi] t]|] eqn:E; try discriminate.
      + eapply IH; eauto.
      + eapply IH; [|exact M|exact Hr].
        destruct (inner_sound _ _ _ _ E Hop) as [L H]. apply upd_ok; auto.
  Qed.

  Theorem match_bounds_sound c tab q lo hi :
    match_bounds true c = Some tab -> In (q, (lo, hi)) tab -> holds other nu om c ->
    lo_ok lo (nu q) /\ hi_ok hi (nu q).
  Proof.
    intros M I H. unfold match_bounds in M.
    assert (T : tab_ok tab) by (eapply match_chain_sound; eauto; intros ? ? ? []).
    exact (T q lo hi I).
  Qed.
End Sound.

(* F11: the unrepaired matcher reads `Q != 5` as `Q <= 5` *)
Theorem match_bounds_ne_refuted :
  exists c tab q hi nu,
    match_bounds false c = Some tab /\ In (q, (None, Some hi)) tab /\
    holds (fun _ _ _ => True) nu (fun _ => 0) c /\ ~ nu q <= hi.
Proof.
  exists {| c_left := TAtom 0; c_rest := [(NotEq, TConst 5)] |}, [(0%nat, (None, Some 5))], 0%nat, 5, (fun _ => 7).
  split; [reflexivity|]. split; [left; reflexivity|]. split.
  - cbn. split; [|exact I]. intros E. vm_compute in E. discriminate.
  - vm_compute. intros H. apply H. reflexivity.
Qed.

(* the clamps keep soundness given what a distance / a normalised angle is *)
Lemma dist_clamp_sound b l u d :
  0 <= d -> lo_ok (fst b) d -> hi_ok (snd b) d -> dist_clamp b = Some (l, u) -> l <= d /\ hi_ok u d.
Proof.
  destruct b as [[lo|] [hi|]]; cbn; intros D L U H.
  - destruct (qltb lo 0); inversion H; subst; auto.
  - destruct (qltb lo 0); inversion H; subst; auto.
  - inversion H; subst; auto.
  - discriminate.
Qed.

Lemma rh_clamp_sound pi b l u x :
  - pi <= x <= pi -> lo_ok (fst b) x -> hi_ok (snd b) x -> rh_clamp pi b = Some (l, u) -> l <= x <= u.
Proof.
  unfold rh_clamp. intros [X1 X2] L U H.
  match type of H with (if ?c then _ else _) = _ => destruct c end; try discriminate.
  inversion H; subst; clear H. split.
  - destruct (fst b); cbn in L; auto. destruct (qltb q (- pi)); auto.
  - destruct (snd b); cbn in U; auto. destruct (qltb pi q); auto.
Qed.
