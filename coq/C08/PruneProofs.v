(* C08 — relative-heading ranges, erosion / dilation arithmetic, conditioning. *)
From Coq Require Import ZArith QArith Qround Qabs List Bool Lia Lqa.
From Scenic Require Import C08.Prune.
Import ListNotations.
Open Scope Q_scope.

Lemma qleb_true a b : qleb a b = true -> a <= b.
Proof. unfold qleb. apply Qle_bool_iff. Qed.
Lemma qleb_false a b : qleb a b = false -> b < a.
Proof. unfold qleb. intros H. apply Qnot_le_lt. intro L. apply Qle_bool_iff in L. congruence. Qed.
Lemma qmin_l a b : qmin a b <= a.
Proof. unfold qmin. destruct (qleb a b) eqn:E; [lra|apply qleb_false in E; lra]. Qed.
Lemma qmin_r a b : qmin a b <= b.
Proof. unfold qmin. destruct (qleb a b) eqn:E; [apply qleb_true in E; lra|lra]. Qed.
Lemma qmax_l a b : a <= qmax a b.
Proof. unfold qmax. destruct (qleb a b) eqn:E; [apply qleb_true in E; lra|lra]. Qed.
Lemma qmax_r a b : b <= qmax a b.
Proof. unfold qmax. destruct (qleb a b) eqn:E; [lra|apply qleb_false in E; lra]. Qed.

Lemma lmin_le l : forall x, lmin x l <= x /\ forall y, In y l -> lmin x l <= y.
Proof.
  induction l as [|a l IH]; intros x; cbn.
  - split; [lra|tauto].
  - destruct (IH (qmin x a)) as [A B]. split.
    + eapply Qle_trans; [apply A|apply qmin_l].
    + intros y [->|H]; [eapply Qle_trans; [apply A|apply qmin_r]|auto].
Qed.
Lemma lmax_ge l : forall x, x <= lmax x l /\ forall y, In y l -> y <= lmax x l.
Proof.
  induction l as [|a l IH]; intros x; cbn.
  - split; [lra|tauto].
  - destruct (IH (qmax x a)) as [A B]. split.
    + eapply Qle_trans; [apply qmax_l|apply A].
    + intros y [->|H]; [eapply Qle_trans; [apply qmax_r|apply A]|auto].
Qed.

(* ---- relative heading ranges.
   Sound variant: when neither arc wraps, every UN-normalised difference tp - p of a target heading
   and a base heading inside their arcs lies in the returned range. *)
Theorem rh_range_sound_unnormalised pi bh oL oR th tL tR p tp :
  let lower := normalize pi (bh + oL) in let upper := normalize pi (bh + oR) in
  let tlower := normalize pi (th + tL) in let tupper := normalize pi (th + tR) in
  lower <= upper -> tlower <= tupper ->
  lower <= p <= upper -> tlower <= tp <= tupper ->
  fst (rh_range pi bh oL oR th tL tR) <= tp - p <= snd (rh_range pi bh oL oR th tL tR).
Proof.
  intros lower upper tlower tupper W1 W2 [P1 P2] [T1 T2].
  unfold rh_range. fold lower upper tlower tupper.
  assert (E1 : qltb' upper lower = false).
  { unfold qltb'. apply negb_false_iff. now apply Qle_bool_iff. }
  assert (E2 : qltb' tupper tlower = false).
  { unfold qltb'. apply negb_false_iff. now apply Qle_bool_iff. }
  rewrite E1, E2. cbn [flat_map map app fst snd].
  set (l := [tlower - upper; tupper - lower; tupper - upper]).
  destruct (lmin_le l (tlower - lower)) as [_ A]. destruct (lmax_ge l (tlower - lower)) as [_ B].
  split.
  - eapply Qle_trans; [apply (A (tlower - upper)); left; reflexivity|]. lra.
  - eapply Qle_trans; [|apply (B (tupper - lower)); right; left; reflexivity]. lra.
Qed.

(* F12: the returned differences are not normalised, but are compared with bounds in [-pi, pi]:
   base heading 3, target heading -3 (pi ~ 22/7): the true relative heading is 2/7, the range is (-6,-6) *)
Theorem rh_range_refuted :
  exists pi bh th, 3 < pi /\
    let r := rh_range pi bh 0 0 th 0 0 in
    let actual := normalize pi (th - bh) in
    (qleb (fst r) actual && qleb actual (snd r)) = false   (* the actual relative heading is outside the range *)
    /\ rh_overlap r 0 1 = false                            (* so a requirement 0 <= RH <= 1 prunes the cell pair *)
    /\ (qleb 0 actual && qleb actual 1) = true.            (* although the configuration satisfies it *)
Proof.
  exists (22 # 7), 3, (-3). split; [reflexivity|].
  vm_compute. repeat split.
Qed.

(* ---- erosion: the triangle-inequality core of containment pruning, in any metric space *)
Section Erosion'.
  Variable P : Type.
  Variable dist : P -> P -> Q.
  Hypothesis dist_tri : forall a b c, dist a c <= dist a b + dist b c.
  Hypothesis dist_sym : forall a b, dist a b == dist b a.
  Variable C : P -> Prop.
  Definition ball_in' (centre : P) (r : Q) : Prop := forall x, dist centre x <= r -> C x.

  Theorem erosion_sound pos centre r d :
    ball_in' centre r -> dist pos centre <= d -> ball_in' pos (r - d).
  Proof.
    intros B D x Hx. apply B.
    assert (T := dist_tri centre pos x). assert (S := dist_sym centre pos). lra.
  Qed.
End Erosion'.

(* ---- iteration counts *)
Lemma floor_mul_le m h : 0 < h -> inject_Z (Qfloor (m / h)) * h <= m.
Proof.
  intros H. assert (F := Qfloor_le (m / h)).
  assert (E : m == (m / h) * h) by (field; lra).
  rewrite E at 2. apply Qmult_le_compat_r; lra.
Qed.

(* each erosion pass removes at most h = hypot(tp,tp,tp); the passes never erode more than maxErosion *)
Theorem erode_iterations_safe maxErosion h :
  0 < h -> inject_Z (erode_iterations maxErosion h) * h <= maxErosion - h.
Proof.
  intros H. unfold erode_iterations. unfold Z.sub. rewrite inject_Z_plus.
  assert (F := floor_mul_le maxErosion h H).
  change (inject_Z (- (1))) with (- (1)). lra.
Qed.

Lemma ceil_mul_ge m h : 0 < h -> m <= inject_Z (Qceiling (m / h)) * h.
Proof.
  intros H. assert (F := Qle_ceiling (m / h)).
  assert (E : m == (m / h) * h) by (field; lra).
  rewrite E at 1. apply Qmult_le_compat_r; lra.
Qed.

(* each dilation pass grows the region by one voxel = target_pitch; with the repaired count the
   passes add at least minBuffer *)
Theorem buffer_iterations_fixed_sufficient minBuffer pitch ext :
  0 < pitch -> 0 < ext ->
  minBuffer <= inject_Z (buffer_iterations_fixed minBuffer pitch ext) * target_pitch pitch ext.
Proof.
  intros Hp He. unfold buffer_iterations_fixed. rewrite inject_Z_plus.
  assert (T : 0 < target_pitch pitch ext) by (unfold target_pitch; nra).
  assert (F := ceil_mul_ge minBuffer _ T).
  change (inject_Z 1) with 1. lra.
Qed.

(* F13 (arithmetic part): the code divides by pitch, not by the voxel size *)
Theorem buffer_iterations_sufficient_refuted :
  exists minBuffer pitch ext, 0 < pitch /\ 0 < ext /\
    inject_Z (buffer_iterations_asis minBuffer pitch) * target_pitch pitch ext < minBuffer.
Proof. exists 1, (1 # 4), (2 # 5). vm_compute. repeat split. Qed.

(* ---- conditioning on a finite atoms algebra: restricting the base region to any K that contains every
   accepted position leaves the accepted set -- with multiplicities, hence the conditional distribution of a
   uniform draw -- unchanged: no feasible scene is lost and none is added *)
Theorem conditioning_preserves (A : Type) (base : list A) (req k : A -> bool) :
  (forall a, In a base -> req a = true -> k a = true) ->
  filter req (filter k base) = filter req base.
Proof.
  intros H. induction base as [|a l IH]; cbn; [reflexivity|].
  assert (IH' : filter req (filter k l) = filter req l) by (apply IH; intros; apply H; auto; now right).
  destruct (k a) eqn:K; cbn.
  - rewrite IH'. reflexivity.
  - destruct (req a) eqn:R; [|exact IH'].
    rewrite (H a (or_introl eq_refl) R) in K. discriminate.
Qed.

(* and an over-eager K loses feasible scenes *)
Theorem conditioning_too_small_loses :
  exists (base : list nat) req k, filter req (filter k base) <> filter req base.
Proof. exists [1; 2]%nat, (fun _ => true), (fun a => Nat.eqb a 1). cbn. discriminate. Qed.
