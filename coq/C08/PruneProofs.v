(* C08 — relative-heading ranges, erosion / dilation arithmetic, conditioning. *)
From Coq Require Import ZArith QArith Qround Qabs List Bool Lia Lqa.
From Scenic Require Import C08.Prune.
Import ListNotations.
Open Scope Q_scope.

Lemma qleb_true a b : qleb a b = true -> a <= b.
Proof. unfold qleb. apply Qle_bool_iff. Qed.
Lemma qleb_false a b : qleb a b = false -> b < a.
Proof. unfold qleb. intros H. apply Qnot_le_lt. intro L. apply Qle_bool_iff in L. congruence. Qed.
Lemma qmin_l a b : qmin a b <= a.
Proof. unfold qmin. destruct (qleb a b) eqn:E; [lra|apply qleb_false in E; lra]. Qed.
Lemma qmin_r a b : qmin a b <= b.
Proof. unfold qmin. destruct (qleb a b) eqn:E; [apply qleb_true in E; lra|lra]. Qed.
Lemma qmax_l a b : a <= qmax a b.
Proof. unfold qmax. destruct (qleb a b) eqn:E; [apply qleb_true in E; lra|lra]. Qed.
Lemma qmax_r a b : b <= qmax a b.
Proof. unfold qmax. destruct (qleb a b) eqn:E; [lra|apply qleb_false in E; lra]. Qed.

Lemma lmin_le l : forall x, lmin x l <= x /\ forall y, In y l -> lmin x l <= y.
Proof.
  induction l as [|a l IH]; intros x; cbn.
  - split; [lra|tauto].
  - destruct (IH (qmin x a)) as [A B]. split.
    + eapply Qle_trans; [apply A|apply qmin_l].
    + intros y [->|H]; [eapply Qle_trans; [apply A|apply qmin_r]|auto].
Qed.
Lemma lmax_ge l : forall x, x <= lmax x l /\ forall y, In y l -> y <= lmax x l.
Proof.
  induction l as [|a l IH]; intros x; cbn.
  - split; [lra|tauto].
  - destruct (IH (qmax x a)) as [A B]. split.
    + eapply Qle_trans; [apply qmax_l|apply A].
    + intros y [->|H]; [eapply Qle_trans; [apply qmax_r|apply A]|auto].
Qed.

(* ---- relative heading ranges.
   Sound variant: when neither arc wraps, every UN-normalised difference tp - p of a target heading
   and a base heading inside their arcs lies in the returned range. *)
Theorem rh_range_sound_unnormalised pi bh oL oR th tL tR p tp :
  let lower := normalize pi (bh + oL) in let upper := normalize pi (bh + oR) in
  let tlower := normalize pi (th + tL) in let tupper := normalize pi (th + tR) in
  lower <= upper -> tlower <= tupper ->
  lower <= p <= upper -> tlower <= tp <= tupper ->
  fst (rh_range pi bh oL oR th tL tR) <= tp - p <= snd (rh_range pi bh oL oR th tL tR).
Proof.
  intros lower upper tlower tupper W1 W2 [P1 P2] [T1 T2].
  unfold rh_range. fold lower upper tlower tupper.
  assert (E1 : qltb' upper lower = false).
  { unfold qltb'. apply negb_false_iff. now apply Qle_bool_iff. }
  assert (E2 : qltb' tupper tlower = false).
  { unfold qltb'. apply negb_false_iff. now apply Qle_bool_iff. }
  rewrite E1, E2. cbn [flat_map map app fst snd].
  set (l := [tlower - upper; tupper - lower; tupper - upper]).
  destruct (lmin_le l (tlower - lower)) as [_ A]. destruct (lmax_ge l (tlower - lower)) as [_ B].
  split.
  - eapply Qle_trans; [apply (A (tlower - upper)); left; reflexivity|]. lra.
  - eapply Qle_trans; [|apply (B (tupper - lower)); right; left; reflexivity]. lra.
Qed.

(* F12: the returned differences are not normalised, but are compared with bounds in [-pi, pi]:
   base heading 3, target heading -3 (pi ~ 22/7): the true relative heading is 2/7, the range is (-6,-6) *)
Theorem rh_range_refuted :
  exists pi bh th, 3 < pi /\
    let r := rh_range pi bh 0 0 th 0 0 in
    let actual := normalize pi (th - bh) in
    (qleb (fst r) actual && qleb actual (snd r)) = false   (* the actual relative heading is outside the range *)
    /\ rh_overlap r 0 1 = false                            (* so a requirement 0 <= RH <= 1 prunes the cell pair *)
    /\ (qleb 0 actual && qleb actual 1) = true.            (* although the configuration satisfies it *)
Proof.
  exists (22 # 7), 3, (-3). split; [reflexivity|].
  vm_compute. repeat split.
Qed.

(* ---- erosion: the triangle-inequality core of containment pruning, in any metric space *)
Section Erosion'.
  Variable P : Type.
  Variable dist : P -> P -> Q.
  Hypothesis dist_tri : forall a b c, dist a c <= dist a b + dist b c.
  Hypothesis dist_sym : forall a b, dist a b == dist b a.
  Variable C : P -> Prop.
  Definition ball_in' (centre : P) (r : Q) : Prop := forall x, dist centre x <= r -> C x.

  Theorem erosion_sound pos centre r d :
    ball_in' centre r -> dist pos centre <= d -> ball_in' pos (r - d).
  Proof.
    intros B D x Hx. apply B.
    assert (T := dist_tri centre pos x). assert (S := dist_sym centre pos). lra.
  Qed.
End Erosion'.

(* ---- iteration counts *)
Lemma floor_mul_le m h : 0 < h -> inject_Z (Qfloor (m / h)) * h <= m.
Proof.
  intros H. assert (F := Qfloor_le (m / h)).
  assert (E : m == (m / h) * h) by (field; lra).
  rewrite E at 2. apply Qmult_le_compat_r; lra.
Qed.

(* each erosion pass removes at most h = hypot(tp,tp,tp); the passes never erode more than maxErosion *)
Theorem erode_iterations_safe maxErosion h :
  0 < h -> inject_Z (erode_iterations maxErosion h) * h <= maxErosion - h.
Proof.
  intros H. unfold erode_iterations. unfold Z.sub. rewrite inject_Z_plus.
  assert (F := floor_mul_le maxErosion h H).
  change (inject_Z (- (1))) with (- (1)). lra.
Qed.

Lemma ceil_mul_ge m h : 0 < h -> m <= inject_Z (Qceiling (m / h)) * h.
Proof.
  intros H. assert (F := Qle_ceiling (m / h)).
  assert (E : m == (m / h) * h) by (field; lra).
  rewrite E at 1. apply Qmult_le_compat_r; lra.
Qed.

(* each dilation pass grows the region by one voxel = target_pitch; with the repaired count the
   passes add at least minBuffer *)
Theorem buffer_iterations_fixed_sufficient minBuffer pitch ext :
  0 < pitch -> 0 < ext ->
  minBuffer <= inject_Z (buffer_iterations_fixed minBuffer pitch ext) * target_pitch pitch ext.
Proof.
  intros Hp He. unfold buffer_iterations_fixed. rewrite inject_Z_plus.
  assert (T : 0 < target_pitch pitch ext) by (unfold target_pitch; nra).
  assert (F := ceil_mul_ge minBuffer _ T).
  change (inject_Z 1) with 1. lra.
Qed.

(* F13 (arithmetic part): the code divides by pitch, not by the voxel size *)
Theorem buffer_iterations_sufficient_refuted :
  exists minBuffer pitch ext, 0 < pitch /\ 0 < ext /\
    inject_Z (buffer_iterations_asis minBuffer pitch) * target_pitch pitch ext < minBuffer.
Proof. exists 1, (1 # 4), (2 # 5). vm_compute. repeat split. Qed.

(* ---- conditioning on a finite atoms algebra: restricting the base region to any K that contains every
   accepted position leaves the accepted set -- with multiplicities, hence the conditional distribution of a
   uniform draw -- unchanged: no feasible scene is lost and none is added *)
Theorem conditioning_preserves (A : Type) (base : list A) (req k : A -> bool) :
  (forall a, In a base -> req a = true -> k a = true) ->
  filter req (filter k base) = filter req base.
Proof.
  intros H. induction base as [|a l IH]; cbn; [reflexivity|].
  assert (IH' : filter req (filter k l) = filter req l) by (apply IH; intros; apply H; auto; now right).
  destruct (k a) eqn:K; cbn.
  - rewrite IH'. reflexivity.
  - destruct (req a) eqn:R; [|exact IH'].
    rewrite (H a (or_introl eq_refl) R) in K. discriminate.
Qed.

(* and an over-eager K loses feasible scenes *)
Theorem conditioning_too_small_loses :
  exists (base : list nat) req k, filter req (filter k base) <> filter req base.
Proof. exists [1; 2]%nat, (fun _ => true), (fun a => Nat.eqb a 1). cbn. discriminate. Qed.

(* ---- the bounding-box fast path of _bufferOverapproximate: every face moves out by the buffer.
   Sup-norm statement (stronger than the Euclidean one: Euclidean distance <= b implies sup distance <= b). *)
(* the returned box has the same midpoint and extents + 2b: each face is exactly b outside the bounds *)
Lemma buffer_box_faces lo hi b :
  box_mid lo hi - box_ext lo hi b / 2 == lo - b /\ box_mid lo hi + box_ext lo hi b / 2 == hi + b.
Proof. unfold box_mid, box_ext. split; field. Qed.

Lemma buffer_axis_sufficient lo hi b x y :
  lo <= x <= hi -> Qabs (y - x) <= b ->
  box_mid lo hi - box_ext lo hi b / 2 <= y <= box_mid lo hi + box_ext lo hi b / 2.
Proof.
  intros [A B] D. apply Qabs_Qle_condition in D. destruct D as [D1 D2].
  destruct (buffer_box_faces lo hi b) as [E1 E2]. rewrite E1, E2. split; lra.
Qed.

Theorem buffer_box_sufficient : forall bounds b p q,
  in_bounds bounds p -> sup_within b p q -> in_box (buffer_box bounds b) q.
Proof.
  unfold in_bounds, sup_within, in_box, buffer_box.
  induction bounds as [|[lo hi] bounds IH]; intros b p q HB HD.
  - inversion HB; subst. inversion HD; subst. constructor.
  - inversion HB as [|? x ? p' Hx HB']; subst. inversion HD as [|? y ? q' Hy HD']; subst.
    cbn [map fst snd]. constructor.
    + cbn [fst snd] in *. now apply buffer_axis_sufficient with (x := x).
    + now apply IH with (p := p').
Qed.

(* Euclidean form in three dimensions *)
Lemma sq_le_abs d b : 0 <= b -> d * d <= b * b -> Qabs d <= b.
Proof.
  intros Hb H. apply Qabs_Qle_condition. split.
  - apply Qnot_lt_le. intro L. assert (0 < - d - b) by lra. assert (b < - d) by lra.
    assert (b * b < d * d) by nra. lra.
  - apply Qnot_lt_le. intro L. assert (b * b < d * d) by nra. lra.
Qed.

Lemma sq_nonneg' (d : Q) : 0 <= d * d.
Proof.
  destruct (Qlt_le_dec d 0) as [L|L].
  - assert (E : d * d == (- d) * (- d)) by ring. rewrite E. apply Qmult_le_0_compat; lra.
  - apply Qmult_le_0_compat; lra.
Qed.

Theorem buffer_box_sufficient_euclid : forall l1 h1 l2 h2 l3 h3 b x1 x2 x3 y1 y2 y3,
  0 <= b ->
  in_bounds [(l1, h1); (l2, h2); (l3, h3)] [x1; x2; x3] ->
  sqdist3 (x1, x2, x3) (y1, y2, y3) <= b * b ->
  in_box (buffer_box [(l1, h1); (l2, h2); (l3, h3)] b) [y1; y2; y3].
Proof.
  intros l1 h1 l2 h2 l3 h3 b x1 x2 x3 y1 y2 y3 Hb HB HD.
  apply buffer_box_sufficient with (p := [x1; x2; x3]); [exact HB|].
  unfold sqdist3 in HD.
  pose proof (sq_nonneg' (y1 - x1)) as S1. pose proof (sq_nonneg' (y2 - x2)) as S2. pose proof (sq_nonneg' (y3 - x3)) as S3.
  unfold sup_within. repeat constructor; apply sq_le_abs; try exact Hb; lra.
Qed.

(* growing the extents by less than 2b in total (k < 2, e.g. the `+ minBuffer` slip: k = 1) loses points:
   for every box and every positive buffer there is a point within b of the box outside the result *)
Theorem buffer_box_k_insufficient : forall k lo hi b,
  k < 2 -> 0 < b -> lo <= hi ->
  in_bounds [(lo, hi)] [hi] /\ sup_within b [hi] [hi + b] /\ ~ in_box (buffer_box_k k [(lo, hi)] b) [hi + b].
Proof.
  intros k lo hi b Hk Hb Hl. split; [|split].
  - repeat constructor; cbn; lra.
  - repeat constructor. assert (E : hi + b - hi == b) by ring. rewrite E. rewrite Qabs_pos; lra.
  - intro H. unfold in_box, buffer_box_k in H. cbn [map fst snd] in H. inversion H as [|? ? ? ? [_ U] _]; subst.
    cbn [fst snd] in U. unfold box_mid in U.
    assert (X : k * b < 2 * b) by (apply Qmult_lt_compat_r; assumption).
    assert (E : (lo + hi) / 2 + (hi - lo + k * b) / 2 == hi + (1 # 2) * (k * b)) by field.
    rewrite E in U. set (kb := k * b) in *. lra.
Qed.

Example buffer_box_example :
  in_bounds [(1, 3); (-2, 2); (0, 1)] [3; -2; 1] /\ sup_within (1 # 2) [3; -2; 1] [7 # 2; -5 # 2; 1]
  /\ in_box (buffer_box [(1, 3); (-2, 2); (0, 1)] (1 # 2)) [7 # 2; -5 # 2; 1]
  /\ box_mid 1 3 == 2 /\ box_ext 1 3 (1 # 2) == 3.
Proof.
  assert (A : in_bounds [(1, 3); (-2, 2); (0, 1)] [3; -2; 1]).
  { repeat constructor; cbn; lra. }
  assert (B : sup_within (1 # 2) [3; -2; 1] [7 # 2; -5 # 2; 1]).
  { repeat constructor; apply Qabs_Qle_condition; split; vm_compute; discriminate. }
  split; [exact A|]. split; [exact B|]. split; [exact (buffer_box_sufficient _ _ _ _ A B)|].
  split; vm_compute; reflexivity.
Qed.
