(* C08 — arithmetic of src/scenic/core/pruning.py and regions.py used by pruning. Definitions only. *)
From Coq Require Import ZArith QArith Qround Qabs List Bool.
Import ListNotations.
Open Scope Q_scope.

Definition qleb (a b : Q) : bool := Qle_bool a b.
Definition qltb' (a b : Q) : bool := negb (Qle_bool b a).
Definition qmin (a b : Q) := if qleb a b then a else b.
Definition qmax (a b : Q) := if qleb a b then b else a.
Definition lmin (x : Q) (l : list Q) := fold_left qmin l x.
Definition lmax (x : Q) (l : list Q) := fold_left qmax l x.

(* geometry.normalizeAngle with pi as a rational parameter; fuel bounds the two while loops *)
Fixpoint norm_down (pi : Q) (fuel : nat) (a : Q) : Q :=
  match fuel with O => a | S f => if qltb' pi a then norm_down pi f (a - 2 * pi) else a end.
Fixpoint norm_up (pi : Q) (fuel : nat) (a : Q) : Q :=
  match fuel with O => a | S f => if qltb' a (- pi) then norm_up pi f (a + 2 * pi) else a end.
Definition normalize (pi : Q) (a : Q) : Q := norm_up pi 8 (norm_down pi 8 a).

(* pruning.relativeHeadingRange (constant headings) *)
Definition rh_range (pi bh oL oR th tL tR : Q) : Q * Q :=
  let lower := normalize pi (bh + oL) in
  let upper := normalize pi (bh + oR) in
  let points := if qltb' upper lower then [lower; upper; pi; - pi] else [lower; upper] in
  let tlower := normalize pi (th + tL) in
  let tupper := normalize pi (th + tR) in
  let tpoints := if qltb' tupper tlower then [tlower; tupper; pi; - pi] else [tlower; tupper] in
  let rhs := flat_map (fun tp => map (fun p => tp - p) points) tpoints in
  match rhs with [] => (0, 0) | x :: r => (lmin x r, lmax x r) end.

(* feasibleRHPolygon's overlap test *)
Definition rh_overlap (range : Q * Q) (lowerBound upperBound : Q) : bool :=
  qleb lowerBound (snd range) && qleb (fst range) upperBound.

(* MeshVolumeRegion._erodeOverapproximate / _bufferOverapproximate iteration counts.
   [h] = math.hypot(tp, tp, tp) as computed by the code (passed in, a rational). *)
Definition target_pitch (pitch ext : Q) : Q := pitch * ext.
Definition erode_iterations (maxErosion h : Q) : Z := Qfloor (maxErosion / h) - 1.
Definition buffer_iterations_asis (minBuffer pitch : Q) : Z := Qceiling (minBuffer / pitch) + 1.
Definition buffer_iterations_fixed (minBuffer pitch ext : Q) : Z := Qceiling (minBuffer / target_pitch pitch ext) + 1.

(* pruneContainment: how far the container may be eroded *)
Definition max_erosion (minRadius maxDistance : Q) : Q := minRadius - maxDistance.

(* pruning.visibilityBound: distance + camera offset + radius (hyp = hypot(maxCameraX, maxCameraY) from the code) *)
Definition visibility_bound (visibleDistance hyp maxRadius : Q) : Q := visibleDistance + hyp + maxRadius.
