(* C08 — arithmetic of src/scenic/core/pruning.py and regions.py used by pruning. Definitions only. *)
From Coq Require Import ZArith QArith Qround Qabs List Bool.
Import ListNotations.
Open Scope Q_scope.

Definition qleb (a b : Q) : bool := Qle_bool a b.
Definition qltb' (a b : Q) : bool := negb (Qle_bool b a).
Definition qmin (a b : Q) := if qleb a b then a else b.
Definition qmax (a b : Q) := if qleb a b then b else a.
Definition lmin (x : Q) (l : list Q) := fold_left qmin l x.
Definition lmax (x : Q) (l : list Q) := fold_left qmax l x.

(* geometry.normalizeAngle with pi as a rational parameter; fuel bounds the two while loops *)
Fixpoint norm_down (pi : Q) (fuel : nat) (a : Q) : Q :=
  match fuel with O => a | S f => if qltb' pi a then norm_down pi f (a - 2 * pi) else a end.
Fixpoint norm_up (pi : Q) (fuel : nat) (a : Q) : Q :=
  match fuel with O => a | S f => if qltb' a (- pi) then norm_up pi f (a + 2 * pi) else a end.
Definition normalize (pi : Q) (a : Q) : Q := norm_up pi 8 (norm_down pi 8 a).

(* pruning.relativeHeadingRange (constant headings) *)
Definition rh_range (pi bh oL oR th tL tR : Q) : Q * Q :=
  let lower := normalize pi (bh + oL) in
  let upper := normalize pi (bh + oR) in
  let points := if qltb' upper lower then [lower; upper; pi; - pi] else [lower; upper] in
  let tlower := normalize pi (th + tL) in
  let tupper := normalize pi (th + tR) in
  let tpoints := if qltb' tupper tlower then [tlower; tupper; pi; - pi] else [tlower; tupper] in
  let rhs := flat_map (fun tp => map (fun p => tp - p) points) tpoints in
  match rhs with [] => (0, 0) | x :: r => (lmin x r, lmax x r) end.

(* feasibleRHPolygon's overlap test *)
Definition rh_overlap (range : Q * Q) (lowerBound upperBound : Q) : bool :=
  qleb lowerBound (snd range) && qleb (fst range) upperBound.

(* MeshVolumeRegion._erodeOverapproximate / _bufferOverapproximate iteration counts.
   [h] = math.hypot(tp, tp, tp) as computed by the code (passed in, a rational). *)
Definition target_pitch (pitch ext : Q) : Q := pitch * ext.
Definition erode_iterations (maxErosion h : Q) : Z := Qfloor (maxErosion / h) - 1.
Definition buffer_iterations_asis (minBuffer pitch : Q) : Z := Qceiling (minBuffer / pitch) + 1.
Definition buffer_iterations_fixed (minBuffer pitch ext : Q) : Z := Qceiling (minBuffer / target_pitch pitch ext) + 1.

(* pruneContainment: how far the container may be eroded *)
Definition max_erosion (minRadius maxDistance : Q) : Q := minRadius - maxDistance.

(* pruning.visibilityBound: distance + camera offset + radius (hyp = hypot(maxCameraX, maxCameraY) from the code) *)
Definition visibility_bound (visibleDistance hyp maxRadius : Q) : Q := visibleDistance + hyp + maxRadius.

(* ---- MeshVolumeRegion._bufferOverapproximate, fast path (pitch >= 1):
     bounds = mesh.bounds; midpoint = mean(bounds); extents = diff(bounds) + 2 * minBuffer;
     BoxRegion(position = midpoint, dimensions = extents).
   One axis: the bounding interval [lo, hi] becomes the box axis (midpoint, extent); a BoxRegion with that
   position / dimension occupies [mid - ext/2, mid + ext/2] on the axis.  Points are lists of coordinates
   (any dimension; the code uses 3). *)
Definition box_mid (lo hi : Q) : Q := (lo + hi) / 2.
Definition box_ext (lo hi b : Q) : Q := (hi - lo) + 2 * b.
Definition buffer_box (bounds : list (Q * Q)) (b : Q) : list (Q * Q) :=
  map (fun lh => (box_mid (fst lh) (snd lh), box_ext (fst lh) (snd lh) b)) bounds.
(* the seeded variant of the class "grown too little": [k] * b added to the extent in total *)
Definition buffer_box_k (k : Q) (bounds : list (Q * Q)) (b : Q) : list (Q * Q) :=
  map (fun lh => (box_mid (fst lh) (snd lh), (snd lh - fst lh) + k * b)) bounds.

(* spec side *)
Definition in_bounds (bounds : list (Q * Q)) (p : list Q) : Prop :=
  Forall2 (fun lh x => fst lh <= x <= snd lh) bounds p.
Definition in_box (box : list (Q * Q)) (p : list Q) : Prop :=
  Forall2 (fun me x => fst me - snd me / 2 <= x <= fst me + snd me / 2) box p.
Definition sup_within (b : Q) (p q : list Q) : Prop := Forall2 (fun x y => Qabs (y - x) <= b) p q.
Definition sqdist3 (p q : Q * Q * Q) : Q :=
  let '(x1, x2, x3) := p in let '(y1, y2, y3) := q in
  (y1 - x1) * (y1 - x1) + (y2 - x2) * (y2 - x2) + (y3 - x3) * (y3 - x3).
