(* C08 — the visibility plumbing of src/scenic/core/pruning.py: visibilityBound / maxDistanceBetween (which
   object's visibleDistance and which object's radius enter a distance bound), the repaired overlap test of
   feasibleRHPolygon, the retry loops of bufferHelper / pruneContainment, and checkConditionedCycle.
   Definitions only; proofs in VisibilityProofs.v. *)
From Coq Require Import ZArith QArith List Bool Arith.
From Scenic Require Import C08.Prune.
Import ListNotations.
Open Scope Q_scope.

(* ---------------------------------------------------------------- objects as pruning sees them *)
Record vobj := mk_vobj {
  vd_up : option Q;       (* upper support bound of visibleDistance (None: unknown) *)
  cam_hyp : option Q;     (* hypot of the upper support bounds of cameraOffset.x / .y (None: one is unknown) *)
  rad_up : option Q;      (* upper support bound of radius *)
  req_vis : bool;         (* requireVisible *)
  observer : option nat   (* _observingEntity: index of the observing object *)
}.
Definition no_obj : vobj := mk_vobj None None None false None.

(* pruning.visibilityBound(obj, target): None as soon as one ingredient is unknown *)
Definition vis_bound (o t : vobj) : option Q :=
  match vd_up o, cam_hyp o, rad_up t with
  | Some v, Some c, Some r => Some (visibility_bound v c r)
  | _, _, _ => None
  end.

(* float('inf') | a finite bound | TypeError raised by min(x, None) *)
Inductive ext := EInf | EFin (q : Q) | EErr.

(* visDist = min(visDist, visibilityBound(...)); [fixed] = fix-C08-visbound-none: an unknown bound is skipped
   instead of being passed to min() *)
Definition emin_opt (fixed : bool) (a : ext) (b : option Q) : ext :=
  match a, b with
  | EErr, _ => EErr
  | _, None => if fixed then a else EErr
  | EInf, Some q => EFin q
  | EFin x, Some q => EFin (qmin x q)
  end.
Definition emin (a b : ext) : ext :=
  match a, b with
  | EErr, _ | _, EErr => EErr
  | EInf, x => x
  | x, EInf => x
  | EFin x, EFin y => EFin (qmin x y)
  end.

Definition obs_is (a : option nat) (j : nat) : bool :=
  match a with Some i => Nat.eqb i j | None => false end.

(* distance relations of one object: (target, upper bound; None = inf) *)
Definition drel := (nat * option Q)%type.
Definition req_dist (rels : list drel) (j : nat) : ext :=
  fold_left (fun acc r =>
               if Nat.eqb (fst r) j then
                 match snd r, acc with
                 | Some u, EInf => EFin u
                 | Some u, EFin x => if qltb' u x then EFin u else EFin x
                 | _, _ => acc
                 end
               else acc) rels EInf.

(* pruning.maxDistanceBetween(scenario, obj = i, target = j) *)
Definition max_distance_between (fixed : bool) (ego : nat) (objs : list vobj) (rels : list (list drel)) (i j : nat) : ext :=
  let o := nth i objs no_obj in
  let t := nth j objs no_obj in
  let e := nth ego objs no_obj in
  let v1 := if Nat.eqb i ego && req_vis t then emin_opt fixed EInf (vis_bound e t) else EInf in
  let v2 := if Nat.eqb j ego && req_vis o then emin_opt fixed v1 (vis_bound e o) else v1 in
  let v3 := if obs_is (observer o) j then emin_opt fixed v2 (vis_bound t o) else v2 in
  let v4 := if obs_is (observer t) i then emin_opt fixed v3 (vis_bound o t) else v3 in
  match v4 with
  | EErr => EErr
  | _ => emin v4 (req_dist (nth i rels []) j)
  end.

(* ---------------------------------------------------------------- feasibleRHPolygon's overlap test, repaired
   (fix-C08-rh-wrap): the range of relativeHeadingRange holds UN-normalised differences in [-2pi, 2pi], the
   requirement bounds the NORMALISED relative heading, which is the difference shifted by -2pi, 0 or 2pi *)
Definition shift_range (r : Q * Q) (s : Q) : Q * Q := (fst r + s, snd r + s).
Definition rh_overlap_fixed (pi : Q) (range : Q * Q) (lowerBound upperBound : Q) : bool :=
  rh_overlap (shift_range range (- (2 * pi))) lowerBound upperBound
  || rh_overlap range lowerBound upperBound
  || rh_overlap (shift_range range (2 * pi)) lowerBound upperBound.

(* ---------------------------------------------------------------- retry loops *)
Definition pruning_pitch : Q := 3 # 20.            (* PRUNING_PITCH = 0.15 *)
Definition next_pitch (p : Q) : Q := qmin (2 * p) 1.
Section Retry.
  Variable R : Type.
  Variable attempt : Q -> option R.     (* one approximation attempt at a given pitch; None = not feasible *)
  (* bufferHelper: retries with the doubled pitch *)
  Fixpoint retry (fuel : nat) (p : Q) : option R :=
    match fuel with
    | O => None
    | S k => match attempt p with Some r => Some r | None => retry k (next_pitch p) end
    end.
  (* pruneContainment as it is: the attempt is always made at PRUNING_PITCH, whatever current_pitch is *)
  Fixpoint retry_asis (fuel : nat) (p : Q) : option R :=
    match fuel with
    | O => None
    | S k => match attempt pruning_pitch with Some r => Some r | None => retry_asis k (next_pitch p) end
    end.
  (* fix-C08-erosion-retry: attempt at the current pitch, give up (no erosion) once pitch 1 has failed *)
  Fixpoint retry_giveup (fuel : nat) (p : Q) : option (option R) :=
    match fuel with
    | O => None
    | S k => match attempt p with
             | Some r => Some (Some r)
             | None => if qleb 1 p then Some None else retry_giveup k (next_pitch p)
             end
    end.
End Retry.

(* ---------------------------------------------------------------- checkConditionedCycle *)
Section Cycle.
  Variable deps : nat -> list nat.       (* conditionedDeps *)
  Definition mem (x : nat) (l : list nat) : bool := existsb (Nat.eqb x) l.
  (* the work list is a Python list used as a stack (pop() takes the last element, += appends): its
     head here is the top.  [None] = out of fuel. *)
  Fixpoint cycle_loop (fuel : nat) (b : nat) (seen unseen : list nat) : option bool :=
    match fuel with
    | O => None
    | S k =>
        match unseen with
        | [] => Some false
        | t :: rest =>
            let new := deps t in
            if Nat.eqb t b || mem b new then Some true
            else cycle_loop k b (new ++ seen) (rev (filter (fun d => negb (mem d seen)) new) ++ rest)
        end
    end.
  Definition check_cycle (fuel : nat) (a b : nat) : option bool :=
    if Nat.eqb a b then Some true else cycle_loop fuel b [] (rev (deps a)).
  (* number of nodes below n not yet recorded *)
  Definition out_count (n : nat) (seen : list nat) : nat :=
    length (filter (fun v => negb (mem v seen)) (seq 0 n)).
End Cycle.
