(* C10 — the repaired compile protocol (C10/FrontendFixed.v): for ALL options, import trees and raise points the veneer
   globals are what they were before, the caller sees exactly the first injected exception (never an AssertionError or
   IndexError of the protocol itself), and on the raise points the old protocol recovers from both protocols agree. *)
From Coq Require Import ZArith NArith List Bool Lia.
From Scenic Require Import C10.Frontend C10.FrontendProofs C10.FrontendFixed.
Import ListNotations.
Open Scope Z_scope.

(* the state a completed activation of an imported module leaves *)
Definition push (id : N) (s : vstate) : vstate :=
  VS (activity s + 1) (id :: stack s) (Some id) (mode2D s) (busy s) (locked s) (lmodel s) (gparams s) (scenarios s) (simf s).

Lemma activate_fixed_default : forall r id s, busy s = false ->
  activate_fixed default_opts r id s =
  match act_point r with Some st => (Some (EUser st), s) | None => (None, push id s) end.
Proof.
  intros r id s Hb. unfold activate_fixed, push.
  cbn [default_opts has_overrides o_params o_model o_mode2D andb]. rewrite Hb.
  destruct r as [[]|]; reflexivity.
Qed.

Lemma push_inv : forall id s,
  busy s = false -> Z.of_nat (length (stack s)) = activity s -> 0 <= activity s -> inv (push id s).
Proof.
  intros id s Hb Hl Ha. unfold inv, push. cbn [busy activity stack current length hd_error].
  rewrite Nat2Z.inj_succ. repeat split; try assumption; try reflexivity; lia.
Qed.

(* the finally block of compileStream pops exactly what the activation pushed *)
Lemma deactivate_pushed : forall id s s2, inv s -> core_eq (push id s) s2 ->
  exists s3, deactivate s2 = (None, s3) /\ core_eq s s3.
Proof.
  intros id s s2 (I1 & I2 & I3 & I4) (B1 & B2 & B3 & B4 & B5 & B6 & B7).
  unfold push in B1, B2, B3, B4, B5, B6, B7. cbn [activity stack current mode2D busy locked lmodel] in B1, B2, B3, B4, B5, B6, B7.
  unfold deactivate. cbv zeta. rewrite <- B1, <- B2, <- B5.
  replace (activity s + 1 - 1) with (activity s) by lia.
  destruct (activity s <? 0) eqn:En; [apply Z.ltb_lt in En; lia|].
  rewrite I1, I2, Z.eqb_refl. cbn [negb].
  destruct (activity s =? 0) eqn:E0; [apply Z.eqb_eq in E0; lia|].
  eexists. split; [reflexivity|].
  unfold core_eq. cbn [activity stack current mode2D busy locked lmodel].
  repeat split; assumption.
Qed.

Lemma deactivate_top : forall id sa sb,
  activity sa = 1 -> stack sa = [id] -> busy sa = false -> core_eq sa sb -> deactivate sb = (None, s0).
Proof.
  intros id sa sb Ha Hst Hb (B1 & B2 & B3 & B4 & B5 & B6 & B7).
  unfold deactivate. rewrite <- B1, <- B2, <- B5, Ha, Hst, Hb. reflexivity.
Qed.

(* what the imported modules do: the core of the state is preserved and the first raise point is reported *)
Definition imports_ok (ms : mods) : Prop := forall s, inv s ->
  core_eq s (snd (run_imports_fixed ms s))
  /\ fst (run_imports_fixed ms s) = option_map EUser (first_raise_mods ms).

Lemma body_fixed_spec : forall r id imps s1, imports_ok imps -> inv s1 ->
  core_eq s1 (snd (body_fixed r id imps s1))
  /\ fst (body_fixed r id imps s1)
     = option_map EUser (or_else (pre_point r) (or_else (first_raise_mods imps) (post_point r))).
Proof.
  intros r id imps s1 Hok Hinv. unfold body_fixed.
  destruct (Hok (dirty id s1) (inv_core _ _ (dirty_core id s1) Hinv)) as [Hc Hf].
  destruct (run_imports_fixed imps (dirty id s1)) as [ei si]. cbn [fst snd] in Hc, Hf. subst ei.
  assert (Hc1 : core_eq s1 si) by (eapply core_eq_trans; [apply dirty_core | exact Hc]).
  destruct r as [[]|]; cbn [at_step step_eqb pre_point post_point or_else option_map fst snd];
    try (split; [apply core_eq_refl | reflexivity]);
    destruct (first_raise_mods imps); cbn [or_else option_map fst snd]; (split; [exact Hc1 | reflexivity]).
Qed.

Lemma run_imports_fixed_unfold : forall r id imps next s,
  run_imports_fixed (MCons r id imps next) s =
  let '(ea, s1) := activate_fixed default_opts r id s in
  match ea with
  | Some e => (Some e, s1)
  | None =>
      let '(eb, s2) := body_fixed r id imps s1 in
      let '(ed, s3) := deactivate s2 in
      match (match ed with Some e => Some e | None => eb end) with
      | Some e => (Some e, s3)
      | None => run_imports_fixed next s3
      end
  end.
Proof. reflexivity. Qed.

Lemma run_imports_fixed_spec : forall ms, imports_ok ms.
Proof.
  induction ms as [|r id imps IHi next IHn]; intros s Hinv.
  - split; [apply core_eq_refl | reflexivity].
  - rewrite run_imports_fixed_unfold. cbn [first_raise_mods].
    rewrite activate_fixed_default by exact (proj1 Hinv).
    destruct (act_point r) as [st|]; [split; [apply core_eq_refl | reflexivity]|].
    cbn [or_else]. cbv beta iota.
    assert (Hp : inv (push id s)).
    { destruct Hinv as (I1 & I2 & I3 & I4). apply push_inv; [assumption | assumption | lia]. }
    destruct (body_fixed_spec r id imps (push id s) IHi Hp) as [Hc Hf].
    destruct (body_fixed r id imps (push id s)) as [eb s2]. cbn [fst snd] in Hc, Hf.
    destruct (deactivate_pushed id s s2 Hinv Hc) as (s3 & Hd & Hc3). rewrite Hd. cbv beta iota.
    subst eb.
    destruct (pre_point r) as [st|]; cbn [or_else option_map]; [split; [exact Hc3 | reflexivity]|].
    destruct (first_raise_mods imps) as [st|]; cbn [or_else option_map]; [split; [exact Hc3 | reflexivity]|].
    destruct (post_point r) as [st|]; cbn [or_else option_map]; [split; [exact Hc3 | reflexivity]|].
    destruct (IHn s3 (inv_core _ _ Hc3 Hinv)) as [Hcn Hfn].
    split; [eapply core_eq_trans; [exact Hc3 | exact Hcn] | exact Hfn].
Qed.

(* the top-level activation from the idle state: it fails leaving s0, or completes *)
Lemma activate_fixed_s0 : forall o r id,
  exists sa,
    activate_fixed o r id s0 = match act_point r with Some st => (Some (EUser st), s0) | None => (None, sa) end
    /\ inv sa /\ activity sa = 1 /\ stack sa = [id].
Proof.
  intros o r id. unfold activate_fixed.
  destruct (has_overrides o); destruct (o_mode2D o);
    cbn [s0 activity busy mode2D stack current locked lmodel gparams scenarios simf Z.eqb negb andb orb];
    eexists; (split; [destruct r as [[]|]; reflexivity|]);
    unfold inv; cbn [activity busy stack current length hd_error]; repeat split; try reflexivity; cbn; lia.
Qed.

(* ------------------------------------------------------------------------------------------ main statement *)
Theorem scenario_from_stream_fixed_spec : forall o r id imps,
  scenario_from_stream_fixed o r id imps s0 = (option_map EUser (first_raise r imps), s0).
Proof.
  intros o r id imps. unfold scenario_from_stream_fixed, first_raise.
  destruct (activate_fixed_s0 o r id) as (sa & Ha & Hinv & Hact & Hst). rewrite Ha.
  destruct (body_fixed_spec r id imps sa (run_imports_fixed_spec imps) Hinv) as [Hc Hf].
  destruct (body_fixed r id imps sa) as [eb sb] eqn:EB. cbn [fst snd] in Hc, Hf. subst eb.
  pose proof (deactivate_top id sa sb Hact Hst (proj1 Hinv) Hc) as Hd.
  destruct r as [[]|];
    cbn [at_step step_eqb namespace_point act_point pre_point post_point construct_point or_else option_map] in *;
    try reflexivity;
    rewrite EB; destruct (first_raise_mods imps); cbn [or_else option_map]; rewrite Hd; reflexivity.
Qed.

(* the veneer globals are restored: all options, all import trees, all raise points *)
Theorem veneer_inactive_after_fixed : forall o r id imps,
  snd (scenario_from_stream_fixed o r id imps s0) = s0.
Proof. intros. rewrite scenario_from_stream_fixed_spec. reflexivity. Qed.

(* the caller sees the first injected exception in program order, and nothing when there is none *)
Theorem veneer_reports_first_fixed : forall o r id imps,
  fst (scenario_from_stream_fixed o r id imps s0) = option_map EUser (first_raise r imps).
Proof. intros. rewrite scenario_from_stream_fixed_spec. reflexivity. Qed.

Lemma quiet_first_raise : forall ms, quiet ms = true -> first_raise_mods ms = None.
Proof.
  induction ms as [|r id imps IHi next IHn]; intros H; [reflexivity|].
  cbn [quiet] in H. destruct r as [st|]; [discriminate H|].
  apply andb_true_iff in H as [H1 H2].
  cbn [first_raise_mods act_point pre_point post_point or_else]. rewrite (IHi H1), (IHn H2). reflexivity.
Qed.

(* a raise point of the top-level module is reported as itself: always when it strikes before the imports run, and at
   the later points when no imported module raises first *)
Theorem veneer_reports_original_fixed : forall o r id imps st,
  r = Some st -> before_imports st = true \/ quiet imps = true ->
  fst (scenario_from_stream_fixed o r id imps s0) = Some (EUser st).
Proof.
  intros o r id imps st -> H. rewrite veneer_reports_first_fixed. unfold first_raise.
  destruct H as [H|H].
  - destruct st; try discriminate H; reflexivity.
  - rewrite (quiet_first_raise _ H). destruct st; reflexivity.
Qed.

(* a raise point inside an imported module (none in the top-level module) is reported as itself *)
Theorem veneer_reports_nested_fixed : forall o id imps st',
  first_raise_mods imps = Some st' ->
  fst (scenario_from_stream_fixed o None id imps s0) = Some (EUser st').
Proof.
  intros o id imps st' H. rewrite veneer_reports_first_fixed. unfold first_raise.
  cbn [namespace_point act_point pre_point post_point construct_point or_else]. rewrite H. reflexivity.
Qed.

(* whatever is reported is an injected exception of the tree, never an AssertionError / IndexError of the protocol *)
Theorem veneer_reports_user_fixed : forall o r id imps e,
  fst (scenario_from_stream_fixed o r id imps s0) = Some e ->
  exists st', e = EUser st' /\ first_raise r imps = Some st'.
Proof.
  intros o r id imps e H. rewrite veneer_reports_first_fixed in H.
  destruct (first_raise r imps) as [st'|]; [|discriminate H].
  injection H as <-. exists st'. split; reflexivity.
Qed.

Theorem veneer_no_raise_fixed : forall o id imps,
  quiet imps = true -> scenario_from_stream_fixed o None id imps s0 = (None, s0).
Proof.
  intros o id imps H. rewrite scenario_from_stream_fixed_spec. unfold first_raise.
  rewrite (quiet_first_raise _ H). reflexivity.
Qed.

(* the three unrecoverable witnesses of veneer_not_restored_early_raise under the repaired protocol *)
Example veneer_restored_early_raise_fixed :
  scenario_from_stream_fixed default_opts (Some RNamespace) 1%N MNil s0 = (Some (EUser RNamespace), s0)
  /\ scenario_from_stream_fixed (Opts true [5%N] None) (Some RActAfterIncr) 1%N MNil s0 = (Some (EUser RActAfterIncr), s0)
  /\ scenario_from_stream_fixed default_opts None 1%N (MCons (Some RActAfterIncr) 2%N MNil MNil) s0
     = (Some (EUser RActAfterIncr), s0).
Proof. vm_compute. repeat split; reflexivity. Qed.

(* ------------------------------------------------------------------------------------------ old vs repaired *)
(* no step of either protocol touches the "busy" flags *)
Lemma activate_busy : forall o r id s, busy (snd (activate o r id s)) = busy s.
Proof.
  intros o r id s. unfold activate.
  destruct (at_step r RActEntry); [reflexivity|].
  destruct (has_overrides o && negb (activity s =? 0)); [reflexivity|].
  destruct (has_overrides o); cbn [activity mode2D busy stack current locked lmodel gparams scenarios simf];
    destruct (o_mode2D o && negb (mode2D s || (activity s =? 0))); try reflexivity;
    destruct (at_step r RActAfterIncr); try reflexivity; destruct (busy s) eqn:E; cbn [snd busy]; congruence.
Qed.

Lemma deactivate_busy : forall s, busy (snd (deactivate s)) = busy s.
Proof.
  intros s. unfold deactivate. cbv zeta.
  destruct (activity s - 1 <? 0); [reflexivity|].
  destruct (busy s) eqn:E; [cbn [snd busy]; congruence|].
  destruct (stack s) as [|x st]; [cbn [snd busy]; congruence|].
  destruct (negb (Z.of_nat (length st) =? activity s - 1)); [cbn [snd busy]; congruence|].
  destruct (activity s - 1 =? 0); cbn [snd busy]; congruence.
Qed.

Lemma run_imports_unfold : forall r id imps next s,
  run_imports (MCons r id imps next) s =
  let '(ea, s1) := activate default_opts r id s in
  match ea with
  | Some e => (Some e, s1)
  | None =>
      let '(eb, s2) := body r id imps s1 in
      let '(ed, s3) := deactivate s2 in
      match (match ed with Some e => Some e | None => eb end) with
      | Some e => (Some e, s3)
      | None => run_imports next s3
      end
  end.
Proof. reflexivity. Qed.

Lemma body_busy : forall r id imps s1,
  (forall s, busy (snd (run_imports imps s)) = busy s) -> busy (snd (body r id imps s1)) = busy s1.
Proof.
  intros r id imps s1 Hi. unfold body. specialize (Hi (dirty id s1)). cbn [dirty busy] in Hi.
  destruct (run_imports imps (dirty id s1)) as [[e|] si]; cbn [snd] in Hi;
    destruct (at_step r RPreamble), (at_step r RParse), (at_step r RCompile), (at_step r RExec), (at_step r RStore);
    cbn [snd]; first [assumption | reflexivity].
Qed.

Lemma run_imports_busy : forall ms s, busy (snd (run_imports ms s)) = busy s.
Proof.
  induction ms as [|r id imps IHi next IHn]; intros s; [reflexivity|].
  rewrite run_imports_unfold.
  pose proof (activate_busy default_opts r id s) as Ha.
  destruct (activate default_opts r id s) as [[e|] s1]; cbn [snd] in Ha; [exact Ha|].
  pose proof (body_busy r id imps s1 IHi) as Hb.
  destruct (body r id imps s1) as [eb s2]. cbn [snd] in Hb.
  pose proof (deactivate_busy s2) as Hd.
  destruct (deactivate s2) as [ed s3]. cbn [snd] in Hd.
  destruct ed as [e|]; [cbn [snd]; congruence|].
  destruct eb as [e|]; [cbn [snd]; congruence|].
  rewrite IHn. congruence.
Qed.

Lemma activate_agree_default : forall r id s,
  at_step r RActAfterIncr = false -> busy s = false ->
  activate_fixed default_opts r id s = activate default_opts r id s.
Proof.
  intros r id s H Hb. unfold activate_fixed, activate.
  cbn [default_opts has_overrides o_params o_model o_mode2D andb activity mode2D busy stack current locked lmodel gparams scenarios simf].
  rewrite H, Hb. destruct (at_step r RActEntry); reflexivity.
Qed.

Lemma run_imports_agree : forall ms s,
  nested_safe ms = true -> busy s = false -> run_imports_fixed ms s = run_imports ms s.
Proof.
  induction ms as [|r id imps IHi next IHn]; intros s Hs Hb; [reflexivity|].
  cbn [nested_safe] in Hs. apply andb_true_iff in Hs as [Hs Hn]. apply andb_true_iff in Hs as [Hr Hi].
  apply negb_true_iff in Hr.
  rewrite run_imports_fixed_unfold, run_imports_unfold.
  rewrite (activate_agree_default r id s Hr Hb).
  pose proof (activate_busy default_opts r id s) as Ha.
  destruct (activate default_opts r id s) as [[e|] s1]; [reflexivity|]. cbn [snd] in Ha.
  assert (Hbody : body_fixed r id imps s1 = body r id imps s1).
  { unfold body_fixed, body. rewrite (IHi (dirty id s1) Hi); [reflexivity|]. cbn [dirty busy]. congruence. }
  rewrite Hbody.
  pose proof (body_busy r id imps s1 (run_imports_busy imps)) as Hbb.
  destruct (body r id imps s1) as [eb s2]. cbn [snd] in Hbb.
  pose proof (deactivate_busy s2) as Hd.
  destruct (deactivate s2) as [ed s3]. cbn [snd] in Hd.
  destruct ed as [e|]; [reflexivity|]. destruct eb as [e|]; [reflexivity|].
  apply IHn; [exact Hn | congruence].
Qed.

(* on the raise points from which the old protocol recovers, old and repaired protocol give the same exception and state *)
Theorem fixed_agrees_on_safe : forall o r id imps,
  top_safe r = true -> nested_safe imps = true ->
  scenario_from_stream_fixed o r id imps s0 = scenario_from_stream o r id imps s0.
Proof.
  intros o r id imps Ht Hn. unfold top_safe in Ht. apply negb_true_iff in Ht.
  apply orb_false_iff in Ht as [Ht E3]. apply orb_false_iff in Ht as [E1 E2].
  unfold scenario_from_stream_fixed, scenario_from_stream. rewrite E1.
  assert (Ha : exists sa, activate_fixed o r id s0 = (None, sa) /\ activate o r id s0 = (None, sa) /\ busy sa = false).
  { unfold activate_fixed, activate. rewrite E2, E3.
    destruct (has_overrides o); destruct (o_mode2D o);
      cbn [s0 activity busy mode2D stack current locked lmodel gparams scenarios simf Z.eqb negb andb orb];
      eexists; repeat split. }
  destruct Ha as (sa & Ha1 & Ha2 & Hb). rewrite Ha1, Ha2.
  assert (Hbody : body_fixed r id imps sa = body r id imps sa).
  { unfold body_fixed, body. rewrite (run_imports_agree imps (dirty id sa) Hn); [reflexivity|]. cbn [dirty busy]. exact Hb. }
  rewrite Hbody. reflexivity.
Qed.

(* hence the old guarantee is the repaired one restricted to those points *)
Corollary veneer_inactive_after_from_fixed : forall o r id imps,
  top_safe r = true -> nested_safe imps = true -> snd (scenario_from_stream o r id imps s0) = s0.
Proof.
  intros o r id imps Ht Hn. rewrite <- (fixed_agrees_on_safe o r id imps Ht Hn). apply veneer_inactive_after_fixed.
Qed.

Print Assumptions scenario_from_stream_fixed_spec.
Print Assumptions veneer_inactive_after_fixed.
Print Assumptions veneer_reports_first_fixed.
Print Assumptions veneer_reports_original_fixed.
Print Assumptions veneer_reports_nested_fixed.
Print Assumptions veneer_reports_user_fixed.
Print Assumptions veneer_no_raise_fixed.
Print Assumptions fixed_agrees_on_safe.
Print Assumptions veneer_inactive_after_from_fixed.
