(* C10 — lemmas: state restoration for every recoverable raise point, the raise points that are NOT recoverable,
   two-pass parse, error line, soundness of the nullable analysis. *)
From Coq Require Import ZArith NArith List Bool Lia.
From Scenic Require Import C10.Frontend C10.PEG.
Import ListNotations.

(* ------------------------------------------------------------------------------------------ protocol *)
Open Scope Z_scope.

(* what nested imports must preserve; the other globals (parameters, scenarios, simulator) may be dirtied *)
Definition core_eq (a b : vstate) : Prop :=
  activity a = activity b /\ stack a = stack b /\ current a = current b /\ mode2D a = mode2D b /\ busy a = busy b
  /\ locked a = locked b /\ lmodel a = lmodel b.

Definition inv (s : vstate) : Prop :=
  busy s = false /\ Z.of_nat (length (stack s)) = activity s /\ current s = hd_error (stack s) /\ 1 <= activity s.

Lemma core_eq_refl : forall s, core_eq s s.
Proof. intros s. repeat split. Qed.

Lemma core_eq_trans : forall a b c, core_eq a b -> core_eq b c -> core_eq a c.
Proof.
  intros a b c (A1 & A2 & A3 & A4 & A5 & A6 & A7) (B1 & B2 & B3 & B4 & B5 & B6 & B7).
  repeat split; congruence.
Qed.

Lemma inv_core : forall a b, core_eq a b -> inv a -> inv b.
Proof.
  intros a b (A1 & A2 & A3 & A4 & A5 & A6 & A7) (I1 & I2 & I3 & I4).
  unfold inv. rewrite <- A1, <- A2, <- A3, <- A5. auto.
Qed.

Lemma dirty_core : forall id s, core_eq s (dirty id s).
Proof. intros id s. repeat split. Qed.

(* a nested import from a consistent active state: whatever happens (no raise, or a raise at a recoverable point),
   the core of the state is what it was *)
Lemma run_imports_core : forall ms s,
  nested_safe ms = true -> inv s -> core_eq s (snd (run_imports ms s)).
Proof.
  induction ms as [|r id imps IHi next IHn]; intros s Hsafe Hinv.
  - apply core_eq_refl.
  - cbn [nested_safe] in Hsafe. apply andb_true_iff in Hsafe as [Hsafe Hn]. apply andb_true_iff in Hsafe as [Hr Hi].
    apply negb_true_iff in Hr.
    destruct Hinv as (I1 & I2 & I3 & I4).
    cbn [run_imports]. unfold activate. cbn [default_opts has_overrides o_params o_model o_mode2D andb].
    destruct (at_step r RActEntry) eqn:E1; [apply core_eq_refl|].
    rewrite Hr. cbn [busy activity stack current mode2D locked lmodel gparams scenarios simf]. rewrite I1.
    set (s1 := VS (activity s + 1) (id :: stack s) (Some id) (mode2D s) false (locked s) (lmodel s) (gparams s) (scenarios s) (simf s)).
    assert (Hinv1 : inv s1).
    { unfold inv, s1. cbn [busy activity stack current length hd_error]. repeat split; try reflexivity; try lia.
      all: try (rewrite Nat2Z.inj_succ; lia). }
    (* the try-body leaves a state with the core of s1 *)
    assert (Hbody : forall eb s2,
      (if at_step r RPreamble then (Some (EUser RPreamble), s1)
       else if at_step r RParse then (Some (EUser RParse), s1)
       else if at_step r RCompile then (Some (EUser RCompile), s1)
       else let '(ei, si) := run_imports imps (dirty id s1) in
            match ei with
            | Some e => (Some e, si)
            | None => if at_step r RExec then (Some (EUser RExec), si)
                      else if at_step r RStore then (Some (EUser RStore), si) else (None, si)
            end) = (eb, s2) -> core_eq s1 s2).
    { intros eb s2 H.
      destruct (at_step r RPreamble); [injection H as _ <-; apply core_eq_refl|].
      destruct (at_step r RParse); [injection H as _ <-; apply core_eq_refl|].
      destruct (at_step r RCompile); [injection H as _ <-; apply core_eq_refl|].
      pose proof (IHi (dirty id s1) Hi (inv_core _ _ (dirty_core id s1) Hinv1)) as Hc.
      destruct (run_imports imps (dirty id s1)) as [ei si]. cbn [snd] in Hc.
      assert (core_eq s1 si) by (eapply core_eq_trans; [apply dirty_core | exact Hc]).
      destruct ei; [injection H as _ <-; assumption|].
      destruct (at_step r RExec); [injection H as _ <-; assumption|].
      destruct (at_step r RStore); injection H as _ <-; assumption. }
    destruct (if at_step r RPreamble then (Some (EUser RPreamble), s1) else _) as [eb s2] eqn:EB.
    specialize (Hbody eb s2 eq_refl).
    destruct Hbody as (B1 & B2 & B3 & B4 & B5 & B6 & B7).
    (* finally: deactivate pops the module's scenario again *)
    unfold deactivate. rewrite <- B1, <- B2, <- B5. unfold s1. cbn [activity stack busy].
    replace (activity s + 1 - 1) with (activity s) by lia.
    destruct (activity s <? 0) eqn:En; [apply Z.ltb_lt in En; lia|].
    rewrite I2. rewrite Z.eqb_refl. cbn [negb].
    destruct (activity s =? 0) eqn:E0; [apply Z.eqb_eq in E0; lia|].
    cbv beta iota.
    match goal with |- context [run_imports next ?x] => set (s3 := x) end.
    assert (Hc3 : core_eq s s3).
    { unfold s3, core_eq. cbn [activity stack current mode2D busy locked lmodel].
      rewrite <- B4, <- B6, <- B7. unfold s1. cbn [mode2D locked lmodel].
      repeat split; try reflexivity; try assumption. }
    destruct eb as [e|]; [exact Hc3|].
    cbn [snd]. eapply core_eq_trans; [exact Hc3|].
    apply IHn; [exact Hn|]. eapply inv_core; [exact Hc3|]. repeat split; assumption.
Qed.

Lemma top_tail : forall r id imps sa,
  inv sa -> activity sa = 1 -> stack sa = [id] -> nested_safe imps = true ->
  snd (let '(e1, s1) :=
         (let '(eb, sb) := body r id imps sa in
          match eb with
          | Some e => (Some e, sb)
          | None => if at_step r RConstruct then (Some (EUser RConstruct), sb) else (None, sb)
          end) in
       let '(ed, s2) := deactivate s1 in
       (match ed with Some e => Some e | None => e1 end, s2)) = s0.
Proof.
  intros r id imps sa Hinv Ha Hst Hn.
  assert (Hb : forall eb sb, body r id imps sa = (eb, sb) -> core_eq sa sb).
  { intros eb sb H. unfold body in H.
    destruct (at_step r RPreamble); [injection H as _ <-; apply core_eq_refl|].
    destruct (at_step r RParse); [injection H as _ <-; apply core_eq_refl|].
    destruct (at_step r RCompile); [injection H as _ <-; apply core_eq_refl|].
    pose proof (run_imports_core imps (dirty id sa) Hn (inv_core _ _ (dirty_core id sa) Hinv)) as Hc.
    destruct (run_imports imps (dirty id sa)) as [ei si]. cbn [snd] in Hc.
    assert (core_eq sa si) by (eapply core_eq_trans; [apply dirty_core | exact Hc]).
    destruct ei; [injection H as _ <-; assumption|].
    destruct (at_step r RExec); [injection H as _ <-; assumption|].
    destruct (at_step r RStore); injection H as _ <-; assumption. }
  destruct (body r id imps sa) as [eb sb] eqn:EB. specialize (Hb eb sb eq_refl).
  destruct Hb as (B1 & B2 & B3 & B4 & B5 & B6 & B7). destruct Hinv as (I1 & _).
  assert (Hd : snd (deactivate sb) = s0).
  { unfold deactivate. rewrite <- B1, <- B2, <- B5, Ha, Hst, I1. reflexivity. }
  destruct eb as [e|]; [destruct (deactivate sb); exact Hd|].
  destruct (at_step r RConstruct); destruct (deactivate sb); exact Hd.
Qed.

Theorem veneer_inactive_after : forall o r id imps,
  top_safe r = true -> nested_safe imps = true ->
  snd (scenario_from_stream o r id imps s0) = s0.
Proof.
  intros o r id imps Ht Hn. unfold top_safe in Ht. apply negb_true_iff in Ht.
  apply orb_false_iff in Ht as [Ht E3]. apply orb_false_iff in Ht as [E1 E2].
  unfold scenario_from_stream. rewrite E1. unfold activate. rewrite E2, E3.
  destruct (has_overrides o); destruct (o_mode2D o);
    cbn [s0 activity busy mode2D stack current locked lmodel gparams scenarios simf Z.eqb negb andb orb];
    apply top_tail; try assumption; try reflexivity; unfold inv; cbn; repeat split; try reflexivity; lia.
Qed.

(* the original exception is the one reported (the finally block does not mask it) *)
Theorem veneer_reports_original : forall o r id imps,
  top_safe r = true -> nested_safe imps = true ->
  forall st, r = Some st -> fst (scenario_from_stream o r id imps s0) <> None.
Proof.
  intros o r id imps Ht Hn st ->. unfold top_safe in Ht. apply negb_true_iff in Ht.
  apply orb_false_iff in Ht as [Ht E3]. apply orb_false_iff in Ht as [E1 E2].
  unfold scenario_from_stream. rewrite E1.
  destruct (activate o (Some st) id s0) as [ea sa]. destruct ea as [e|].
  - destruct (deactivate sa) as [[e'|] s2]; discriminate.
  - unfold body. cbn [at_step] in *.
    destruct st; cbn [step_eqb] in *; try discriminate;
      repeat match goal with
             | |- context [let '(_, _) := run_imports ?a ?b in _] => destruct (run_imports a b) as [[?|] ?]
             | |- context [deactivate ?x] => destruct (deactivate x) as [[?|] ?]
             end; cbn; discriminate.
Qed.

(* the raise points from which the protocol does NOT recover *)
Theorem veneer_not_restored_early_raise :
  (* before activate: deactivate runs without a matching activate, activity ends at -1 and an AssertionError masks the error *)
  scenario_from_stream default_opts (Some RNamespace) 1%N MNil s0
    = (Some EAssert, VS (-1) [] None false false [] None [] [] None)
  (* inside activate after the increment: pop from an empty stack (IndexError), overrides stay locked *)
  /\ scenario_from_stream (Opts true [5%N] None) (Some RActAfterIncr) 1%N MNil s0
    = (Some EIndex, VS 0 [] None true false [5%N] None [5%N] [] None)
  (* the same point inside an imported module: the veneer stays active for good *)
  /\ scenario_from_stream default_opts None 1%N (MCons (Some RActAfterIncr) 2%N MNil MNil) s0
    = (Some EAssert, VS 1 [] (Some 1%N) false false [] None [1%N] [1%N] (Some 1%N)).
Proof. vm_compute. repeat split; reflexivity. Qed.

(* ------------------------------------------------------------------------------------------ two-pass parse *)
Theorem two_pass_reports : forall (T E : Type) (run : bool -> rule_result T E) (generic : E),
  (forall t, parse run generic = PTree t -> run false = RTree t)
  /\ (run false = RNone -> exists e, parse run generic = PError e)
  /\ (run false = RNone -> (forall e, run true <> RRaise e) -> parse run generic = PError generic).
Proof.
  intros T E run generic. unfold parse. repeat split.
  - intros t H. destruct (run false) as [t0| |e]; try discriminate.
    + injection H as ->. reflexivity.
    + destruct (run true); discriminate.
  - intros ->. destruct (run true) as [t| |e]; eauto.
  - intros -> Hn. destruct (run true) as [t| |e]; try reflexivity. exfalso. exact (Hn e eq_refl).
Qed.

Theorem error_line_in_range : forall (n : Z) (lines : list Z) (d : Z),
  Forall (fun l => 1 <= l <= n + 1) lines -> 1 <= d <= n + 1 -> 1 <= farthest lines d <= n + 1.
Proof.
  intros n lines d HF Hd. unfold farthest. induction HF as [|x r Hx Hr IH]; [exact Hd|].
  destruct r as [|y r']; [exact Hx|]. exact IH.
Qed.

(* ------------------------------------------------------------------------------------------ PEG *)
Open Scope N_scope.

Lemma succ_length : forall G T e (s s' : list T), succ G T e s s' -> (length s' <= length s)%nat.
Proof.
  intros G T e s s' H. induction H; cbn [length] in *; lia.
Qed.

Lemma memN_lookup_closed : forall G tbl r e, closed G tbl = true -> lookup G r = Some e -> nul tbl e = true -> memN r tbl = true.
Proof.
  intros G tbl r e Hc. unfold closed in Hc. rewrite forallb_forall in Hc.
  induction G as [|[r' e'] rest IH]; intros Hl Hn; [discriminate|].
  cbn [lookup] in Hl. destruct (r =? r') eqn:E.
  - injection Hl as ->. apply N.eqb_eq in E. subst r'.
    specialize (Hc (r, e) (or_introl eq_refl)). cbn [fst snd] in Hc. rewrite Hn in Hc. exact Hc.
  - apply IH; [|exact Hl|exact Hn]. intros x Hx. apply Hc. right. exact Hx.
Qed.

(* soundness of the analysis: an expression that can succeed without consuming input is flagged nullable *)
Theorem nullable_sound : forall G tbl, closed G tbl = true ->
  forall T e (s s' : list T), succ G T e s s' -> length s' = length s -> nul tbl e = true.
Proof.
  intros G tbl Hc T e s s' H. induction H; intros Hlen; cbn [nul]; try reflexivity.
  - cbn [length] in Hlen. lia.
  - eapply memN_lookup_closed; eauto.
  - pose proof (succ_length _ _ _ _ _ H). pose proof (succ_length _ _ _ _ _ H0).
    rewrite IHsucc1 by lia. rewrite IHsucc2 by lia. reflexivity.
  - rewrite IHsucc by assumption. reflexivity.
  - rewrite IHsucc by assumption. apply orb_true_r.
  - pose proof (succ_length _ _ _ _ _ H). pose proof (succ_length _ _ _ _ _ H0). apply IHsucc1. lia.
  - pose proof (succ_length _ _ _ _ _ H). pose proof (succ_length _ _ _ _ _ H0). apply IHsucc1. lia.
  - apply IHsucc. assumption.
Qed.

(* hence: every iteration of every repetition of a grammar that passes the check consumes at least one token *)
Theorem wf_check_sound_loops : forall G tbl, closed G tbl = true -> wf_check G tbl = true ->
  forall r e b, In (r, e) G -> In b (rep_bodies e) ->
  forall T (s s' : list T), succ G T b s s' -> (length s' < length s)%nat.
Proof.
  intros G tbl Hc Hw r e b Hin Hb T s s' Hs.
  unfold wf_check in Hw. rewrite forallb_forall in Hw. specialize (Hw (r, e) Hin). cbn [snd] in Hw.
  rewrite forallb_forall in Hw. specialize (Hw b Hb). apply negb_true_iff in Hw.
  pose proof (succ_length _ _ _ _ _ Hs) as Hle.
  destruct (Nat.eq_dec (length s') (length s)) as [E|E]; [|lia].
  rewrite (nullable_sound G tbl Hc T b s s' Hs E) in Hw. discriminate.
Qed.
