(* C10 — soundness of the leftmost-call graph (first_calls) w.r.t. same-position invocations, and of the
   certificate check lr_check: every cycle of same-position invocations passes through a left-recursive leader. *)
From Coq Require Import NArith List Bool Lia.
From Scenic Require Import C10.PEG C10.FrontendProofs C10.LeftRec.
Import ListNotations.
Open Scope N_scope.

(* ---------------------------------------------------------------------------------- generic: rtc, paths *)

Lemma rtc_trans : forall R a b c, rtc R a b -> rtc R b c -> rtc R a c.
Proof.
  intros R a b c H. induction H; intros Hc; [exact Hc|].
  eapply RtcStep; [eassumption|]. apply IHrtc. exact Hc.
Qed.

Lemma rtc_path : forall R a b, rtc R a b -> a = b \/ exists mid, is_path R a mid b.
Proof.
  intros R a b H. induction H as [a|a b c Hab Hbc IH]; [left; reflexivity|].
  right. destruct IH as [->|[mid Hm]].
  - exists []. exact Hab.
  - exists (b :: mid). split; assumption.
Qed.

Lemma path_rtc : forall R mid a b, is_path R a mid b -> rtc R a b.
Proof.
  intros R mid. induction mid as [|x l IH]; intros a b H; cbn [is_path] in H.
  - eapply RtcStep; [exact H|apply RtcRefl].
  - destruct H as [H1 H2]. eapply RtcStep; [exact H1|]. apply IH. exact H2.
Qed.

Lemma is_path_mono : forall (R R' : N -> N -> Prop), (forall a b, R a b -> R' a b) ->
  forall mid a b, is_path R a mid b -> is_path R' a mid b.
Proof.
  intros R R' HR mid. induction mid as [|x l IH]; intros a b H; cbn [is_path] in *.
  - apply HR. exact H.
  - destruct H as [H1 H2]. split; [apply HR; exact H1|apply IH; exact H2].
Qed.

Lemma is_path_split : forall R mid a b x, is_path R a mid b -> In x mid ->
  exists m1 m2, is_path R a m1 x /\ is_path R x m2 b.
Proof.
  intros R mid. induction mid as [|y l IH]; intros a b x H Hin; [destruct Hin|].
  cbn [is_path] in H. destruct H as [H1 H2]. destruct Hin as [->|Hin].
  - exists [], l. split; [exact H1|exact H2].
  - destruct (IH y b x H2 Hin) as (m1 & m2 & P1 & P2).
    exists (y :: m1), m2. split; [split; assumption|exact P2].
Qed.

(* ---------------------------------------------------------------------------------- succ: suffix *)

Lemma succ_suffix : forall G T e (s s' : list T), succ G T e s s' -> exists p, s = p ++ s'.
Proof.
  intros G T e s s' H. induction H;
    repeat match goal with H : exists _, _ |- _ => destruct H end; subst.
  - exists [x]. reflexivity.
  - eexists. reflexivity.
  - exists []. reflexivity.
  - eexists. rewrite app_assoc. reflexivity.
  - eexists. reflexivity.
  - eexists. reflexivity.
  - exists []. reflexivity.
  - eexists. reflexivity.
  - exists []. reflexivity.
  - eexists. rewrite app_assoc. reflexivity.
  - eexists. rewrite app_assoc. reflexivity.
  - eexists. rewrite app_assoc. reflexivity.
  - exists []. reflexivity.
  - exists []. reflexivity.
  - exists []. reflexivity.
  - eexists. reflexivity.
Qed.

(* succeeding without consuming = leaving the very same input: the [succ G T a s s] premises of inv1/inv0 lose nothing *)
Lemma succ_same_length : forall G T e (s s' : list T), succ G T e s s' -> length s' = length s -> s' = s.
Proof.
  intros G T e s s' H Hl. destruct (succ_suffix _ _ _ _ _ H) as [p ->].
  rewrite app_length in Hl. destruct p as [|x p]; [reflexivity|]. cbn [length] in Hl. lia.
Qed.

(* ---------------------------------------------------------------------------------- 1. first_calls is sound *)

Lemma nul_same : forall G tbl, closed G tbl = true -> forall T e (s : list T), succ G T e s s -> nul tbl e = true.
Proof. intros G tbl Hc T e s H. exact (nullable_sound G tbl Hc T e s s H eq_refl). Qed.

(* a direct same-position invocation is an element of first_calls *)
Theorem inv1_first_calls : forall G tbl, closed G tbl = true ->
  forall T e (s : list T) r, inv1 G T e s r -> In r (first_calls tbl e).
Proof.
  intros G tbl Hc T e s r H. induction H; cbn [first_calls].
  - left. reflexivity.
  - apply in_or_app. left. exact IHinv1.
  - apply in_or_app. right. rewrite (nul_same G tbl Hc T a s H). exact IHinv1.
  - apply in_or_app. left. exact IHinv1.
  - apply in_or_app. right. exact IHinv1.
  - exact IHinv1.
  - exact IHinv1.
  - exact IHinv1.
  - apply in_or_app. left. exact IHinv1.
  - apply in_or_app. right. rewrite (nul_same G tbl Hc T e s H). exact IHinv1.
  - exact IHinv1.
  - exact IHinv1.
  - exact IHinv1.
Qed.

Lemma sstep_lstep : forall G tbl, closed G tbl = true ->
  forall T (s : list T) r r', sstep G T s r r' -> lstep G tbl r r'.
Proof.
  intros G tbl Hc T s r r' (e & Hl & Hi). exists e. split; [exact Hl|].
  eapply inv1_first_calls; eassumption.
Qed.

Lemma lreach_mono : forall G tbl (A B : list N) r, (forall x, In x A -> In x B) -> lreach G tbl A r -> lreach G tbl B r.
Proof. intros G tbl A B r HAB (r0 & Hin & Hr). exists r0. split; [apply HAB; exact Hin|exact Hr]. Qed.

(* a (possibly indirect) same-position invocation is reachable in the leftmost-call graph *)
Theorem first_calls_sound : forall G tbl, closed G tbl = true ->
  forall T e (s : list T) r, inv0 G T e s r -> lreach G tbl (first_calls tbl e) r.
Proof.
  intros G tbl Hc T e s r H. induction H; cbn [first_calls].
  - exists r. split; [left; reflexivity|apply RtcRefl].
  - destruct IHinv0 as (r0 & Hin & Hr). exists r. split; [left; reflexivity|].
    eapply RtcStep; [|exact Hr]. exists e. split; assumption.
  - eapply lreach_mono; [|exact IHinv0]. intros x Hx. apply in_or_app. left. exact Hx.
  - eapply lreach_mono; [|exact IHinv0]. intros x Hx. apply in_or_app. right.
    rewrite (nul_same G tbl Hc T a s H). exact Hx.
  - eapply lreach_mono; [|exact IHinv0]. intros x Hx. apply in_or_app. left. exact Hx.
  - eapply lreach_mono; [|exact IHinv0]. intros x Hx. apply in_or_app. right. exact Hx.
  - exact IHinv0.
  - exact IHinv0.
  - exact IHinv0.
  - eapply lreach_mono; [|exact IHinv0]. intros x Hx. apply in_or_app. left. exact Hx.
  - eapply lreach_mono; [|exact IHinv0]. intros x Hx. apply in_or_app. right.
    rewrite (nul_same G tbl Hc T e s H). exact Hx.
  - exact IHinv0.
  - exact IHinv0.
  - exact IHinv0.
Qed.

(* ---------------------------------------------------------------------------------- inv0 = inv1 ; sstep* *)

Lemma inv1_inv0 : forall G T e (s : list T) r, inv1 G T e s r -> inv0 G T e s r.
Proof.
  intros G T e s r H. induction H.
  - apply IRule.
  - apply ISeqL; assumption.
  - apply ISeqR; assumption.
  - apply IAltL; assumption.
  - apply IAltR; assumption.
  - apply IOpt; assumption.
  - apply IStar; assumption.
  - apply IPlus; assumption.
  - apply IGatherE; assumption.
  - apply IGatherSep; assumption.
  - apply IPos; assumption.
  - apply INeg; assumption.
  - apply IForced; assumption.
Qed.

Lemma inv0_trans : forall G T e (s : list T) r, inv0 G T e s r ->
  forall er r', lookup G r = Some er -> inv0 G T er s r' -> inv0 G T e s r'.
Proof.
  intros G T e s r H. induction H; intros er r2 Hl H2.
  - eapply IRuleIn; eassumption.
  - eapply IRuleIn; [eassumption|]. eapply IHinv0; eassumption.
  - apply ISeqL. eapply IHinv0; eassumption.
  - apply ISeqR; [assumption|]. eapply IHinv0; eassumption.
  - apply IAltL. eapply IHinv0; eassumption.
  - apply IAltR. eapply IHinv0; eassumption.
  - apply IOpt. eapply IHinv0; eassumption.
  - apply IStar. eapply IHinv0; eassumption.
  - apply IPlus. eapply IHinv0; eassumption.
  - apply IGatherE. eapply IHinv0; eassumption.
  - apply IGatherSep; [assumption|]. eapply IHinv0; eassumption.
  - apply IPos. eapply IHinv0; eassumption.
  - apply INeg. eapply IHinv0; eassumption.
  - apply IForced. eapply IHinv0; eassumption.
Qed.

(* an indirect invocation is a direct one followed by a chain of rule-to-rule direct invocations, all on s *)
Lemma inv0_chain : forall G T e (s : list T) r, inv0 G T e s r ->
  exists r0, inv1 G T e s r0 /\ rtc (sstep G T s) r0 r.
Proof.
  intros G T e s r H. induction H;
    try (destruct IHinv0 as (r0 & Hi & Hr)).
  - exists r. split; [apply I1Rule|apply RtcRefl].
  - exists r. split; [apply I1Rule|]. eapply RtcStep; [|exact Hr]. exists e. split; assumption.
  - exists r0. split; [apply I1SeqL; assumption|assumption].
  - exists r0. split; [apply I1SeqR; assumption|assumption].
  - exists r0. split; [apply I1AltL; assumption|assumption].
  - exists r0. split; [apply I1AltR; assumption|assumption].
  - exists r0. split; [apply I1Opt; assumption|assumption].
  - exists r0. split; [apply I1Star; assumption|assumption].
  - exists r0. split; [apply I1Plus; assumption|assumption].
  - exists r0. split; [apply I1GatherE; assumption|assumption].
  - exists r0. split; [apply I1GatherSep; assumption|assumption].
  - exists r0. split; [apply I1Pos; assumption|assumption].
  - exists r0. split; [apply I1Neg; assumption|assumption].
  - exists r0. split; [apply I1Forced; assumption|assumption].
Qed.

Lemma chain_inv0 : forall G T (s : list T) r0 r, rtc (sstep G T s) r0 r ->
  forall e, inv0 G T e s r0 -> inv0 G T e s r.
Proof.
  intros G T s r0 r H. induction H as [a|a b c (ea & Hl & Hi) Hbc IH]; intros e He; [exact He|].
  apply IH. eapply inv0_trans; [exact He|exact Hl|]. apply inv1_inv0. exact Hi.
Qed.

Lemma path_inv0 : forall G T (s : list T) mid a b, is_path (sstep G T s) a mid b ->
  exists ea, lookup G a = Some ea /\ inv0 G T ea s b.
Proof.
  intros G T s mid a b H.
  assert (Ha : exists x, sstep G T s a x /\ rtc (sstep G T s) x b).
  { destruct mid as [|x l]; cbn [is_path] in H.
    - exists b. split; [exact H|apply RtcRefl].
    - destruct H as [H1 H2]. exists x. split; [exact H1|]. eapply path_rtc. exact H2. }
  destruct Ha as (x & (ea & Hl & Hi) & Hr). exists ea. split; [exact Hl|].
  eapply chain_inv0; [exact Hr|]. apply inv1_inv0. exact Hi.
Qed.

(* ---------------------------------------------------------------------------------- 2. lr_check is sound *)

Lemma lookup_In : forall G r e, lookup G r = Some e -> In (r, e) G.
Proof.
  induction G as [|[r' e'] rest IH]; intros r e H; [discriminate|].
  cbn [lookup] in H. destruct (r =? r') eqn:E.
  - apply N.eqb_eq in E. subst r'. injection H as ->. left. reflexivity.
  - right. apply IH. exact H.
Qed.

(* an edge between two non-leader rules that are both defined strictly decreases the rank *)
Lemma lr_step_rank : forall G tbl leaders rank, lr_check G tbl leaders rank = true ->
  forall r r', lstep G tbl r r' -> memN r leaders = false -> memN r' leaders = false ->
  (exists e', lookup G r' = Some e') ->
  exists k k', rank_of rank r = Some k /\ rank_of rank r' = Some k' /\ k' < k.
Proof.
  intros G tbl leaders rank Hc r r' (e & Hl & Hin) Hr Hr' (e' & Hl').
  unfold lr_check in Hc. rewrite forallb_forall in Hc.
  specialize (Hc (r, e) (lookup_In _ _ _ Hl)). unfold rule_ok in Hc. cbn [fst snd] in Hc.
  rewrite Hr in Hc. destruct (rank_of rank r) as [k|]; [|discriminate].
  rewrite forallb_forall in Hc. specialize (Hc r' Hin). unfold callee_ok, undefined in Hc.
  rewrite Hr', Hl' in Hc. destruct (rank_of rank r') as [k'|]; [|discriminate].
  destruct (k' <? k) eqn:E; [|discriminate]. apply N.ltb_lt in E.
  exists k, k'. repeat split; assumption.
Qed.

Lemma is_path_src_defined : forall G tbl mid a b, is_path (lstep G tbl) a mid b -> exists e, lookup G a = Some e.
Proof.
  intros G tbl mid a b H. destruct mid as [|x l]; cbn [is_path] in H.
  - destruct H as (e & Hl & _). exists e. exact Hl.
  - destruct H as [(e & Hl & _) _]. exists e. exact Hl.
Qed.

Lemma lr_path_rank : forall G tbl leaders rank, lr_check G tbl leaders rank = true ->
  forall mid a b, is_path (lstep G tbl) a mid b ->
  (forall x, In x (a :: mid) -> memN x leaders = false) -> memN b leaders = false ->
  (exists e', lookup G b = Some e') ->
  exists k k', rank_of rank a = Some k /\ rank_of rank b = Some k' /\ k' < k.
Proof.
  intros G tbl leaders rank Hc mid. induction mid as [|x l IH]; intros a b H Hnl Hb Hdef; cbn [is_path] in H.
  - eapply lr_step_rank; try eassumption. apply Hnl. left. reflexivity.
  - destruct H as [H1 H2].
    assert (Hx : memN x leaders = false) by (apply Hnl; right; left; reflexivity).
    destruct (IH x b H2) as (kx & kb & Ex & Eb & Hlt); [|exact Hb|exact Hdef|].
    { intros y Hy. apply Hnl. right. exact Hy. }
    destruct (lr_step_rank G tbl leaders rank Hc a x H1) as (ka & kx' & Ea & Ex' & Hlt');
      [apply Hnl; left; reflexivity|exact Hx|eapply is_path_src_defined; exact H2|].
    rewrite Ex in Ex'. injection Ex' as <-.
    exists ka, kb. repeat split; try assumption. lia.
Qed.

(* every cycle r0 -> x1 -> ... -> xk -> r0 of the leftmost-call graph (each edge source is defined in G, by lstep)
   passes through a leader *)
Theorem lr_check_sound : forall G tbl leaders rank, lr_check G tbl leaders rank = true ->
  forall r0 mid, is_path (lstep G tbl) r0 mid r0 ->
  exists x, In x (r0 :: mid) /\ memN x leaders = true.
Proof.
  intros G tbl leaders rank Hc r0 mid H.
  destruct (existsb (fun x => memN x leaders) (r0 :: mid)) eqn:E.
  - apply existsb_exists in E. exact E.
  - exfalso.
    assert (Hnl : forall x, In x (r0 :: mid) -> memN x leaders = false).
    { intros x Hx. destruct (memN x leaders) eqn:Ex; [|reflexivity].
      assert (existsb (fun x => memN x leaders) (r0 :: mid) = true) by (apply existsb_exists; exists x; split; assumption).
      congruence. }
    destruct (lr_path_rank G tbl leaders rank Hc mid r0 r0 H Hnl) as (k & k' & E1 & E2 & Hlt).
    + apply Hnl. left. reflexivity.
    + eapply is_path_src_defined. exact H.
    + rewrite E1 in E2. injection E2 as <-. lia.
Qed.

(* ---------------------------------------------------------------------------------- 3. semantic corollaries *)

(* a chain of direct same-position invocations  r0 -> x1 -> ... -> xk -> r0  (rule r0 run on s directly invokes x1
   on s, ... , xk run on s directly invokes r0 on s) contains a leader *)
Theorem lr_check_sound_chain : forall G tbl leaders rank, closed G tbl = true -> lr_check G tbl leaders rank = true ->
  forall T (s : list T) r0 mid, is_path (sstep G T s) r0 mid r0 ->
  exists x, In x (r0 :: mid) /\ memN x leaders = true.
Proof.
  intros G tbl leaders rank Hcl Hc T s r0 mid H.
  eapply lr_check_sound; [exact Hc|].
  eapply is_path_mono; [|exact H]. intros a b Hab. eapply sstep_lstep; eassumption.
Qed.

(* if running rule r on s re-invokes r on the very same s (infinite recursion of a plain recursive-descent parser),
   then the recursion passes through a leader: r itself, or a leader x that r invokes on s and that invokes r on s *)
Theorem lr_check_sound_inv0 : forall G tbl leaders rank, closed G tbl = true -> lr_check G tbl leaders rank = true ->
  forall T (s : list T) r e, lookup G r = Some e -> inv0 G T e s r ->
  memN r leaders = true \/
  exists x ex, memN x leaders = true /\ inv0 G T e s x /\ lookup G x = Some ex /\ inv0 G T ex s r.
Proof.
  intros G tbl leaders rank Hcl Hc T s r e Hl Hi.
  destruct (inv0_chain _ _ _ _ _ Hi) as (r1 & H1 & Hr).
  assert (Hp : exists mid, is_path (sstep G T s) r mid r).
  { assert (S1 : sstep G T s r r1) by (exists e; split; assumption).
    destruct (rtc_path _ _ _ Hr) as [->|[m Hm]].
    - exists []. exact S1.
    - exists (r1 :: m). split; assumption. }
  destruct Hp as [mid Hp].
  destruct (lr_check_sound_chain G tbl leaders rank Hcl Hc T s r mid Hp) as (x & Hin & Hx).
  destruct Hin as [<-|Hin]; [left; exact Hx|].
  right. destruct (is_path_split _ _ _ _ _ Hp Hin) as (m1 & m2 & P1 & P2).
  destruct (path_inv0 _ _ _ _ _ _ P1) as (e1 & L1 & I1).
  destruct (path_inv0 _ _ _ _ _ _ P2) as (ex & Lx & Ix).
  rewrite Hl in L1. injection L1 as <-.
  exists x, ex. repeat split; assumption.
Qed.

(* ---------------------------------------------------------------------------------- 4. examples *)

(* expr(1): expr '+' term | term ;  term(2): NUMBER      tokens: '+' = 10, NUMBER = 11 *)
Definition g_direct : grammar :=
  [ (1, PAlt (PSeq (PRule 1) (PSeq (PTok 10) (PRule 2))) (PRule 2)); (2, PTok 11) ].

(* a(1): b? a 'x' ;  b(2): 'y'      hidden left recursion through the nullable prefix b? *)
Definition g_hidden : grammar :=
  [ (1, PSeq (POpt (PRule 2)) (PSeq (PRule 1) (PTok 10))); (2, PTok 11) ].

Example closed_direct : closed g_direct [] = true.
Proof. vm_compute. reflexivity. Qed.
Example closed_hidden : closed g_hidden [] = true.
Proof. vm_compute. reflexivity. Qed.

(* accepted with the leader expr: only term needs a rank *)
Example lr_direct_leader : lr_check g_direct [] [1] [(2, 0)] = true.
Proof. vm_compute. reflexivity. Qed.

(* rejected without leader, for the natural rank ... *)
Example lr_direct_noleader : lr_check g_direct [] [] [(2, 0); (1, 1)] = false.
Proof. vm_compute. reflexivity. Qed.

(* ... and for every rank (by soundness: the cycle expr -> expr has no leader) *)
Example lr_direct_noleader_any : forall rank, lr_check g_direct [] [] rank = false.
Proof.
  intros rank. destruct (lr_check g_direct [] [] rank) eqn:E; [exfalso|reflexivity].
  assert (P : is_path (lstep g_direct []) 1 [] 1).
  { cbn [is_path]. eexists. split; [reflexivity|]. vm_compute. left. reflexivity. }
  destruct (lr_check_sound _ _ _ _ E _ _ P) as (x & _ & Hx). discriminate.
Qed.

Example first_calls_hidden : first_calls [] (PSeq (POpt (PRule 2)) (PSeq (PRule 1) (PTok 10))) = [2; 1].
Proof. vm_compute. reflexivity. Qed.

Example lr_hidden_noleader : lr_check g_hidden [] [] [(2, 0); (1, 1)] = false.
Proof. vm_compute. reflexivity. Qed.

Example lr_hidden_noleader_any : forall rank, lr_check g_hidden [] [] rank = false.
Proof.
  intros rank. destruct (lr_check g_hidden [] [] rank) eqn:E; [exfalso|reflexivity].
  assert (P : is_path (lstep g_hidden []) 1 [] 1).
  { cbn [is_path]. eexists. split; [reflexivity|]. vm_compute. right. left. reflexivity. }
  destruct (lr_check_sound _ _ _ _ E _ _ P) as (x & _ & Hx). discriminate.
Qed.

Example lr_hidden_leader : lr_check g_hidden [] [1] [(2, 0)] = true.
Proof. vm_compute. reflexivity. Qed.

(* a rule that is referenced but not defined is ignored *)
Example lr_undefined_ignored : lr_check [(1, PSeq (PRule 7) (PTok 10))] [] [] [(1, 0)] = true.
Proof. vm_compute. reflexivity. Qed.

(* the hypotheses of the semantic theorems are satisfiable: on every input, a's body re-invokes a at the same input *)
Example inv0_hidden : forall (s : list nat),
  inv0 g_hidden nat (PSeq (POpt (PRule 2)) (PSeq (PRule 1) (PTok 10))) s 1.
Proof. intros s. apply ISeqR; [apply SOptN|]. apply ISeqL. apply IRule. Qed.

Example sstep_hidden : forall (s : list nat), is_path (sstep g_hidden nat s) 1 [] 1.
Proof.
  intros s. cbn [is_path]. eexists. split; [reflexivity|].
  apply I1SeqR; [apply SOptN|]. apply I1SeqL. apply I1Rule.
Qed.

Print Assumptions succ_same_length.
Print Assumptions inv1_first_calls.
Print Assumptions first_calls_sound.
Print Assumptions lr_check_sound.
Print Assumptions lr_check_sound_chain.
Print Assumptions lr_check_sound_inv0.
Print Assumptions lr_direct_noleader_any.
