(* C10 — PEG expressions, an over-approximation of their success relation, the nullable analysis and the
   well-formedness check "no repetition has a nullable body".  Definitions only. *)
From Coq Require Import NArith List Bool.
Import ListNotations.
Open Scope N_scope.

Inductive pexp :=
| PTok (t : N)                 (* any terminal (token class, keyword, soft keyword, operator): consumes one token *)
| PRule (r : N)
| PEps
| PSeq (a b : pexp)
| PAlt (a b : pexp)            (* ordered choice *)
| POpt (e : pexp)
| PStar (e : pexp)
| PPlus (e : pexp)
| PGather (sep e : pexp)       (* sep.e+ *)
| PPos (e : pexp)              (* &e *)
| PNeg (e : pexp)              (* !e *)
| PCut
| PForced (e : pexp).          (* &&e *)

Definition grammar := list (N * pexp).

Fixpoint lookup (G : grammar) (r : N) : option pexp :=
  match G with [] => None | (r', e) :: rest => if r =? r' then Some e else lookup rest r end.

(* Over-approximation of "e succeeds on input s leaving s'": ordered choice may take either branch, a negative
   lookahead and a cut may always succeed.  Every success of a pegen-generated parser (without the memoised
   left-recursion loop) is a derivation of this relation. *)
Inductive succ (G : grammar) (T : Type) : pexp -> list T -> list T -> Prop :=
| STok : forall t x s, succ G T (PTok t) (x :: s) s
| SRule : forall r e s s', lookup G r = Some e -> succ G T e s s' -> succ G T (PRule r) s s'
| SEps : forall s, succ G T PEps s s
| SSeq : forall a b s s1 s2, succ G T a s s1 -> succ G T b s1 s2 -> succ G T (PSeq a b) s s2
| SAltL : forall a b s s', succ G T a s s' -> succ G T (PAlt a b) s s'
| SAltR : forall a b s s', succ G T b s s' -> succ G T (PAlt a b) s s'
| SOptN : forall e s, succ G T (POpt e) s s
| SOptS : forall e s s', succ G T e s s' -> succ G T (POpt e) s s'
| SStar0 : forall e s, succ G T (PStar e) s s
| SStarS : forall e s s1 s2, succ G T e s s1 -> succ G T (PStar e) s1 s2 -> succ G T (PStar e) s s2
| SPlus : forall e s s1 s2, succ G T e s s1 -> succ G T (PStar e) s1 s2 -> succ G T (PPlus e) s s2
| SGather : forall sep e s s1 s2, succ G T e s s1 -> succ G T (PStar (PSeq sep e)) s1 s2 -> succ G T (PGather sep e) s s2
| SPos : forall e s s', succ G T e s s' -> succ G T (PPos e) s s
| SNeg : forall e s, succ G T (PNeg e) s s
| SCut : forall s, succ G T PCut s s
| SForced : forall e s s', succ G T e s s' -> succ G T (PForced e) s s'.

(* nullable analysis relative to a table of nullable rules *)
Fixpoint memN (a : N) (xs : list N) : bool :=
  match xs with [] => false | x :: r => (a =? x) || memN a r end.

Fixpoint nul (tbl : list N) (e : pexp) : bool :=
  match e with
  | PTok _ => false
  | PRule r => memN r tbl
  | PEps | PCut => true
  | PSeq a b => nul tbl a && nul tbl b
  | PAlt a b => nul tbl a || nul tbl b
  | POpt _ | PStar _ | PPos _ | PNeg _ => true
  | PPlus e => nul tbl e
  | PGather _ e => nul tbl e
  | PForced e => nul tbl e
  end.

(* the table is closed: a rule whose body is nullable w.r.t. the table is in the table *)
Definition closed (G : grammar) (tbl : list N) : bool :=
  forallb (fun re => negb (nul tbl (snd re)) || memN (fst re) tbl) G.

Definition grow (G : grammar) (tbl : list N) : list N :=
  fold_right (fun re acc => if nul tbl (snd re) && negb (memN (fst re) tbl) then fst re :: acc else acc) tbl G.

Fixpoint nullable_fix (fuel : nat) (G : grammar) (tbl : list N) : list N :=
  match fuel with
  | O => tbl
  | S k => let t' := grow G tbl in
           if Nat.eqb (length t') (length tbl) then tbl else nullable_fix k G t'
  end.

(* bodies of repetitions: what a generated `while` loop runs once per iteration *)
Fixpoint rep_bodies (e : pexp) : list pexp :=
  match e with
  | PTok _ | PRule _ | PEps | PCut => []
  | PSeq a b | PAlt a b => rep_bodies a ++ rep_bodies b
  | POpt e | PPos e | PNeg e | PForced e => rep_bodies e
  | PStar e | PPlus e => e :: rep_bodies e
  | PGather sep e => PSeq sep e :: e :: rep_bodies sep ++ rep_bodies e
  end.

Definition wf_check (G : grammar) (tbl : list N) : bool :=
  forallb (fun re => forallb (fun b => negb (nul tbl b)) (rep_bodies (snd re))) G.
