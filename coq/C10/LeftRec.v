(* C10 — left recursion of a pegen grammar: the leftmost-call graph ("rule r may invoke rule r' at the very same
   input position"), the certificate check that every cycle of that graph passes through a memoised left-recursive
   leader, and the semantic same-position-invocation relations the check is sound for.  Definitions only. *)
From Coq Require Import NArith List Bool.
From Scenic Require Import C10.PEG.
Import ListNotations.
Open Scope N_scope.

(* ---------------------------------------------------------------------------------- the syntactic graph *)

(* the rules that evaluating [e] at input position p may invoke at the same position p (an attempt counts, whether
   or not it succeeds).  [tbl] is the table of nullable rules (PEG.nul).
   - a sequence reaches its second component at p only after a nullable first component;
   - a gather  sep.e+  is  e (sep e)* : after a nullable e the separator is tried at p;
   - the body of a repetition / option / lookahead / forced is always tried at p (later iterations of a loop are
     at p only if an iteration consumed nothing, and then they try the same body again: nothing new). *)
Fixpoint first_calls (tbl : list N) (e : pexp) : list N :=
  match e with
  | PTok _ | PEps | PCut => []
  | PRule r => [r]
  | PSeq a b => first_calls tbl a ++ (if nul tbl a then first_calls tbl b else [])
  | PAlt a b => first_calls tbl a ++ first_calls tbl b
  | POpt e | PStar e | PPlus e | PPos e | PNeg e | PForced e => first_calls tbl e
  | PGather sep e => first_calls tbl e ++ (if nul tbl e then first_calls tbl sep else [])
  end.

(* an edge of the leftmost-call graph: r is defined in G and its body may invoke r' at the same position *)
Definition lstep (G : grammar) (tbl : list N) (r r' : N) : Prop :=
  exists e, lookup G r = Some e /\ In r' (first_calls tbl e).

(* reflexive-transitive closure and explicit paths of a relation on rule names *)
Inductive rtc (R : N -> N -> Prop) : N -> N -> Prop :=
| RtcRefl : forall a, rtc R a a
| RtcStep : forall a b c, R a b -> rtc R b c -> rtc R a c.

(* [is_path R a [x1;..;xk] b]  =  a R x1 R ... R xk R b   (at least one edge) *)
Fixpoint is_path (R : N -> N -> Prop) (a : N) (mid : list N) (b : N) : Prop :=
  match mid with
  | [] => R a b
  | x :: l => R a x /\ is_path R x l b
  end.

(* r is reachable in the leftmost-call graph from one of the rules in [start] *)
Definition lreach (G : grammar) (tbl : list N) (start : list N) (r : N) : Prop :=
  exists r0, In r0 start /\ rtc (lstep G tbl) r0 r.

(* ---------------------------------------------------------------------------------- the certificate check *)

Fixpoint rank_of (rank : list (N * N)) (r : N) : option N :=
  match rank with
  | [] => None
  | (r', k) :: rest => if r =? r' then Some k else rank_of rest r
  end.

(* a callee r' of a non-leader rule of rank k is fine if it is a leader, or is not defined in G (it has no body,
   so it cannot lie on a cycle: IGNORED, the check does not fail), or has a strictly smaller rank *)
Definition undefined (G : grammar) (r : N) : bool :=
  match lookup G r with None => true | Some _ => false end.

(* (written with [if] rather than [||] so that vm_compute, which is strict, evaluates the lookups lazily) *)
Definition callee_ok (G : grammar) (leaders : list N) (rank : list (N * N)) (k r' : N) : bool :=
  if memN r' leaders then true
  else match rank_of rank r' with
       | Some k' => if k' <? k then true else undefined G r'
       | None => undefined G r'
       end.

Definition rule_ok (G : grammar) (tbl leaders : list N) (rank : list (N * N)) (re : N * pexp) : bool :=
  if memN (fst re) leaders then true
  else match rank_of rank (fst re) with
       | None => false
       | Some k => forallb (callee_ok G leaders rank k) (first_calls tbl (snd re))
       end.

(* The leftmost-call graph restricted to non-leader rules is acyclic, witnessed by [rank]:
   every non-leader entry (r, e) of G has a rank, and every non-leader r' in first_calls tbl e that is defined in G
   has a rank strictly below it.  Leader entries are not constrained at all (they need no rank).
   [rank] is an association list rule |-> rank (first binding wins), [leaders] a plain list of rule names. *)
Definition lr_check (G : grammar) (tbl leaders : list N) (rank : list (N * N)) : bool :=
  forallb (rule_ok G tbl leaders rank) G.

(* ---------------------------------------------------------------------------------- the semantic relations *)

(* [inv1 G T e s r]: evaluating e on input s DIRECTLY invokes rule r (an occurrence PRule r inside e, rule bodies
   are not entered) on the very same input s.  "a succeeded without consuming" is [succ G T a s s]; since the result
   of succ is always a suffix of its input, this is the same as  succ G T a s s' /\ length s' = length s
   (LeftRecProofs.succ_same_length).  With that formulation a later iteration of a loop that is still at s
   evaluates the same body on the same s, so the first-iteration constructors already cover it; likewise for a
   gather, once e and sep have both been tried at s nothing new can be tried at s. *)
Inductive inv1 (G : grammar) (T : Type) : pexp -> list T -> N -> Prop :=
| I1Rule : forall r s, inv1 G T (PRule r) s r
| I1SeqL : forall a b s r, inv1 G T a s r -> inv1 G T (PSeq a b) s r
| I1SeqR : forall a b s r, succ G T a s s -> inv1 G T b s r -> inv1 G T (PSeq a b) s r
| I1AltL : forall a b s r, inv1 G T a s r -> inv1 G T (PAlt a b) s r
| I1AltR : forall a b s r, inv1 G T b s r -> inv1 G T (PAlt a b) s r
| I1Opt : forall e s r, inv1 G T e s r -> inv1 G T (POpt e) s r
| I1Star : forall e s r, inv1 G T e s r -> inv1 G T (PStar e) s r
| I1Plus : forall e s r, inv1 G T e s r -> inv1 G T (PPlus e) s r
| I1GatherE : forall sep e s r, inv1 G T e s r -> inv1 G T (PGather sep e) s r
| I1GatherSep : forall sep e s r, succ G T e s s -> inv1 G T sep s r -> inv1 G T (PGather sep e) s r
| I1Pos : forall e s r, inv1 G T e s r -> inv1 G T (PPos e) s r
| I1Neg : forall e s r, inv1 G T e s r -> inv1 G T (PNeg e) s r
| I1Forced : forall e s r, inv1 G T e s r -> inv1 G T (PForced e) s r.

(* [inv0 G T e s r]: evaluating e on input s invokes rule r on the very same input s, directly or from inside the
   bodies of the rules it invokes (IRuleIn). *)
Inductive inv0 (G : grammar) (T : Type) : pexp -> list T -> N -> Prop :=
| IRule : forall r s, inv0 G T (PRule r) s r
| IRuleIn : forall r e s r', lookup G r = Some e -> inv0 G T e s r' -> inv0 G T (PRule r) s r'
| ISeqL : forall a b s r, inv0 G T a s r -> inv0 G T (PSeq a b) s r
| ISeqR : forall a b s r, succ G T a s s -> inv0 G T b s r -> inv0 G T (PSeq a b) s r
| IAltL : forall a b s r, inv0 G T a s r -> inv0 G T (PAlt a b) s r
| IAltR : forall a b s r, inv0 G T b s r -> inv0 G T (PAlt a b) s r
| IOpt : forall e s r, inv0 G T e s r -> inv0 G T (POpt e) s r
| IStar : forall e s r, inv0 G T e s r -> inv0 G T (PStar e) s r
| IPlus : forall e s r, inv0 G T e s r -> inv0 G T (PPlus e) s r
| IGatherE : forall sep e s r, inv0 G T e s r -> inv0 G T (PGather sep e) s r
| IGatherSep : forall sep e s r, succ G T e s s -> inv0 G T sep s r -> inv0 G T (PGather sep e) s r
| IPos : forall e s r, inv0 G T e s r -> inv0 G T (PPos e) s r
| INeg : forall e s r, inv0 G T e s r -> inv0 G T (PNeg e) s r
| IForced : forall e s r, inv0 G T e s r -> inv0 G T (PForced e) s r.

(* one semantic step: running rule r on input s directly invokes rule r' on the same input s *)
Definition sstep (G : grammar) (T : Type) (s : list T) (r r' : N) : Prop :=
  exists e, lookup G r = Some e /\ inv1 G T e s r'.
