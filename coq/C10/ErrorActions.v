(** C10 (round 3): error-reporting ACTIONS of the grammar are code that runs only on malformed input; each is a case
    analysis over the SHAPES of the alternative's sub-matches (optional lists empty / non-empty).  Model of the locator of
    [invalid_arguments] alternative 0 ([a=args ',' '*'], scenic.gram: [a[1][-1] if a[1] else a[0][-1]]): [args] returns the
    pair (positional-or-starred arguments, keyword arguments) and matched at least one argument.  Definitions and lemmas;
    the statements used by the property file are restated in Properties/C10.v. *)
From Coq Require Import List.
Import ListNotations.

Section Locator.
  Variable node : Type.

  Definition last_opt (l : list node) : option node :=
    match rev l with [] => None | x :: _ => Some x end.

  (** the action as written: the last keyword argument if there is one, else the last positional one *)
  Definition locate (pos kw : list node) : option node :=
    match kw with [] => last_opt pos | _ :: _ => last_opt kw end.

  (** the variant that forgets the empty-keyword shape (what seed C10-4 introduced): [a[1][-1]] *)
  Definition locate_kw_only (pos kw : list node) : option node := last_opt kw.

  Lemma last_opt_some : forall l, l <> [] -> exists n, last_opt l = Some n /\ In n l.
  Proof.
    intros l H. unfold last_opt. destruct (rev l) as [|x r] eqn:E.
    - apply (f_equal (@rev node)) in E. rewrite rev_involutive in E. simpl in E. contradiction.
    - exists x. split; [reflexivity|]. apply in_rev. rewrite E. left. reflexivity.
  Qed.

  Lemma last_opt_none : forall l, last_opt l = None -> l = [].
  Proof.
    intros l H. destruct l as [|a l]; [reflexivity|].
    destruct (last_opt_some (a :: l)) as [n [Hn _]]; [discriminate|]. rewrite Hn in H. discriminate.
  Qed.

  Theorem locate_total : forall pos kw, pos ++ kw <> [] -> exists n, locate pos kw = Some n /\ In n (pos ++ kw).
  Proof.
    intros pos kw H. unfold locate. destruct kw as [|k kw].
    - rewrite app_nil_r in *. apply last_opt_some. exact H.
    - destruct (last_opt_some (k :: kw)) as [n [Hn Hin]]; [discriminate|].
      exists n. split; [exact Hn|]. apply in_or_app. right. exact Hin.
  Qed.

  Theorem locate_is_last : forall pos kw n, locate pos kw = Some n ->
    (kw <> [] -> last_opt kw = Some n) /\ (kw = [] -> last_opt pos = Some n).
  Proof.
    intros pos kw n H. unfold locate in H. destruct kw as [|k kw]; split; intro K; try exact H; try contradiction; discriminate.
  Qed.

  (** a locator fails exactly on the shapes its case analysis forgot *)
  Theorem locate_kw_only_fails_iff : forall pos kw, locate_kw_only pos kw = None <-> kw = [].
  Proof.
    intros pos kw. unfold locate_kw_only. split.
    - apply last_opt_none.
    - intros ->. reflexivity.
  Qed.
End Locator.

Theorem locate_kw_only_refuted : exists (pos kw : list nat), pos ++ kw <> [] /\ locate_kw_only nat pos kw = None.
Proof. exists [1; 2], []. split; [discriminate|reflexivity]. Qed.

Example locate_examples :
  locate nat [1; 2] [] = Some 2 /\ locate nat [1] [7; 8] = Some 8 /\ locate nat [] [5] = Some 5 /\ locate nat [] [] = None.
Proof. repeat split. Qed.
