(* C10 — model of the compile protocol over the veneer globals (src/scenic/syntax/veneer.py activate/deactivate,
   src/scenic/syntax/translator.py _scenarioFromStream / compileStream / ScenicLoader.exec_module), of the two-pass
   Parser.parse, and of the farthest-token error location.  Definitions only. *)
From Coq Require Import ZArith NArith List Bool.
Import ListNotations.
Open Scope Z_scope.

(* ------------------------------------------------------------------------------------------ veneer globals *)
Record vstate := VS {
  activity : Z;
  stack : list N;            (* scenarioStack, top first *)
  current : option N;        (* currentScenario *)
  mode2D : bool;             (* mode2D flag and the three swapped classes *)
  busy : bool;               (* evaluatingRequirement or evaluatingGuard or currentSimulation is not None *)
  locked : list N;           (* lockedParameters *)
  lmodel : option N;         (* lockedModel *)
  gparams : list N;          (* _globalParameters *)
  scenarios : list N;
  simf : option N            (* simulatorFactory *)
}.

Definition s0 : vstate := VS 0 [] None false false [] None [] [] None.

Record opts := Opts { o_mode2D : bool; o_params : list N; o_model : option N }.
Definition default_opts := Opts false [] None.      (* CompileOptions() used by ScenicLoader.exec_module *)

(* points at which an exception may strike while one module is compiled *)
Inductive step :=
| RNamespace      (* top level only: inside `with topLevelNamespace(path)` before veneer.activate *)
| RActEntry       (* in veneer.activate before any global is changed *)
| RActAfterIncr   (* in veneer.activate after `activity += 1`, before the scenario is pushed (asserts, DynamicScenario._dummy) *)
| RPreamble | RParse | RCompile     (* compileStream try-body before the code runs *)
| RExec           (* while / after the module's code runs (after its imports) *)
| RStore          (* storeScenarioStateIn *)
| RConstruct.     (* top level only: constructScenarioFrom *)

Definition step_eqb (a b : step) : bool :=
  match a, b with
  | RNamespace, RNamespace | RActEntry, RActEntry | RActAfterIncr, RActAfterIncr | RPreamble, RPreamble
  | RParse, RParse | RCompile, RCompile | RExec, RExec | RStore, RStore | RConstruct, RConstruct => true
  | _, _ => false
  end.

Definition at_step (r : option step) (x : step) : bool :=
  match r with Some y => step_eqb y x | None => false end.

Inductive exn := EUser (s : step) | EAssert | EIndex.

(* the Scenic modules imported while a module's code runs: a list of modules, each with its raise point, the id of its
   placeholder scenario, its own imports, and the modules imported after it *)
Inductive mods :=
| MNil
| MCons (r : option step) (id : N) (imports : mods) (next : mods).

Definition has_overrides (o : opts) : bool :=
  match o_params o, o_model o with [], None => false | _, _ => true end.

(* veneer.activate (veneer.py:342-371) *)
Definition activate (o : opts) (r : option step) (id : N) (s : vstate) : option exn * vstate :=
  if at_step r RActEntry then (Some (EUser RActEntry), s) else
  if has_overrides o && negb (activity s =? 0) then (Some EAssert, s) else
  let s1 := if has_overrides o
            then VS (activity s) (stack s) (current s) (mode2D s) (busy s) (o_params o) (o_model o)
                    (o_params o ++ gparams s) (scenarios s) (simf s)
            else s in
  if o_mode2D o && negb (mode2D s1 || (activity s1 =? 0)) then (Some EAssert, s1) else
  let m := if o_mode2D o then true else mode2D s1 in
  let s3 := VS (activity s1 + 1) (stack s1) (current s1) m (busy s1) (locked s1) (lmodel s1) (gparams s1) (scenarios s1) (simf s1) in
  if at_step r RActAfterIncr then (Some (EUser RActAfterIncr), s3) else
  if busy s3 then (Some EAssert, s3) else
  (None, VS (activity s3) (id :: stack s3) (Some id) m (busy s3) (locked s3) (lmodel s3) (gparams s3) (scenarios s3) (simf s3)).

(* veneer.deactivate (veneer.py:374-402) *)
Definition deactivate (s : vstate) : option exn * vstate :=
  let a := activity s - 1 in
  let s1 := VS a (stack s) (current s) (mode2D s) (busy s) (locked s) (lmodel s) (gparams s) (scenarios s) (simf s) in
  if a <? 0 then (Some EAssert, s1) else
  if busy s then (Some EAssert, s1) else
  match stack s with
  | [] => (Some EIndex, s1)                 (* scenarioStack.pop() on an empty list *)
  | _ :: st =>
      let s2 := VS a st (current s) (mode2D s) (busy s) (locked s) (lmodel s) (gparams s) (scenarios s) (simf s) in
      if negb (Z.of_nat (length st) =? a) then (Some EAssert, s2) else
      if a =? 0 then (None, VS 0 st None false (busy s) [] None [] [] None)
      else (None, VS a st (hd_error st) (mode2D s) (busy s) (locked s) (lmodel s) (gparams s) [] (simf s))
  end.

(* what running a module's code may do to the globals: parameters, scenarios, a simulator *)
Definition dirty (id : N) (s : vstate) : vstate :=
  VS (activity s) (stack s) (current s) (mode2D s) (busy s) (locked s) (lmodel s) (id :: gparams s) (id :: scenarios s) (Some id).

(* compileStream(..., activate=True) for every imported module, in order; [body] is the try-body of compileStream *)
Fixpoint run_imports (ms : mods) (s : vstate) : option exn * vstate :=
  match ms with
  | MNil => (None, s)
  | MCons r id imps next =>
      let '(ea, s1) := activate default_opts r id s in            (* outside the try *)
      match ea with
      | Some e => (Some e, s1)
      | None =>
          let '(eb, s2) :=
            if at_step r RPreamble then (Some (EUser RPreamble), s1)
            else if at_step r RParse then (Some (EUser RParse), s1)
            else if at_step r RCompile then (Some (EUser RCompile), s1)
            else let '(ei, si) := run_imports imps (dirty id s1) in
                 match ei with
                 | Some e => (Some e, si)
                 | None => if at_step r RExec then (Some (EUser RExec), si)
                           else if at_step r RStore then (Some (EUser RStore), si) else (None, si)
                 end in
          let '(ed, s3) := deactivate s2 in                         (* finally *)
          match (match ed with Some e => Some e | None => eb end) with
          | Some e => (Some e, s3)
          | None => run_imports next s3
          end
      end
  end.

Definition body (r : option step) (id : N) (imps : mods) (s1 : vstate) : option exn * vstate :=
  if at_step r RPreamble then (Some (EUser RPreamble), s1)
  else if at_step r RParse then (Some (EUser RParse), s1)
  else if at_step r RCompile then (Some (EUser RCompile), s1)
  else let '(ei, si) := run_imports imps (dirty id s1) in
       match ei with
       | Some e => (Some e, si)
       | None => if at_step r RExec then (Some (EUser RExec), si)
                 else if at_step r RStore then (Some (EUser RStore), si) else (None, si)
       end.

(* translator._scenarioFromStream (translator.py:164-175) *)
Definition scenario_from_stream (o : opts) (r : option step) (id : N) (imps : mods) (s : vstate) : option exn * vstate :=
  let '(e1, s1) :=
    if at_step r RNamespace then (Some (EUser RNamespace), s) else
    let '(ea, sa) := activate o r id s in
    match ea with
    | Some e => (Some e, sa)
    | None =>
        let '(eb, sb) := body r id imps sa in
        match eb with
        | Some e => (Some e, sb)
        | None => if at_step r RConstruct then (Some (EUser RConstruct), sb) else (None, sb)
        end
    end in
  let '(ed, s2) := deactivate s1 in                                 (* finally: veneer.deactivate() *)
  (match ed with Some e => Some e | None => e1 end, s2).

(* raise points from which the protocol recovers *)
Definition top_safe (r : option step) : bool :=
  negb (at_step r RNamespace || at_step r RActEntry || at_step r RActAfterIncr).

Fixpoint nested_safe (ms : mods) : bool :=
  match ms with
  | MNil => true
  | MCons r _ imps next => negb (at_step r RActAfterIncr) && nested_safe imps && nested_safe next
  end.

(* ------------------------------------------------------------------------------------------ two-pass Parser.parse *)
Inductive rule_result (T E : Type) := RTree (t : T) | RNone | RRaise (e : E).
Arguments RTree {T E}. Arguments RNone {T E}. Arguments RRaise {T E}.

Inductive parse_result (T E : Type) := PTree (t : T) | PError (e : E).
Arguments PTree {T E}. Arguments PError {T E}.

(* scenic.gram:118-140: run the start rule; on None run it again with invalid_ rules enabled (which may raise a
   specific error) and then raise the generic error at the farthest token of the FIRST pass *)
Definition parse {T E} (run : bool -> rule_result T E) (generic : E) : parse_result T E :=
  match run false with
  | RTree t => PTree t
  | RRaise e => PError e
  | RNone =>
      match run true with
      | RRaise e => PError e
      | _ => PError generic
      end
  end.

(* farthest token: tokens carry their start line; the tokenizer yields lines in [1, n+1] (ENDMARKER on line n+1) *)
Definition farthest (lines : list Z) (default : Z) : Z := last lines default.
