(* C10 — model of the REPAIRED compile protocol (branch fix-C10-veneer-activate): veneer.activate does everything that can
   raise before it changes any global, and translator._scenarioFromStream calls veneer.deactivate() in its finally block
   only when activate completed.  veneer.deactivate, compileStream and ScenicLoader.exec_module are unchanged, so
   [deactivate], [dirty] and the raise points are those of C10/Frontend.v.  Definitions only. *)
From Coq Require Import ZArith NArith List Bool.
From Scenic Require Import C10.Frontend.
Import ListNotations.
Open Scope Z_scope.

(* veneer.activate after the repair:
     overriding = bool(options.paramOverrides or options.modelOverride)
     if overriding: assert activity == 0; paramOverrides = dict(options.paramOverrides)
     if options.mode2D: assert mode2D or activity == 0
     assert not evaluatingRequirement; assert not evaluatingGuard; assert currentSimulation is None
     newScenario = DynamicScenario._dummy(namespace)          (the raise point still called RActAfterIncr)
     -- nothing below can raise --
     if overriding: _globalParameters.update(..); lockedParameters = ..; lockedModel = ..
     if options.mode2D: mode2D = True; swap the classes
     activity += 1; scenarioStack.append(newScenario); currentScenario = newScenario
   Every failure returns the state it was given. *)
Definition activate_fixed (o : opts) (r : option step) (id : N) (s : vstate) : option exn * vstate :=
  if at_step r RActEntry then (Some (EUser RActEntry), s) else
  if has_overrides o && negb (activity s =? 0) then (Some EAssert, s) else
  if o_mode2D o && negb (mode2D s || (activity s =? 0)) then (Some EAssert, s) else
  if busy s then (Some EAssert, s) else
  if at_step r RActAfterIncr then (Some (EUser RActAfterIncr), s) else
  let s1 := if has_overrides o
            then VS (activity s) (stack s) (current s) (mode2D s) (busy s) (o_params o) (o_model o)
                    (o_params o ++ gparams s) (scenarios s) (simf s)
            else s in
  let m := if o_mode2D o then true else mode2D s1 in
  (None, VS (activity s1 + 1) (id :: stack s1) (Some id) m (busy s1) (locked s1) (lmodel s1) (gparams s1) (scenarios s1) (simf s1)).

(* compileStream(..., activate=True) for every imported module (unchanged code, over the repaired activate) *)
Fixpoint run_imports_fixed (ms : mods) (s : vstate) : option exn * vstate :=
  match ms with
  | MNil => (None, s)
  | MCons r id imps next =>
      let '(ea, s1) := activate_fixed default_opts r id s in      (* outside the try *)
      match ea with
      | Some e => (Some e, s1)
      | None =>
          let '(eb, s2) :=
            if at_step r RPreamble then (Some (EUser RPreamble), s1)
            else if at_step r RParse then (Some (EUser RParse), s1)
            else if at_step r RCompile then (Some (EUser RCompile), s1)
            else let '(ei, si) := run_imports_fixed imps (dirty id s1) in
                 match ei with
                 | Some e => (Some e, si)
                 | None => if at_step r RExec then (Some (EUser RExec), si)
                           else if at_step r RStore then (Some (EUser RStore), si) else (None, si)
                 end in
          let '(ed, s3) := deactivate s2 in                         (* finally *)
          match (match ed with Some e => Some e | None => eb end) with
          | Some e => (Some e, s3)
          | None => run_imports_fixed next s3
          end
      end
  end.

Definition body_fixed (r : option step) (id : N) (imps : mods) (s1 : vstate) : option exn * vstate :=
  if at_step r RPreamble then (Some (EUser RPreamble), s1)
  else if at_step r RParse then (Some (EUser RParse), s1)
  else if at_step r RCompile then (Some (EUser RCompile), s1)
  else let '(ei, si) := run_imports_fixed imps (dirty id s1) in
       match ei with
       | Some e => (Some e, si)
       | None => if at_step r RExec then (Some (EUser RExec), si)
                 else if at_step r RStore then (Some (EUser RStore), si) else (None, si)
       end.

(* translator._scenarioFromStream after the repair:
     activated = False
     try:
         with topLevelNamespace(path) as namespace:
             veneer.activate(compileOptions, namespace); activated = True
             compileStream(stream, namespace, compileOptions, filename, activate=False)
         return constructScenarioFrom(namespace, scenario)
     finally:
         if activated: veneer.deactivate()                                                                   *)
Definition scenario_from_stream_fixed (o : opts) (r : option step) (id : N) (imps : mods) (s : vstate) : option exn * vstate :=
  if at_step r RNamespace then (Some (EUser RNamespace), s) else          (* activated = False: nothing to undo *)
  let '(ea, sa) := activate_fixed o r id s in
  match ea with
  | Some e => (Some e, sa)                                                 (* activated = False: nothing to undo *)
  | None =>
      let '(e1, s1) :=
        let '(eb, sb) := body_fixed r id imps sa in
        match eb with
        | Some e => (Some e, sb)
        | None => if at_step r RConstruct then (Some (EUser RConstruct), sb) else (None, sb)
        end in
      let '(ed, s2) := deactivate s1 in                                    (* finally: activated = True *)
      (match ed with Some e => Some e | None => e1 end, s2)
  end.

(* ------------------------------------------------------------------------------------------ spec: which exception *)
(* The exception a caller must see is the first injected one in program order: activation; preamble, parse, compile;
   the imported modules in order; execution, store; (top level only) namespace before everything, construct at the end. *)
Definition or_else {A} (a b : option A) : option A := match a with Some _ => a | None => b end.

Definition act_point (r : option step) : option step :=
  match r with Some RActEntry | Some RActAfterIncr => r | _ => None end.
Definition pre_point (r : option step) : option step :=
  match r with Some RPreamble | Some RParse | Some RCompile => r | _ => None end.
Definition post_point (r : option step) : option step :=
  match r with Some RExec | Some RStore => r | _ => None end.
Definition namespace_point (r : option step) : option step :=
  match r with Some RNamespace => r | _ => None end.
Definition construct_point (r : option step) : option step :=
  match r with Some RConstruct => r | _ => None end.

Fixpoint first_raise_mods (ms : mods) : option step :=
  match ms with
  | MNil => None
  | MCons r _ imps next =>
      or_else (act_point r) (or_else (pre_point r) (or_else (first_raise_mods imps)
        (or_else (post_point r) (first_raise_mods next))))
  end.

Definition first_raise (r : option step) (imps : mods) : option step :=
  or_else (namespace_point r) (or_else (act_point r) (or_else (pre_point r) (or_else (first_raise_mods imps)
    (or_else (post_point r) (construct_point r))))).

(* no raise point anywhere in the imported modules *)
Fixpoint quiet (ms : mods) : bool :=
  match ms with
  | MNil => true
  | MCons r _ imps next => match r with None => quiet imps && quiet next | Some _ => false end
  end.

(* top-level raise points that strike before any import runs *)
Definition before_imports (st : step) : bool :=
  match st with RNamespace | RActEntry | RActAfterIncr | RPreamble | RParse | RCompile => true | _ => false end.
