(* Driver for the extracted C01 model: one program per input line, all RNG paths per output line. *)
open Model
open Zio

let toks : string list ref = ref []
let next () = match !toks with t :: r -> toks := r; t | [] -> failwith "eof"
let next_int () = int_of_string (next ())
let next_nat () = nat_of_int (next_int ())
let next_z () = z_of_string (next ())
let next_list f = let n = next_int () in List.init n (fun _ -> f ())
let pos_of_z = function Zpos p -> p | _ -> XH
let next_q () : q =
  let s = next () in
  match String.split_on_char '/' s with
  | [a; b] -> { qnum = z_of_string a; qden = pos_of_z (z_of_string b) }
  | [a] -> { qnum = z_of_string a; qden = XH }
  | _ -> failwith "q"
let n_of_int (k:int) : n = match z_of_string (string_of_int k) with Zpos p -> Npos p | _ -> N0
let string_of_q (x:q) = let y = qred x in string_of_z y.qnum ^ "/" ^ string_of_pos_fast y.qden
let int_of_n = function N0 -> 0 | Npos p -> int_of_string (string_of_pos_fast p)

let rec read_val () : val0 =
  match next () with
  | "Z" -> VZ (next_z ())
  | "Q" -> mkq (next_q ())
  | "T" -> let tag = n_of_int (next_int ()) in let l = next_list read_val in VT (tag, l)
  | "E" -> VErr
  | s -> failwith ("val " ^ s)

let rec string_of_val = function
  | VZ z -> string_of_z z
  | VQ x -> string_of_q x
  | VT (tag, l) -> "[" ^ string_of_int (int_of_n tag) ^ ":" ^ String.concat "," (List.map string_of_val l) ^ "]"
  | VErr -> "E"

let op_of_string s : opcode =
  match s with
  | "add" -> OAdd | "sub" -> OSub | "rsub" -> ORSub | "mul" -> OMul | "neg" -> ONeg | "abs" -> OAbs
  | "floordiv" -> OFloorDiv | "rfloordiv" -> ORFloorDiv | "mod" -> OMod | "rmod" -> ORMod
  | "div" -> ODiv | "rdiv" -> ORDiv | "pow" -> OPow | "rpow" -> ORPow | "divmod" -> ODivmod | "rdivmod" -> ORDivmod
  | "getitem" -> OGetItem | "len" -> OLen | "id" -> OId | "call" -> OCall
  | _ ->
    if String.length s > 2 && String.sub s 0 2 = "mk" then OMk (n_of_int (int_of_string (String.sub s 2 (String.length s - 2))))
    else if String.length s > 4 && String.sub s 0 4 = "attr" then OAttr (nat_of_int (int_of_string (String.sub s 4 (String.length s - 4))))
    else failwith ("op " ^ s)

let read_bools () = next_list (fun () -> next () = "1")

let read_node () : node =
  let k = match next () with
    | "C" -> KConst (read_val ())
    | "R" -> KDRange
    | "W" -> let lo = next_z () in let cum = next_list next_q in KDRangeW (lo, cum)
    | "M" -> KMux
    | "U" -> KUniStar (read_bools ())
    | "O" -> KOp (op_of_string (next ()))
    | "F" -> let f = n_of_int (next_int ()) in KFun (f, read_bools ())
    | "B" -> KObj
    | s -> failwith ("node " ^ s) in
  let a = next_list next_nat in
  { kind = k; args = a }

let rec read_rexpr () : rexpr =
  match next () with
  | "N" -> RNode (next_nat ())
  | "K" -> RConst (read_val ())
  | "B" -> let o = op_of_string (next ()) in let a = read_rexpr () in let b = read_rexpr () in RBin (o, a, b)
  | "U" -> let o = op_of_string (next ()) in let a = read_rexpr () in RUn (o, a)
  | s -> failwith ("rexpr " ^ s)
let rec read_cond () : cond =
  match next () with
  | "T" -> CTrue
  | "LT" -> let a = read_rexpr () in let b = read_rexpr () in CLt (a, b)
  | "LE" -> let a = read_rexpr () in let b = read_rexpr () in CLe (a, b)
  | "EQ" -> let a = read_rexpr () in let b = read_rexpr () in CEq (a, b)
  | "NE" -> let a = read_rexpr () in let b = read_rexpr () in CNe (a, b)
  | "AND" -> let a = read_cond () in let b = read_cond () in CAnd (a, b)
  | "OR" -> let a = read_cond () in let b = read_cond () in COr (a, b)
  | "NOT" -> CNot (read_cond ())
  | s -> failwith ("cond " ^ s)
let read_req () : req = let p = next_q () in let c = read_cond () in { rprob = p; rcond = c }

let string_of_label (l, k) =
  let k = string_of_int (int_of_nat k) in
  match l with
  | LRandint (lo, hi) -> "I," ^ string_of_z lo ^ "," ^ string_of_z hi ^ "," ^ k
  | LChoices cum -> "C," ^ String.concat ":" (List.map string_of_q cum) ^ "," ^ k
  | LBern p -> "B," ^ string_of_q p ^ "," ^ k
  | LChoice n -> "N," ^ string_of_z n ^ "," ^ k

let string_of_memo (m : val0 option list) =
  String.concat " " (List.map (function None -> "_" | Some v -> string_of_val v) m)

let string_of_paths out ps =
  String.concat " ; " (List.map (fun ((lg, p), o) ->
    String.concat " " (List.map string_of_label lg) ^ " | " ^ string_of_q p ^ " | " ^
    (match o with None -> "REJ" | Some x -> out x)) ps)

let handle (line:string) : string =
  toks := split_ws line;
  match next () with
  | "GEN" ->
    let n = next_nat () in
    let g = next_list read_node in
    let deps = next_list next_nat in
    let rs = next_list read_req in
    let hdr = Printf.sprintf "wf=%d good=%d reach=%d order=%s prior=%s # "
        (if wf_dagb g then 1 else 0)
        (if good_dagb g then 1 else 0)
        (if same_setb (needed g deps) (dfs_order g deps) then 1 else 0)
        (String.concat "," (List.map (fun x -> string_of_int (int_of_nat x)) (dfs_order g deps)))
        (String.concat "," (List.map (fun x -> string_of_int (int_of_nat x)) (prior_order g deps))) in
    hdr ^ string_of_paths (fun (m, k) -> string_of_int (int_of_nat k) ^ " " ^ string_of_memo m)
      (paths (generate_inner g deps rs n))
  | "PRIOR" ->
    let g = next_list read_node in
    let deps = next_list next_nat in
    string_of_paths string_of_memo (paths (prior g deps))
  | "WT" ->   (* weighted_tree ws *)
    let ws = next_list next_q in
    string_of_paths string_of_z (paths (weighted_tree ws))
  | "BIS" ->  (* choices_index cum u *)
    let cum = next_list next_q in let u = next_q () in
    string_of_int (int_of_nat (choices_index cum u))
  | s -> failwith ("cmd " ^ s)

let () =
  try
    while true do
      let line = input_line stdin in
      (try print_endline (handle line) with Failure m -> print_endline ("FAIL " ^ m))
    done
  with End_of_file -> ()
