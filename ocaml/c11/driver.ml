(* Driver for the extracted C11 model: one case per input line, one result per output line.
   input : <scene_check 0|1> <natoms> <kext> <trace> <formula in prefix tokens>
           trace  = rows of 0/1 separated by ','  ("-" = empty trace), one row per step
           formula tokens: aN | ! f | & f g | "|" f g | > f g | X f | U f g | F f | G f
   output: <outcome A|G|Rn> <spec 0|1> <top_until><early_fragment> <verdicts TtfF*> <ext>
           ext = "-" unless the outcome is a rejection strictly before the end of the trace; then
           "sat:<rows>" = a continuation of the steps seen that satisfies the formula, or "none"
           (bounded search: at most kext further steps) *)
open Model
open Zio

let toks : string list ref = ref []
let next () = match !toks with t :: r -> toks := r; t | [] -> failwith "eof"

let rec read_formula () : formula =
  let t = next () in
  match t with
  | "!" -> let p = read_formula () in Not p
  | "&" -> let p = read_formula () in let q = read_formula () in And (p, q)
  | "|" -> let p = read_formula () in let q = read_formula () in Or (p, q)
  | ">" -> let p = read_formula () in let q = read_formula () in Implies (p, q)
  | "X" -> let p = read_formula () in Next p
  | "U" -> let p = read_formula () in let q = read_formula () in Until (p, q)
  | "F" -> let p = read_formula () in Eventually p
  | "G" -> let p = read_formula () in Always p
  | _ when String.length t >= 2 && t.[0] = 'a' ->
      Atom (nat_of_int (int_of_string (String.sub t 1 (String.length t - 1))))
  | _ -> failwith ("token " ^ t)

let row_of_string (s:string) : bool list = List.init (String.length s) (fun i -> s.[i] = '1')
let string_of_row (r:bool list) : string = String.concat "" (List.map (fun b -> if b then "1" else "0") r)
let trace_of_string (s:string) : bool list list =
  if s = "-" then [] else List.map row_of_string (String.split_on_char ',' s)
let string_of_trace (t:bool list list) : string =
  match t with [] -> "-" | _ -> String.concat "," (List.map string_of_row t)

let b4c = function BT -> "T" | BPT -> "t" | BPF -> "f" | BF -> "F"
let rec firstn n l = if n <= 0 then [] else match l with [] -> [] | x :: r -> x :: firstn (n-1) r

let handle (line:string) : string =
  toks := split_ws line;
  let sc = next () = "1" in
  let natoms = int_of_string (next ()) in
  let kext = int_of_string (next ()) in
  let tr = trace_of_string (next ()) in
  let f = read_formula () in
  let len = List.length tr in
  let o = run_site sc f tr in
  let os, cut = (match o with
    | SAccept -> "A", None
    | SRejectScene -> "G", (if len > 1 then Some 1 else None)
    | SReject t -> let t = int_of_nat t in "R" ^ string_of_int t, (if t + 1 < len then Some (t+1) else None)) in
  let spec = if fltl f tr O then "1" else "0" in
  let frag = (if top_until f then "1" else "0") ^ (if early_fragment f then "1" else "0") in
  let vs = String.concat "" (List.map b4c (verdicts f tr)) in
  let ext = (match cut with
    | None -> "-"
    | Some c -> (match sat_ext f (firstn c tr) (nat_of_int natoms) (nat_of_int kext) with
                 | Some w -> "sat:" ^ (match w with [] -> "" | _ -> string_of_trace w)
                 | None -> "none")) in
  String.concat " " [os; spec; frag; (if vs = "" then "-" else vs); ext]

let () =
  try
    while true do
      let line = input_line stdin in
      (try print_endline (handle line) with e -> print_endline ("ERR " ^ Printexc.to_string e))
    done
  with End_of_file -> ()
