(* Driver for the extracted C18 model: one command per input line, one result per output line. *)
open Model
open Zio

let hex_of_bytes (bs:z list) : string =
  String.concat "" (List.map (fun b -> Printf.sprintf "%02x" (int_of_string (string_of_z b))) bs)
let bytes_of_hex (s:string) : z list =
  if s = "-" then [] else
  List.init (String.length s / 2) (fun i -> z_of_string (string_of_int (int_of_string ("0x" ^ String.sub s (2*i) 2))))
let hex_or_dash bs = match bs with [] -> "-" | _ -> hex_of_bytes bs

let err_name = function ETrunc -> "trunc" | EBadIndex -> "badindex" | EBadHeader -> "badheader"
  | EUnsupported -> "unsupported" | EFuel -> "fuel"

let ty_of_string = function
  | "int" -> TInt | "bool" -> TBool | "float" -> TFloat | "vec" -> TVec | "ori" -> TOri
  | "str" -> TStr | "bytes" -> TBytes | "none" -> TNone | s -> failwith ("type " ^ s)

(* token stream *)
let toks : string list ref = ref []
let next () = match !toks with t :: r -> toks := r; t | [] -> failwith "eof"
let next_int () = int_of_string (next ())

let read_node () : node =
  match next () with
  | "F" -> NFixed
  | "P" -> NPrim (ty_of_string (next ()))
  | "D" -> (* D ne e1..e_ne nd d1..d_nd : the encoder's and the decoder's dependency walks *)
           let c = next_int () in let es = List.init c (fun _ -> nat_of_int (next_int ())) in
           let c' = next_int () in let ds = List.init c' (fun _ -> nat_of_int (next_int ())) in
           NDet (es, ds)
  | "M" -> let ix = next_int () in let c = next_int () in
           NMux (nat_of_int ix, List.init c (fun _ -> nat_of_int (next_int ())))
  | s -> failwith ("node " ^ s)

let read_dag () : node list = let n = next_int () in List.init n (fun _ -> read_node ())

let natlist l = String.concat " " (string_of_int (List.length l) :: List.map (fun x -> string_of_int (int_of_nat x)) l)
let string_of_node = function
  | NFixed -> "F"
  | NPrim t -> "P " ^ (match t with TInt -> "int" | TBool -> "bool" | TFloat -> "float" | TVec -> "vec" | TOri -> "ori"
                                  | TStr -> "str" | TBytes -> "bytes" | TNone -> "none")
  | NDet (es, ds) -> "D " ^ natlist es ^ " " ^ natlist ds
  | NMux (ix, os) -> "M " ^ string_of_int (int_of_nat ix) ^ " " ^ natlist os

let read_val () : val0 =
  match next () with
  | "I" -> VInt (z_of_string (next ()))
  | "B" -> VBool (next () = "1")
  | "X" -> VFix (bytes_of_hex (next ()))
  | "S" -> VBlob (bytes_of_hex (next ()))
  | "N" -> VNone
  | s -> failwith ("val " ^ s)

let string_of_val = function
  | VInt z -> "I " ^ string_of_z z
  | VBool b -> "B " ^ (if b then "1" else "0")
  | VFix p -> "X " ^ hex_or_dash p
  | VBlob p -> "S " ^ hex_or_dash p
  | VNone -> "N"

let handle (line:string) : string =
  toks := split_ws line;
  match next () with
  | "WI" -> (match write_int (z_of_string (next ())) with Some b -> "SOME " ^ hex_or_dash b | None -> "NONE")
  | "RI" -> (match read_int (bytes_of_hex (next ())) with
             | OK (z, r) -> "OK " ^ string_of_z z ^ " " ^ hex_or_dash r
             | Err e -> "ERR " ^ err_name e)
  | "WV" -> let t = ty_of_string (next ()) in let v = read_val () in
            (match write_value t v with Some b -> "SOME " ^ hex_or_dash b | None -> "NONE")
  | "RV" -> let t = ty_of_string (next ()) in
            (match read_value t (bytes_of_hex (next ())) with
             | OK (v, r) -> "OK " ^ string_of_val v ^ " | " ^ hex_or_dash r
             | Err e -> "ERR " ^ err_name e)
  | "ENC" ->
      let g = read_dag () in
      let m = next_int () in
      let tbl = Hashtbl.create 16 in
      for _ = 1 to m do let i = next_int () in let v = read_val () in Hashtbl.replace tbl i v done;
      let k = next_int () in
      let deps = List.init k (fun _ -> nat_of_int (next_int ())) in
      let pval (i:nat) = try Hashtbl.find tbl (int_of_nat i) with Not_found -> VNone in
      (match enc_sample g pval deps with Some b -> "SOME " ^ hex_or_dash b | None -> "NONE")
  | "DEC" ->
      let g = read_dag () in
      let k = next_int () in
      let deps = List.init k (fun _ -> nat_of_int (next_int ())) in
      let data = bytes_of_hex (next ()) in
      (match dec_sample g deps data with
       | OK (pe, r) ->
           let items = List.sort compare (List.map (fun (i, v) -> (int_of_nat i, string_of_val v)) pe) in
           "OK " ^ String.concat " ; " (List.map (fun (i, s) -> string_of_int i ^ " " ^ s) items) ^ " | " ^ hex_or_dash r
       | Err e -> "ERR " ^ err_name e)
  | "VIEW" ->
      (* VIEW n {node (- | C k p1..pk)} : the DAG the code walks (code_view) given every node's own
         dependency list and its conditioned proxy's *)
      let n = next_int () in
      let cg = List.init n (fun _ ->
        let own = read_node () in
        let proxy = (match next () with
          | "-" -> None
          | "C" -> let k = next_int () in Some (List.init k (fun _ -> nat_of_int (next_int ())))
          | s -> failwith ("proxy " ^ s)) in
        { c_own = own; c_proxy = proxy }) in
      String.concat " " (string_of_int n :: List.map (fun c -> string_of_node (code_view c)) cg)
  | "ROLES" ->
      (* byte layout of an encoding: written primitive nodes in order, with their lengths *)
      let g = read_dag () in
      let k = next_int () in
      let deps = List.init k (fun _ -> nat_of_int (next_int ())) in
      let data = bytes_of_hex (next ()) in
      (match dec_sample g deps data with
       | OK (pe, _) ->
           String.concat "," (List.map (fun (i, v) ->
             let t = (match List.nth g (int_of_nat i) with NPrim t -> t | _ -> TNone) in
             let l = (match write_value t v with Some b -> List.length b | None -> 0) in
             string_of_int (int_of_nat i) ^ ":" ^ string_of_int l) (List.rev pe))
       | Err e -> "ERR " ^ err_name e)
  | "HDR" ->
      let v = z_of_string (next ()) in let a = bytes_of_hex (next ()) in let o = bytes_of_hex (next ()) in
      let data = bytes_of_hex (next ()) in
      (match read_header { h_version = v; h_ast = a; h_opts = o } data with
       | OK r -> "OK " ^ hex_or_dash r | Err e -> "ERR " ^ err_name e)
  | "DIV" -> let e = z_of_string (next ()) in let a = z_of_string (next ()) in let t = z_of_string (next ()) in
             if values_have_diverged e a t then "1" else "0"
  | "IEEE" -> (match ieee (bytes_of_hex (next ())) with
               | Some (m, e) -> "SOME " ^ string_of_z m ^ " " ^ string_of_z e | None -> "NONE")
  | "DV" -> (* DV tolm tole ty val val : the model's valuesHaveDiverged *)
      let tm = z_of_string (next ()) in let te = z_of_string (next ()) in
      let t = ty_of_string (next ()) in let e = read_val () in let a = read_val () in
      if diverged_val (tm, te) t e a then "1" else "0"
  | "SIM" ->
      (* SIM wr cont tolm tole nsteps {D dag root | U n {ty val}} ntables {m {i val}} replayhex *)
      let wr = next () = "1" in let cont = next () = "1" in
      let tm = z_of_string (next ()) in let te = z_of_string (next ()) in
      let nsteps = next_int () in
      let rec steps k acc = if k = 0 then List.rev acc else
        (match next () with
         | "D" -> let g = read_dag () in let root = nat_of_int (next_int ()) in steps (k-1) (SDraw (g, root) :: acc)
         | "U" -> let n = next_int () in
                  let rec ps j a = if j = 0 then List.rev a else
                    (let t = ty_of_string (next ()) in let v = read_val () in ps (j-1) ((t, v) :: a)) in
                  let l = ps n [] in steps (k-1) (SUpdate l :: acc)
         | s -> failwith ("step " ^ s)) in
      let sc = steps nsteps [] in
      let nt = next_int () in
      let rec tables k acc = if k = 0 then List.rev acc else
        (let m = next_int () in
         let rec ent j a = if j = 0 then List.rev a else
           (let i = nat_of_int (next_int ()) in let v = read_val () in ent (j-1) ((i, v) :: a)) in
         let l = ent m [] in tables (k-1) (l :: acc)) in
      let tbs = tables nt [] in
      let replay = bytes_of_hex (next ()) in
      let r = simulate (diverged_val (tm, te)) wr cont (prog_of_script sc) replay (oracle_of tbs) in
      let oc = (match r.r_end with Completed -> "OK" | Diverged -> "DIVERGED"
                | Failed e -> "FAIL " ^ err_name e | EncFailed -> "ENCFAIL") in
      oc ^ " | " ^ (match r.r_trace with [] -> "-" | l -> String.concat "," (List.map hex_or_dash l))
         ^ " | " ^ hex_or_dash r.r_out
  | s -> failwith ("cmd " ^ s)

let () =
  try while true do
    let line = input_line stdin in
    (try print_endline (handle line) with Failure m -> print_endline ("FAIL " ^ m))
  done with End_of_file -> ()
