(* Driver for the extracted C09 model.  One command per line:
     X <inBehavior> <inCompose> <nlocals> <local>* <tree>
   tree ::= N <kind> (L l c el ec | M | X) <n> <tree>*  |  S <n> <tree>*  |  A <atom>  |  I <int>
   Output:  <wf> <rejects> | <compile result> | <rewrite_doc tree, or = when equal to the compile result> *)
open Model
open Zio

let toks : string array ref = ref [||]
let pos = ref 0
let next () = let t = !toks.(!pos) in incr pos; t
let n_of_string s = match z_of_string s with Z0 -> N0 | Zpos p -> Npos p | Zneg _ -> failwith "negative N"
let string_of_n n = match n with N0 -> "0" | Npos p -> string_of_z (Zpos p)

let rec read_tree () : tree =
  match next () with
  | "N" ->
      let k = n_of_string (next ()) in
      let li = (match next () with
        | "L" -> let l = z_of_string (next ()) in let c = z_of_string (next ()) in
                 let el = z_of_string (next ()) in let ec = z_of_string (next ()) in
                 Located { l_line = l; l_col = c; l_eline = el; l_ecol = ec }
        | "M" -> Missing | "X" -> NoAttr | s -> failwith ("loc " ^ s)) in
      let n = int_of_string (next ()) in
      let ch = read_list n in Node (k, li, ch)
  | "S" -> let n = int_of_string (next ()) in Lst (read_list n)
  | "A" -> Atom (n_of_string (next ()))
  | "I" -> Int (z_of_string (next ()))
  | s -> failwith ("tree " ^ s)
and read_list n = if n = 0 then [] else let x = read_tree () in x :: read_list (n - 1)

let put_loc b (l:loc) =
  Buffer.add_string b (string_of_z l.l_line); Buffer.add_char b ' ';
  Buffer.add_string b (string_of_z l.l_col); Buffer.add_char b ' ';
  Buffer.add_string b (string_of_z l.l_eline); Buffer.add_char b ' ';
  Buffer.add_string b (string_of_z l.l_ecol)

let rec put b (t:tree) =
  match t with
  | Node (k, li, ch) ->
      Buffer.add_string b "N "; Buffer.add_string b (string_of_n k);
      (match li with
       | Located l -> Buffer.add_string b " L "; put_loc b l
       | Missing -> Buffer.add_string b " M"
       | NoAttr -> Buffer.add_string b " X");
      Buffer.add_char b ' '; Buffer.add_string b (string_of_int (List.length ch));
      List.iter (fun c -> Buffer.add_char b ' '; put b c) ch
  | Lst xs ->
      Buffer.add_string b "S "; Buffer.add_string b (string_of_int (List.length xs));
      List.iter (fun c -> Buffer.add_char b ' '; put b c) xs
  | Atom a -> Buffer.add_string b "A "; Buffer.add_string b (string_of_n a)
  | Int z -> Buffer.add_string b "I "; Buffer.add_string b (string_of_z z)

let show t = let b = Buffer.create 4096 in put b t; Buffer.contents b

let () =
  try
    while true do
      let line = input_line stdin in
      toks := Array.of_list (split_ws line); pos := 0;
      (match next () with
       | "X" ->
           let ib = next () = "1" in let ic = next () = "1" in
           let nl = int_of_string (next ()) in
           let ls = List.init nl (fun _ -> n_of_string (next ())) in
           let c = { inBehavior = ib; inCompose = ic; locals = ls } in
           let t = read_tree () in
           let w = wf t in let rj = rejects c t in
           let rw = show (rewrite_doc c t) in
           let res, same = (match compile_module c t with
             | OK t' -> let s = show t' in ("OK " ^ s, s = rw)
             | Err e ->
                 let nm = (match e with EStoreBuiltin _ -> "builtin" | EStoreTracked _ -> "tracked"
                                      | EAnnAssign _ -> "annassign" | EYield _ -> "yield") in
                 let b = Buffer.create 64 in put_loc b (err_loc e); ("ERR " ^ nm ^ " " ^ Buffer.contents b, false)
             | Crash -> ("CRASH", false)) in
           print_string ((if w then "1" else "0") ^ " " ^ (if rj then "1" else "0") ^ " " ^ (if ctx_ok c then "1" else "0")
                         ^ " | " ^ res ^ " | " ^ (if same then "=" else rw));
           print_newline ()
       | s -> failwith ("command " ^ s))
    done
  with End_of_file -> ()
