(* Driver for the extracted C15 model.
   ORD n {israndom nchildren children}^n  ni insts  np params  nr {nb bindings}^nr  nb behs
     -> "<dependency tuple> | <random nodes in the order sampleAll draws them>"
   RES n {np props nr required}^n
     -> the properties in the order specifier resolution evaluates them (dependency sets sorted)   *)
open Model
open Zio

let toks : string list ref = ref []
let next () = match !toks with t :: r -> toks := r; t | [] -> failwith "eof"
let next_int () = int_of_string (next ())
let next_nat () = nat_of_int (next_int ())
let nat_list () = let k = next_int () in List.init k (fun _ -> next_nat ())
let ids l = match l with [] -> "-" | _ -> String.concat "," (List.map (fun i -> string_of_int (int_of_nat i)) l)

let handle (line : string) : string =
  toks := split_ws line;
  match next () with
  | "ORD" ->
      let n = next_int () in
      let g = List.init n (fun _ -> let r = next_int () = 1 in let ch = nat_list () in { children = ch; is_random = r }) in
      let insts = nat_list () in
      let params = nat_list () in
      let nr = next_int () in
      let bindings = List.init nr (fun _ -> nat_list ()) in
      let beh = nat_list () in
      let p = { p_dag = g; p_ev = (fun _ _ _ -> Z0); p_instances = insts; p_params = params;
                p_bindings = bindings; p_behaviors = beh; p_reqs = []; p_fals = (fun _ _ -> false) } in
      let deps = deps_of gather_ordered p in
      let s = sample_all g p.p_ev deps { stream = (fun _ -> Z0); cursor = O } in
      ids deps ^ " | " ^ ids s.ss_log
  | "RES" ->
      let n = next_int () in
      let specs = List.init n (fun _ -> let ps = nat_list () in let rq = nat_list () in { s_props = ps; s_req = rq }) in
      ids (prop_order (present_sorted (fun l -> l)) specs)
  | s -> failwith ("cmd " ^ s)

let () =
  try while true do
    let line = input_line stdin in
    (try print_endline (handle line) with Failure m -> print_endline ("FAIL " ^ m))
  done with End_of_file -> ()
