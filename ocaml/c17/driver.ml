(* Driver for the extracted C17 model: one command per input line, one result per output line.
   Floats travel as C99 hex-float literals and are converted EXACTLY to the model's rationals.
   The transcendental oracles of the model (atan2, asin, sqrt) are libm's, applied to the nearest
   double of the exact rational argument. *)
open Model
open Zio

(* ---- exact double -> Q *)
let rec pos_shift (p:positive) (k:int) : positive = if k <= 0 then p else pos_shift (XO p) (k-1)
let q_of_float (f:float) : q =
  if f = 0.0 || Float.is_nan f then { qnum = Z0; qden = XH }
  else if Float.is_integer f && Float.abs f < 1e15 then { qnum = z_of_string (Printf.sprintf "%.0f" f); qden = XH }
  else
    let (m, e) = Float.frexp f in
    let mi = Int64.of_float (Float.ldexp m 53) in
    let zi = z_of_string (Int64.to_string mi) in
    let k = e - 53 in
    if k >= 0 then
      { qnum = (match zi with Z0 -> Z0 | Zpos p -> Zpos (pos_shift p k) | Zneg p -> Zneg (pos_shift p k)); qden = XH }
    else { qnum = zi; qden = pos_shift XH (-k) }

(* ---- Q -> nearest double (up to ~1e-13 relative) *)
let bits (p:positive) : char array = Array.of_list (bits_of_pos p [])
let float_of_bits (cs:char array) (n:int) : float =
  let a = ref 0.0 in
  for i = 0 to n - 1 do a := 2.0 *. !a +. (if cs.(i) = '1' then 1.0 else 0.0) done; !a
let float_of_q (x:q) : float =
  match x.qnum with
  | Z0 -> 0.0
  | Zpos p | Zneg p ->
    let nb = bits p and db = bits x.qden in
    let ln = Array.length nb and ld = Array.length db in
    let drop = max 0 (max ln ld - 1000) in
    let fn = if ln - drop <= 0 then 0.0 else float_of_bits nb (ln - drop) in
    let fd = if ld - drop <= 0 then 0.0 else float_of_bits db (ld - drop) in
    let v = if fd = 0.0 then max_float else fn /. fd in
    (match x.qnum with Zneg _ -> -. v | _ -> v)

let toks : string list ref = ref []
let next () = match !toks with t :: r -> toks := r; t | [] -> failwith "eof"
let next_int () = int_of_string (next ())
let next_f () = float_of_string (next ())
let next_q () = q_of_float (next_f ())
let next_vec () = let x = next_q () in let y = next_q () in let z = next_q () in { vx = x; vy = y; vz = z }
let next_bool () = next () = "1"
let rec times n f = if n <= 0 then [] else let x = f () in x :: times (n-1) f

let pi_q = q_of_float (4.0 *. atan 1.0)
let tau_q = q_of_float (8.0 *. atan 1.0)     (* math.tau = 2 * math.pi exactly (doubling a double is exact) *)
let o_atan2 (y:q) (x:q) : q = q_of_float (Float.atan2 (float_of_q y) (float_of_q x))
let o_asin (z:q) : q = q_of_float (Float.asin (Float.max (-1.0) (Float.min 1.0 (float_of_q z))))
let o_norm (w:vec) : q =
  q_of_float (Float.hypot (Float.hypot (float_of_q w.vx) (float_of_q w.vy)) (float_of_q w.vz))

let o_cos (a:q) : q = q_of_float (Float.cos (float_of_q a))

let fl (x:q) = Printf.sprintf "%h" (float_of_q x)
let b2s b = if b then "1" else "0"

let handle (line:string) : string =
  toks := split_ws line;
  match next () with
  | "PV" ->
      let mode = (match next () with "old" -> Old | "fixed" -> Fixed | s -> failwith s) in
      let has_r = next_bool () in
      let c = next_vec () in
      let r = if has_r then (let a = next_vec () in let b = next_vec () in let cc = next_vec () in
                             Some { r0 = a; r1 = b; r2 = cc }) else None in
      let d = next_q () in let h = next_q () in let v = next_q () in
      (* the viewer's effective angles: the REQUESTED ones truncated by the model of OrientedPoint.__init__ *)
      let (h, v) = truncate_angles tau_q pi_q (h, v) in
      let p = next_vec () in
      let nocc = next_int () in
      let occ = Array.of_list (times nocc (fun () ->
                  let od = next_q () in let nh = next_int () in (od, times nh next_q))) in
      let odist (i:int) = fst occ.(i) in
      let hit (i:int) (_:vec) = snd occ.(i) in
      let res = point_visible pi_q o_atan2 o_asin o_norm odist hit mode c r d h v p (List.init nocc (fun i -> i)) in
      let m = point_margin pi_q o_atan2 o_asin o_norm mode c r d h v p in
      let az = point_az pi_q o_atan2 o_norm mode r c p in
      let alt = point_alt o_asin o_norm mode r c p in
      Printf.sprintf "%s %s %s %s" (b2s res) (fl m) (fl az) (fl alt)
  | "TRUNC" ->
      let h = next_q () in let v = next_q () in
      let (h', v') = truncate_angles tau_q pi_q (h, v) in
      fl h' ^ " " ^ fl v'
  | "WIN" ->
      let h = next_q () in let v = next_q () in
      let ahead = next_bool () in let behind = next_bool () in
      let n = next_int () in
      let angs = times n (fun () -> let a = next_q () in let b = next_q () in (a, b)) in
      (match angs with
       | [] -> "EMPTY"
       | a0 :: rest ->
         (match view_windows pi_q h v ahead behind a0 rest with
          | None -> "NONE"
          | Some ws -> String.concat " " (string_of_int (List.length ws) ::
                         List.concat_map (fun w -> [fl w.h_lo; fl w.h_hi; fl w.v_lo; fl w.v_hi]) ws)))
  | "CROSS" ->
      let n = next_int () in
      let es = times n (fun () -> let a = next_vec () in let b = next_vec () in (a, b)) in
      let (a, b) = crosses es in b2s a ^ " " ^ b2s b
  | "RV" ->
      let d = next_q () in
      let nocc = next_int () in
      let nb = next_int () in
      let batches = times nb (fun () ->
        let nr = next_int () in
        times nr (fun () ->
          let nt = next_int () in
          let th = times nt next_q in
          let oh = Array.of_list (times nocc (fun () -> let k = next_int () in times k next_q)) in
          (th, oh))) in
      let target_hits (r : q list * q list array) = fst r in
      let occ_hits (o:int) (r : q list * q list array) = (snd r).(o) in
      b2s (rays_visible target_hits occ_hits d batches (List.init nocc (fun i -> i)))
  | "OBJ" | "OBJDIAG" as cmd ->
      (* object pipeline: local-frame vertices + edges -> augmented vertices, flags, windows, ray grid
         (object_windows = windows_of_angles . object_angles, evaluated in two steps to count the added vertices);
         OBJDIAG: distances of the discrete decisions from their thresholds (asked for only after a disagreement) *)
      let h = next_q () in let v = next_q () in
      let mode = next () in
      let p1 = next_q () in let p2 = next_q () in
      let nv = next_int () in
      let verts = Array.of_list (times nv next_vec) in
      let ne = next_int () in
      let edges = times ne (fun () -> let i = next_int () in let j = next_int () in (verts.(i), verts.(j))) in
      let vl = Array.to_list verts in
      let angs = object_angles pi_q o_atan2 o_asin o_norm vl edges in
      let nextra = List.length angs - nv in
      if cmd = "OBJDIAG" then begin
        let fmin = List.fold_left Float.min infinity and fmax = List.fold_left Float.max neg_infinity in
        let azs = List.map (fun (a, _) -> float_of_q a) angs and alts = List.map (fun (_, b) -> float_of_q b) angs in
        let back a = if a >= 0.0 then a -. Float.pi else a +. Float.pi in
        let ys = List.filter_map (fun e -> match edge_cross e with Some y -> Some (Float.abs (float_of_q y)) | None -> None) edges in
        let minx = fmin (List.map (fun w -> Float.abs (float_of_q w.vx)) vl) in
        Printf.sprintf "%h %h %h %h %h %h %h %h" (fmin azs) (fmax azs) (fmin alts) (fmax alts)
          (fmin (List.map back azs)) (fmax (List.map back azs)) (fmin ys) minx
      end else
      let (ahead, behind) = crosses edges in
      let diag = Printf.sprintf "%s %s %d" (b2s ahead) (b2s behind) nextra in
      (match windows_of_angles pi_q h v edges angs with
       | None -> "NONE " ^ diag
       | Some ws ->
         let (rch, rcv, altscale) =
           if mode = "D" then (let (a, b) = density_counts pi_q h v p1 p2 in (a, b, true)) else (p1, p2, false) in
         let wstr = String.concat " " (string_of_int (List.length ws) ::
                       List.concat_map (fun w -> [fl w.h_lo; fl w.h_hi; fl w.v_lo; fl w.v_hi]) ws) in
         (match object_rays o_cos h v rch rcv altscale ws with
          | None -> "ASSERT " ^ diag ^ " " ^ wstr
          | Some rays ->
            (* per-row summary (rows = rays of equal altitude): alt n min max sum sum-of-squares of the azimuths *)
            let tbl : (float, (int * float * float * float * float) ref) Hashtbl.t = Hashtbl.create 64 in
            List.iter (fun (a, b) ->
              let az = float_of_q a and al = float_of_q b in
              let az = if az < -. Float.pi +. 1e-6 then az +. 2.0 *. Float.pi else az in
              match Hashtbl.find_opt tbl al with
              | None -> Hashtbl.add tbl al (ref (1, az, az, az, az *. az))
              | Some r -> let (n, lo, hi, s, s2) = !r in
                          r := (n + 1, Float.min lo az, Float.max hi az, s +. az, s2 +. az *. az)) rays;
            let rows = List.sort compare (Hashtbl.fold (fun al r acc -> (al, !r) :: acc) tbl []) in
            "RAYS " ^ diag ^ " " ^ wstr ^ " " ^ string_of_int (List.length rays) ^ " " ^ string_of_int (List.length rows) ^ " " ^
            String.concat " " (List.map (fun (al, (n, lo, hi, s, s2)) ->
              Printf.sprintf "%h %d %h %h %h %h" al n lo hi s s2) rows)))
  | "S2D" ->
      let oriented = next_bool () in
      let c = next_vec () in
      let r = next_q () in let heading = next_q () in let angle = next_q () in
      let p = next_vec () in
      let res = can_see_2d pi_q o_atan2 o_norm oriented c r heading angle p in
      let m = sector_margin pi_q o_atan2 o_norm oriented c r heading angle p in
      Printf.sprintf "%s %s" (b2s res) (fl m)
  | "REQ" | "OP" | "DEF" as cmd ->
      let nobj = next_int () in
      let objs = List.init nobj (fun i -> i) |> List.map (fun i -> { oid = nat_of_int i; occluding = next_bool () }) in
      let ids l = String.concat "," (List.map (fun o -> string_of_int (int_of_nat o.oid)) l) in
      if cmd = "REQ" then
        let s = next_int () in let t = next_int () in ids (req_occluders objs (nat_of_int s) (nat_of_int t))
      else if cmd = "OP" then
        let opt i = if i < 0 then None else Some (nat_of_int i) in
        let x = next_int () in let y = next_int () in ids (op_occluders objs (opt x) (opt y))
      else begin
        let one_shot = next_bool () in
        let pairs () = let n = next_int () in times n (fun () -> let s = next_int () in let t = next_int () in (nat_of_int s, nat_of_int t)) in
        let obs = pairs () in let non = pairs () in
        let ego = next_int () in
        let nrv = next_int () in
        let rv = times nrv (fun () -> nat_of_int (next_int ())) in
        let rs = default_visibility_reqs one_shot objs obs non (nat_of_int ego) rv in
        String.concat " ; " (List.map (fun r ->
          Printf.sprintf "%s %d %d [%s]" (match r.rk with MustSee -> "see" | MustNotSee -> "notsee")
            (int_of_nat r.rsrc) (int_of_nat r.rtgt) (ids r.rocc)) rs)
      end
  | s -> failwith ("command " ^ s)

let () =
  try
    while true do
      let line = input_line stdin in
      (try print_endline (handle line) with
       | End_of_file -> raise End_of_file
       | e -> print_endline ("EXN " ^ Printexc.to_string e))
    done
  with End_of_file -> ()
