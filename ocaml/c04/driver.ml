(* Driver for the extracted C04 model: certificate checkers on exact rationals (floats arrive as
   C99 hex literals and are converted exactly) and the cascade models over oracle bits. *)
open Model
open Zio

let rec pos_shift (p:positive) (k:int) : positive = if k <= 0 then p else pos_shift (XO p) (k-1)
let q_of_float (f:float) : q =
  if f = 0.0 || Float.is_nan f then { qnum = Z0; qden = XH }
  else if Float.is_integer f && Float.abs f < 1e15 then { qnum = z_of_string (Printf.sprintf "%.0f" f); qden = XH }
  else
    let (m, e) = Float.frexp f in
    let mi = Int64.of_float (Float.ldexp m 53) in
    let zi = z_of_string (Int64.to_string mi) in
    let k = e - 53 in
    if k >= 0 then
      { qnum = (match zi with Z0 -> Z0 | Zpos p -> Zpos (pos_shift p k) | Zneg p -> Zneg (pos_shift p k)); qden = XH }
    else { qnum = zi; qden = pos_shift XH (-k) }

let toks : string list ref = ref []
let next () = match !toks with t :: r -> toks := r; t | [] -> failwith "eof"
let next_int () = int_of_string (next ())
let next_q () = q_of_float (float_of_string (next ()))
let next_vec () = let x = next_q () in let y = next_q () in let z = next_q () in { vx = x; vy = y; vz = z }
let next_bool () = next () = "1"
let rec times n f = if n <= 0 then [] else let x = f () in x :: times (n-1) f
let b2s b = if b then "1" else "0"
let verts () = let n = next_int () in times n next_vec
let halfspaces () = let n = next_int () in times n (fun () -> let v = next_vec () in let d = next_q () in (v, d))
(* weights are normalised exactly so that they sum to 1; the checker re-verifies sum and signs *)
let weights () =
  let n = next_int () in
  let ws = times n next_q in
  let s = List.fold_left qplus { qnum = Z0; qden = XH } ws in
  if s.qnum = Z0 then ws else List.map (fun w -> qred (qdiv w s)) ws

let ipass_name = function IP1 -> "1" | IP2A_in -> "2A-in" | IP2A_out -> "2A-out" | IP2B -> "2B"
  | IP3_hit -> "3-hit" | IP3_convex -> "3-convex" | IP4 -> "4" | IP5 -> "5"
let cpass_name = function CP1 -> "1" | CP2_bb -> "2-bb" | CP2_vert -> "2-vert" | CP3_out -> "3-out"
  | CP3_in -> "3-in" | CP4 -> "4" | CP5 -> "5"

let read_ior () =
  let a = next_bool () in let b = next_bool () in let c = next_bool () in let d = next_bool () in
  let e = next_bool () in let f = next_bool () in let g = next_bool () in let h = next_bool () in
  let i = next_bool () in let j = next_bool () in let k = next_bool () in let l = next_bool () in
  { centre_far = a; both_scaled = b; in_near = c; circ_far = d; bbox_overlap = e; surf_collide = f;
    a_convex = g; b_convex = h; single_bodies = i; a_has_b_point = j; b_has_a_point = k; bool_nonempty = l }

let handle (line:string) : string =
  toks := split_ws line;
  match next () with
  | "SEP" -> let n = next_vec () in let d = next_q () in let m = next_q () in
             let a = verts () in let b = verts () in b2s (separates n d m a b)
  | "COM" -> let e = next_q () in let la = weights () in let a = verts () in
             let mu = weights () in let b = verts () in b2s (common_point e la mu a b)
  | "INS" -> let m = next_q () in let h = halfspaces () in let a = verts () in b2s (inside_halfspaces m h a)
  | "INC" -> let m = next_q () in let e = next_q () in let h = halfspaces () in let a = verts () in b2s (inside_clear m e h a)
  | "OUT" -> let m = next_q () in let h = halfspaces () in let a = verts () in b2s (vertex_outside m h a)
  | "CASC" -> let (r, p) = intersects_vol (read_ior ()) in b2s r ^ " " ^ ipass_name p
  | "OBJ" -> let pb = next_bool () in let z = next_bool () in let po = next_bool () in
             b2s (intersects_obj { both_planar_boxes = pb; z_apart = z; polys_intersect = po; vol = read_ior () })
  | "CONT" ->
      let a = next_bool () in let b = next_bool () in let c = next_bool () in let d = next_bool () in
      let e = next_bool () in let f = next_bool () in let g = next_bool () in let h = next_bool () in
      let i = next_bool () in let j = next_bool () in
      let (r, p) = contains_obj { c_bbox_overlap = a; c_convex = b; c_bb_corners_in = c; c_vertices_in = d;
        c_have_obj_point = e; c_obj_point_in = f; c_ball_fits = g; c_have_reg_point = h; c_too_far = i; c_diff_empty = j } in
      b2s r ^ " " ^ cpass_name p
  | "ZAP" -> let za = next_q () in let ha = next_q () in let zb = next_q () in let hb = next_q () in
             b2s (z_apart_num za ha zb hb)
  | ("SLAB" | "SLABF") as cmd -> (* history of approxBoundFootprint requests (centre, height) on one region: the slabs handed out;
                                   SLABF: padding 100 * height (branch fix-C04-footprint-slab-padding) *)
      let n = next_int () in
      let reqs = times n (fun () -> let c = next_q () in let h = next_q () in (c, h)) in
      let q2s (x:q) = let r = qred x in string_of_z r.qnum ^ "/" ^ string_of_z (Zpos r.qden) in
      String.concat " " (List.map (fun s -> q2s s.s_c ^ ":" ^ q2s s.s_h) (run_requests (if cmd = "SLAB" then approx else approx_flat) None reqs))
  | "FOOT" -> let a = next_bool () in let b = next_bool () in let c = next_bool () in
              b2s (contains_footprint { f_convex = a; f_poly_in = b; f_hull_in = c })
  | s -> failwith ("command " ^ s)

let () =
  try
    while true do
      let line = input_line stdin in
      (try print_endline (handle line) with
       | End_of_file -> raise End_of_file
       | e -> print_endline ("EXN " ^ Printexc.to_string e))
    done
  with End_of_file -> ()
