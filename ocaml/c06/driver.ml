(* Driver for the extracted C06 model: one command per input line, one result per output line.
   R <fixed> <nspecs> spec* <ndefaults> (prop spec)* <nfinals> prop*
     spec = name nprios (prop prio)* ndeps prop* ismod nmodifiable prop*
   M <nclasses> (nprops (prop ndeps prop* additive dynamic final)* )*           (most derived first) *)
open Model
open Zio

let toks : string list ref = ref []
let next () = match !toks with t :: r -> toks := r; t | [] -> failwith "eof"
let next_int () = int_of_string (next ())
let n_of_z = function Z0 -> N0 | Zpos p -> Npos p | Zneg _ -> N0
let next_n () = n_of_z (z_of_string (next ()))
let next_z () = z_of_string (next ())
let string_of_n = function N0 -> "0" | Npos p -> string_of_z (Zpos p)
let list_n () = let c = next_int () in List.init c (fun _ -> next_n ())
let next_bool () = next () = "1"

let read_spec () : spec =
  let name = next_n () in
  let np = next_int () in
  let pr = List.init np (fun _ -> let p = next_n () in let k = next_z () in (p, k)) in
  let ds = list_n () in
  let m = next_bool () in
  let mo = list_n () in
  { sname = name; prios = pr; deps = ds; is_mod = m; modifiable = mo }

let err_name = function
  | ESelfModify -> "ESelfModify" | EFinal -> "EFinal" | EAmbiguous -> "EAmbiguous"
  | EModifiedTwice -> "EModifiedTwice" | ECycle -> "ECycle" | EMissingDep -> "EMissingDep" | EFuel -> "EFuel"

(* a specifier is identified by name:first-property (defaults share the name 0) *)
let key (s:spec) = string_of_n s.sname ^ ":" ^ (match s.prios with (p, _) :: _ -> string_of_n p | [] -> "-")

let rec dedup_keys seen = function
  | [] -> []
  | (p, v) :: r -> if List.mem p seen then dedup_keys seen r else (p, v) :: dedup_keys (p :: seen) r

let handle (line:string) : string =
  toks := split_ws line;
  match next () with
  | "R" ->
      let fixed = next_bool () in
      let ns = next_int () in
      let specs = List.init ns (fun _ -> read_spec ()) in
      let nd = next_int () in
      let defaults = List.init nd (fun _ -> let p = next_n () in let s = read_spec () in (p, s)) in
      let finals = list_n () in
      (match resolve_gen fixed specs defaults finals with
       | Err e -> "ERR " ^ err_name e
       | OK r ->
           let props = dedup_keys [] r.r_props in
           let mods = dedup_keys [] r.r_mods in
           "OK P " ^ String.concat "," (List.map (fun (p, (s, _)) -> string_of_n p ^ "=" ^ key s) props)
           ^ " M " ^ String.concat "," (List.map (fun (p, s) -> string_of_n p ^ "=" ^ key s) mods)
           ^ " O " ^ String.concat "," (List.map key r.r_order))
  | "M" ->
      let nc = next_int () in
      let mro = List.init nc (fun _ ->
        let np = next_int () in
        List.init np (fun _ ->
          let p = next_n () in
          let ds = list_n () in
          let a = next_bool () in let d = next_bool () in let f = next_bool () in
          (p, { d_deps = ds; d_additive = a; d_dynamic = d; d_final = f }))) in
      (match merge_defaults mro with
       | OverridesFinal p -> "OVR " ^ string_of_n p
       | Merged (ds, fin, dyn) ->
           "OK D " ^ String.concat "," (List.map (fun (p, s) ->
                      string_of_n p ^ "=" ^ String.concat "+" (List.map string_of_n s.deps)) ds)
           ^ " F " ^ String.concat "," (List.map string_of_n fin)
           ^ " Y " ^ String.concat "," (List.map string_of_n dyn))
  | s -> failwith ("command " ^ s)

let () =
  try
    while true do
      let line = input_line stdin in
      (try print_endline (handle line) with Failure m -> print_endline ("FAIL " ^ m))
    done
  with End_of_file -> ()
