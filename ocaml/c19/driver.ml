(* Driver for the extracted C19 model: one dynamic program per line, all RNG paths per output line. *)
open Model
open Zio

let toks : string list ref = ref []
let next () = match !toks with t :: r -> toks := r; t | [] -> failwith "eof"
let next_int () = int_of_string (next ())
let next_nat () = nat_of_int (next_int ())
let next_z () = z_of_string (next ())
let next_list f = let n = next_int () in List.init n (fun _ -> f ())
let pos_of_z = function Zpos p -> p | _ -> XH
let next_q () : q =
  let s = next () in
  match String.split_on_char '/' s with
  | [a; b] -> { qnum = z_of_string a; qden = pos_of_z (z_of_string b) }
  | [a] -> { qnum = z_of_string a; qden = XH }
  | _ -> failwith "q"
let string_of_q (x:q) = let y = qred x in string_of_z y.qnum ^ "/" ^ string_of_pos_fast y.qden

let read_guard () : guard =
  match next () with
  | "T" -> GTrue | "F" -> GFalse
  | "GE" -> GTimeGe (next_nat ()) | "LT" -> GTimeLt (next_nat ())
  | "EQ" -> GTimeEq (next_nat ()) | "NE" -> GTimeNe (next_nat ())
  | s -> failwith ("guard " ^ s)

let read_opt () = let b = next_nat () in let w = next_q () in (b, w)

let read_bnd () : bnd = let c = next_q () in let kt = next_q () in let kx = next_q () in { bc = c; bkt = kt; bkx = kx }

let read_stmt () : stmt =
  match next () with
  | "TAKE" -> STake (next_z ())
  | "DRAW" -> let lo = read_bnd () in let hi = read_bnd () in let b = next_z () in SDrawTake (lo, hi, b)
  | "WRANGE" -> let lo = next_z () in let ws = next_list next_q in let b = next_z () in SWRangeTake (lo, ws, b)
  | "WDRAW" -> let ws = next_list next_q in let b = next_z () in SWDrawTake (ws, b)
  | "REQ" -> let p = next_q () in let t = next_z () in SRequire (p, t)
  | "DO" -> SDo (next_nat ())
  | "CHOOSE" -> SChoose (next_list read_opt)
  | "SHUFFLE" -> SShuffle (next_list read_opt)
  | s -> failwith ("stmt " ^ s)

let read_beh () : behavior = let g = read_guard () in let b = next_list read_stmt in { pre = g; body = b }

let string_of_label (l, k) =
  let k = string_of_int (int_of_nat k) in
  match l with
  | LRandint (lo, hi) -> "I," ^ string_of_z lo ^ "," ^ string_of_z hi ^ "," ^ k
  | LChoices cum -> "C," ^ String.concat ":" (List.map string_of_q cum) ^ "," ^ k
  | LBern p -> "B," ^ string_of_q p ^ "," ^ k
  | LChoice n -> "N," ^ string_of_z n ^ "," ^ k

let string_of_state (s : state) =
  let l = List.rev s.log in
  if l = [] then "-" else
  String.concat "," (List.map (fun (t, a) -> string_of_int (int_of_nat t) ^ ":" ^ string_of_z a) l)

let handle (line:string) : string =
  toks := split_ws line;
  match next () with
  | "RUN" ->
    let fm = (match next () with "behavior" -> FBehavior | "compose" -> FCompose | s -> failwith ("form " ^ s)) in
    let maxs = next_nat () in
    let p = next_list read_beh in
    let main = next_nat () in
    let ps = paths (run_program fm p maxs (nat_of_int 200) main) in
    String.concat " ; " (List.map (fun ((lg, pr), o) ->
      String.concat " " (List.map string_of_label lg) ^ " | " ^ string_of_q pr ^ " | " ^
      (match o with None -> "REJ" | Some s -> string_of_state s)) ps)
  | s -> failwith ("cmd " ^ s)

let () =
  try
    while true do
      let line = input_line stdin in
      (try print_endline (handle line) with Failure m -> print_endline ("FAIL " ^ m))
    done
  with End_of_file -> ()
