(* Driver for the extracted DynCore model: one simulation per input line (token stream), one JSON
   object per output line: {"kind":..,"time":..,"traj":..,"actions":[..],"events":[..]}. *)
open Model
open Zio

let toks : string list ref = ref []
let next () = match !toks with t :: r -> toks := r; t | [] -> failwith "eof"
let next_int () = int_of_string (next ())
let next_nat () = nat_of_int (next_int ())
let rd_list f = let n = next_int () in List.init n (fun _ -> f ())
let rd_q () =
  let n = z_of_string (next ()) in
  let d = match z_of_string (next ()) with Zpos p -> p | _ -> failwith "den" in
  { qnum = n; qden = d }
let rd_cond () = match next () with
  | "T" -> CConst true | "F" -> CConst false | "C" -> CTab (next_nat ())
  | s -> failwith ("cond " ^ s)
let rec rd_stmt () : stmt = match next () with
  | "MK" -> SMark (next_nat ())
  | "TK" -> STake (next_nat ())
  | "WT" -> SWait
  | "DO" -> SDo (next_nat ())
  | "DOF" -> let b = next_nat () in SDoFor (b, rd_q ())
  | "DOU" -> let b = next_nat () in SDoUntil (b, rd_cond ())
  | "WF" -> SWaitFor (rd_q ())
  | "WU" -> SWaitUntil (rd_cond ())
  | "DS" -> SDoScen (rd_list next_nat)
  | "DSF" -> let l = rd_list next_nat in SDoScenFor (l, rd_q ())
  | "DSU" -> let l = rd_list next_nat in SDoScenUntil (l, rd_cond ())
  | "TRY" -> let body = rd_stmts () in
             let hs = rd_list (fun () -> let c = rd_cond () in let b = rd_stmts () in (c, b)) in
             STry (body, hs)
  | "AB" -> SAbort | "BR" -> SBreak | "CO" -> SContinue | "RT" -> SReturn
  | "WH" -> let c = rd_cond () in SWhile (c, rd_stmts ())
  | "IF" -> let c = rd_cond () in let a = rd_stmts () in let b = rd_stmts () in SIf (c, a, b)
  | "TE" -> STerminate | "TS" -> STerminateSim
  | "RQ" -> SRequire (rd_cond ())
  | s -> failwith ("stmt " ^ s)
and rd_stmts () : stmt list = let n = next_int () in
  let rec go i = if i = 0 then [] else let s = rd_stmt () in s :: go (i - 1) in go n

let rec rd_formula () : formula = match next () with
  | "!" -> let p = rd_formula () in Not p
  | "&" -> let p = rd_formula () in let q = rd_formula () in And (p, q)
  | "|" -> let p = rd_formula () in let q = rd_formula () in Or (p, q)
  | ">" -> let p = rd_formula () in let q = rd_formula () in Implies (p, q)
  | "X" -> let p = rd_formula () in Next p
  | "U" -> let p = rd_formula () in let q = rd_formula () in Until (p, q)
  | "F" -> let p = rd_formula () in Eventually p
  | "G" -> let p = rd_formula () in Always p
  | t when String.length t >= 2 && t.[0] = 'a' -> Atom (nat_of_int (int_of_string (String.sub t 1 (String.length t - 1))))
  | t -> failwith ("formula token " ^ t)

let rd_behavior () =
  let pre = rd_list rd_cond in let inv = rd_list rd_cond in let body = rd_stmts () in
  { b_pre = pre; b_inv = inv; b_body = body }
let rd_scenario () =
  let pre = rd_list rd_cond in let inv = rd_list rd_cond in
  let lim = (match next () with "N" -> None | "Q" -> Some (rd_q ()) | s -> failwith ("lim " ^ s)) in
  let tw = rd_list rd_cond in let mons = rd_list next_nat in
  let reqs = rd_list next_nat in
  let comp = (match next () with "N" -> None | "Y" -> Some (rd_stmts ()) | s -> failwith ("comp " ^ s)) in
  let recs = rd_list next_nat in
  let tsim = rd_list (fun () -> let i = next_nat () in let c = rd_cond () in (i, c)) in
  { s_pre = pre; s_inv = inv; s_limit = lim; s_termwhen = tw; s_monitors = mons; s_reqs = reqs; s_compose = comp;
    s_records = recs; s_termsim = tsim }
let rd_program () =
  let bs = rd_list rd_behavior in
  let ms = rd_list rd_stmts in
  let ss = rd_list rd_scenario in
  let objs = rd_list (fun () -> let i = next_int () in if i < 0 then None else Some (nat_of_int i)) in
  let ri = rd_list next_nat in let rr = rd_list next_nat in let rf = rd_list next_nat in
  let ts = rd_list rd_cond in
  let rq = rd_list (fun () -> let f = rd_formula () in let cs = rd_list rd_cond in (f, cs)) in
  { p_behaviors = bs; p_monitors = ms; p_scenarios = ss; p_objects = objs;
    p_rec_init = ri; p_records = rr; p_rec_final = rf; p_termsim = ts; p_reqs = rq }
let rd_world () = rd_list (fun () -> rd_list (fun () -> next () = "1"))

let i n = string_of_int (int_of_nat n)
let js_list f l = "[" ^ String.concat "," (List.map f l) ^ "]"
let js_acts acts = js_list (fun (a, l) -> "[" ^ i a ^ "," ^ js_list i l ^ "]") acts
let js_event = function
  | EScenario (s, n) -> "[\"S\"," ^ i s ^ "," ^ i n ^ "]"
  | ETermWhen (s, n) -> "[\"TW\"," ^ i s ^ "," ^ i n ^ "]"
  | EReq (s, r, a) -> "[\"Q\"," ^ i s ^ "," ^ i r ^ "," ^ i a ^ "]"
  | ERecord r -> "[\"R\"," ^ i r ^ "]"
  | EMonitor (m, n) -> "[\"M\"," ^ i m ^ "," ^ i n ^ "]"
  | ETermCheck n -> "[\"TC\"," ^ i n ^ "]"
  | EBehavior (a, n) -> "[\"B\"," ^ i a ^ "," ^ i n ^ "]"
  | EActions acts -> "[\"A\"," ^ js_acts acts ^ "]"
  | ESimStep t -> "[\"X\"," ^ i t ^ "]"
  | EClock t -> "[\"K\"," ^ i t ^ "]"
  | EUpdate o -> "[\"U\"," ^ i o ^ "]"
let kind_name = function
  | RDone TScenarioComplete -> "scenarioComplete" | RDone TMonitor -> "terminatedByMonitor"
  | RDone TSimCond -> "simulationTerminationCondition" | RDone TTimeLimit -> "timeLimit"
  | RDone TBehavior -> "terminatedByBehavior"
  | RRejected -> "rejected" | RViolation true -> "PreconditionViolation"
  | RViolation false -> "InvariantViolation" | RStuck -> "stuck" | RError -> "error"
  | RSceneRejected -> "sceneRejected"

let handle (line : string) : string =
  toks := split_ws line;
  match next () with
  | "SIM" ->
      let qsub = (next () = "1") in let n = next_nat () in let fuel = next_nat () in
      let mx = next_int () in
      let p = rd_program () in
      let w = rd_world () in
      let perms = Array.of_list (rd_list (fun () -> rd_list next_nat)) in
      let dflt = agent_ids p in
      let sched t = let k = int_of_nat t in
        if Array.length perms = 0 then dflt else perms.(k mod Array.length perms) in
      let (res, evs) = simulate qsub n fuel p w (if mx < 0 then None else Some (nat_of_int mx)) sched in
      Printf.sprintf "{\"kind\":\"%s\",\"time\":%s,\"traj\":%s,\"actions\":%s,\"events\":%s}"
        (kind_name res.r_kind) (i res.r_time) (i res.r_traj)
        (js_list js_acts res.r_actions) (js_list js_event evs)
  | s -> failwith ("command " ^ s)

let () =
  try
    while true do
      let line = input_line stdin in
      (try print_string (handle line) with e -> print_string ("{\"kind\":\"driver-error\",\"msg\":\"" ^ String.escaped (Printexc.to_string e) ^ "\"}"));
      print_newline ()
    done
  with End_of_file -> ()
