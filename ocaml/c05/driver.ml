(* Driver for the extracted C05 model: one command per line, one result line per command.
   E <fixed_radd> <fdiv> <fixed_sup> | tau | sigma | expr
     -> <py> | <cap kind> | <cap value> | <support> *)
open Model
open Zio

let toks : string list ref = ref []
let next () = match !toks with t :: r -> toks := r; t | [] -> failwith "eof"
let next_int () = int_of_string (next ())
let next_z () = z_of_string (next ())
let next_pos () = match next_z () with Zpos p -> p | _ -> failwith "positive expected"
let next_q () = let n = next_z () in let d = next_pos () in { qnum = n; qden = d }
let next_bool () = next () = "1"
let rec read_n n f = if n <= 0 then [] else let x = f () in x :: read_n (n - 1) f

let read_sc () : sc =
  match next () with
  | "I" -> SInt (next_z ())
  | "F" -> SFloat (next_q ())
  | "B" -> SBool (next_bool ())
  | "N" -> SNone
  | s -> failwith ("sc " ^ s)
let read_val () : val0 =
  match next () with
  | "T" -> let k = next_int () in VTup (read_n k read_sc)
  | "L" -> let k = next_int () in VLst (read_n k read_sc)
  | t -> toks := t :: !toks; VS (read_sc ())

let binop_of = function "add" -> Add | "sub" -> Sub | "mul" -> Mul | "div" -> Div
  | "fdiv" -> FloorDiv | "mod" -> Mod | s -> failwith ("binop " ^ s)
let unop_of = function "neg" -> Neg | "pos" -> Pos | "abs" -> Abs | s -> failwith ("unop " ^ s)
let fn_of = function "max" -> FMax | "min" -> FMin | s -> failwith ("fn " ^ s)

let rec read_expr () : expr =
  match next () with
  | "leaf" -> ELeaf (nat_of_int (next_int ()))
  | "range" -> let i = next_int () in let a = read_expr () in let b = read_expr () in ERange (nat_of_int i, a, b)
  | "drange" -> let i = next_int () in let a = read_expr () in let b = read_expr () in EDRange (nat_of_int i, a, b)
  | "tnorm" -> let i = next_int () in let a = next_q () in let b = next_q () in ETNorm (nat_of_int i, a, b)
  | "const" -> EConst (read_val ())
  | "un" -> let o = unop_of (next ()) in EUn (o, read_expr ())
  | "pow" -> let n = next_int () in EUn (PowN (nat_of_int n), read_expr ())
  | "bin" -> let o = binop_of (next ()) in let a = read_expr () in let b = read_expr () in EBin (o, a, b)
  | "seq" -> let il = next_bool () in let k = next_int () in ESeq (il, read_items k)
  | "idx" -> let a = read_expr () in let i = read_expr () in EIdx (a, i)
  | "mux" -> let s = next_int () in let k = next_int () in EMux (nat_of_int s, read_items k)
  | "call" -> let f = fn_of (next ()) in let k = next_int () in ECall (f, read_items k)
  | s -> failwith ("expr " ^ s)
and read_items k : exprs =
  if k <= 0 then ENil else
  match next () with
  | "p" -> let e = read_expr () in ECons (e, read_items (k - 1))
  | "s" -> let e = read_expr () in EStar (e, read_items (k - 1))
  | s -> failwith ("item " ^ s)

let read_v3 () = let x = next_q () in let y = next_q () in let z = next_q () in { vx = x; vy = y; vz = z }
let read_sx () : sx = match next () with
  | "sc" -> SC (next_q ()) | "sl" -> SL (nat_of_int (next_int ())) | s -> failwith ("sx " ^ s)
let read_rx () : rx = match next () with
  | "rc" -> let c = next_q () in let s = next_q () in RC (c, s)
  | "rl" -> let i = next_int () in let j = next_int () in RL (nat_of_int i, nat_of_int j)
  | s -> failwith ("rx " ^ s)
let rec read_vexpr () : vexpr =
  match next () with
  | "c" -> EC (read_v3 ())
  | "r" -> ER (nat_of_int (next_int ()))
  | "d" -> ED (nat_of_int (next_int ()))
  | "g" -> EG (nat_of_int (next_int ()))
  | "bin" -> let sub = next_bool () in let a = read_vexpr () in let b = read_vexpr () in EVBin (sub, a, b)
  | "rel" -> let a = read_vexpr () in let b = read_vexpr () in ERel (a, b)
  | "tl" -> let sub = next_bool () in let t = read_v3 () in let b = read_vexpr () in ETL (sub, t, b)
  | "tr" -> let sub = next_bool () in let a = read_vexpr () in let t = read_v3 () in ETR (sub, a, t)
  | "mul" -> let a = read_vexpr () in let k = read_sx () in EMul (a, k)
  | "rmul" -> let k = read_sx () in let a = read_vexpr () in ERMul (k, a)
  | "div" -> let a = read_vexpr () in let k = read_sx () in EDiv (a, k)
  | "rot" -> let a = read_vexpr () in let r = read_rx () in ERot (a, r)
  | s -> failwith ("vexpr " ^ s)

let string_of_q (q : q) : string = let r = qred q in string_of_z r.qnum ^ "/" ^ string_of_z (Zpos r.qden)
let string_of_sc = function
  | SInt z -> "I " ^ string_of_z z
  | SFloat q -> "F " ^ string_of_q q
  | SBool b -> "B " ^ (if b then "1" else "0")
  | SNone -> "N"
let string_of_val = function
  | VS s -> string_of_sc s
  | VTup l -> "T " ^ string_of_int (List.length l) ^ " " ^ String.concat " " (List.map string_of_sc l)
  | VLst l -> "L " ^ string_of_int (List.length l) ^ " " ^ String.concat " " (List.map string_of_sc l)
let exc_name = function TypeErr -> "TypeError" | ZeroDiv -> "ZeroDivisionError" | IndexErr -> "IndexError"
  | AttrErr -> "AttributeError" | Unsup -> "Unsup" | RandIdx -> "RandIdx"
let string_of_res = function ROk v -> "OK " ^ string_of_val v | RErr x -> "ERR " ^ exc_name x
let string_of_oq = function None -> "None" | Some q -> string_of_q q

let handle (line : string) : string =
  toks := split_ws line;
  match next () with
  | "E" ->
      let fixed = next_bool () in let fdiv = next_bool () in let fsup = next_bool () in
      let _ = next () in
      let k = next_int () in let tl = read_n k next_int in
      let tau (i : nat) = List.mem (int_of_nat i) tl in
      let _ = next () in
      let m = next_int () in
      let tbl = Hashtbl.create 16 in
      for _ = 1 to m do let i = next_int () in let v = read_val () in Hashtbl.replace tbl i v done;
      let sigma (i : nat) = try Hashtbl.find tbl (int_of_nat i) with Not_found -> VS SNone in
      let _ = next () in
      let e = read_expr () in
      let py = eval_py sigma e in
      let c = capture tau true fdiv e in
      let kind = (match c with CV _ -> "CV" | CE _ -> "CE" | CN _ -> "CN" | CT (_, _) -> "CT") in
      let cv = eval_cap fixed sigma c in
      let sup = (match c with
        | CE _ -> "NA"
        | _ -> (match support fsup (node_of c) with
                | None -> "RAISE"
                | Some (l, u) -> "SUP " ^ string_of_oq l ^ " " ^ string_of_oq u)) in
      string_of_res py ^ " | " ^ kind ^ " | " ^ string_of_res cv ^ " | " ^ sup
  | "H" ->   (* hypot support on squares: H fixed k (lnum lden unum uden)* *)
      let fixed = next_bool () in
      let k = next_int () in
      let ss = read_n k (fun () -> let l = next_q () in let u = next_q () in (l, u)) in
      let (a, b) = if fixed then hypot_support_fixed2 ss else hypot_support_asis2 ss in
      string_of_q a ^ " " ^ string_of_q b
  | "V" ->   (* V fixed | nvec (i x y z)* | nscal (i q)* | vexpr  ->  <plain python> | <capture + sampleGiven> *)
      let fixed = next_bool () in
      let _ = next () in
      let k = next_int () in
      let vt = Hashtbl.create 16 in
      for _ = 1 to k do
        let i = next_int () in let x = next_q () in let y = next_q () in let z = next_q () in
        Hashtbl.replace vt i { vx = x; vy = y; vz = z } done;
      let _ = next () in
      let m = next_int () in
      let st = Hashtbl.create 16 in
      for _ = 1 to m do let i = next_int () in let q = next_q () in Hashtbl.replace st i q done;
      let _ = next () in
      let zq = { qnum = Z0; qden = XH } in
      let sigma (i : nat) = try Hashtbl.find vt (int_of_nat i) with Not_found -> { vx = zq; vy = zq; vz = zq } in
      let rho (i : nat) = try Hashtbl.find st (int_of_nat i) with Not_found -> zq in
      let e = read_vexpr () in
      let sv = function None -> "ZERO" | Some v -> "OK " ^ string_of_q v.vx ^ " " ^ string_of_q v.vy ^ " " ^ string_of_q v.vz in
      let spec = sv (veval sigma rho e) in
      let cap = (match vcap fixed vzero_all e with
        | COk n -> sv (nev sigma rho n) ^ " " ^ (match cls_of n with CConst -> "const" | CVec -> "vec" | CDist -> "vdist" | COpd -> "opd")
        | CZero -> "ZERO"
        | CAttr -> "ATTR") in
      spec ^ " | " ^ cap
  | s -> failwith ("cmd " ^ s)

let () =
  try while true do
    let line = input_line stdin in
    (try print_endline (handle line) with Failure m -> print_endline ("FAIL " ^ m))
  done with End_of_file -> ()
