(* Driver for the extracted C07 model: one case per line "kind n1/d1 n2/d2 ..." -> "n1/d1 ..." *)
open Model
open Zio

let q_of_string (s:string) : q =
  match String.index_opt s '/' with
  | None -> { qnum = z_of_string s; qden = XH }
  | Some i ->
    let n = z_of_string (String.sub s 0 i) in
    let d = z_of_string (String.sub s (i+1) (String.length s - i - 1)) in
    (match d with Zpos p -> { qnum = n; qden = p } | _ -> failwith "denominator")

let string_of_q (x:q) : string = string_of_z x.qnum ^ "/" ^ string_of_pos_fast x.qden

let handle (line:string) : string =
  match split_ws line with
  | k :: args -> String.concat " " (List.map string_of_q (run_case (nat_of_int (int_of_string k)) (List.map q_of_string args)))
  | [] -> failwith "empty"

let () =
  try while true do
    let line = input_line stdin in
    (try print_endline (handle line) with Failure m -> print_endline ("FAIL " ^ m))
  done with End_of_file -> ()
