(* Driver for the extracted C02 model: one command per input line, one result per output line.
   INIT B n                         -> fresh checker state for n requirements, buffer size B
   STEP n (opt act fals)*n k d*k    -> "order | verdict | acc:time ..." and advances the state
   DEF / DEF1 <scenario>            -> default requirement list (repaired / one-shot iterator) *)
open Model
open Zio

let toks : string list ref = ref []
let next () = match !toks with t :: r -> toks := r; t | [] -> failwith "eof"
let next_int () = int_of_string (next ())
let next_nat () = nat_of_int (next_int ())

(* exact double -> Q and certificate input (same format as ocaml/c04/driver.ml) *)
let rec pos_shift (p:positive) (k:int) : positive = if k <= 0 then p else pos_shift (XO p) (k-1)
let q_of_float (f:float) : q =
  if f = 0.0 || Float.is_nan f then { qnum = Z0; qden = XH }
  else if Float.is_integer f && Float.abs f < 1e15 then { qnum = z_of_string (Printf.sprintf "%.0f" f); qden = XH }
  else
    let (m, e) = Float.frexp f in
    let mi = Int64.of_float (Float.ldexp m 53) in
    let zi = z_of_string (Int64.to_string mi) in
    let k = e - 53 in
    if k >= 0 then
      { qnum = (match zi with Z0 -> Z0 | Zpos p -> Zpos (pos_shift p k) | Zneg p -> Zneg (pos_shift p k)); qden = XH }
    else { qnum = zi; qden = pos_shift XH (-k) }
let next_q () = q_of_float (float_of_string (next ()))
let next_vec () = let x = next_q () in let y = next_q () in let z = next_q () in { vx = x; vy = y; vz = z }
let rec times n f = if n <= 0 then [] else let x = f () in x :: times (n-1) f
let verts () = let n = next_int () in times n next_vec
let weights () =
  let n = next_int () in
  let ws = times n next_q in
  let s = List.fold_left qplus { qnum = Z0; qden = XH } ws in
  if s.qnum = Z0 then ws else List.map (fun w -> qred (qdiv w s)) ws

let bsize = ref O
let state : rstate list ref = ref []
let nreq = ref 0

let ids l = String.concat "," (List.map (fun i -> string_of_int (int_of_nat i)) l)
let ids_or_dash l = match l with [] -> "-" | _ -> ids l

let string_of_dreq = function
  | RBlanket os -> "B " ^ ids_or_dash os
  | RInter (a, b) -> Printf.sprintf "I %d %d" (int_of_nat a) (int_of_nat b)
  | RContain o -> Printf.sprintf "C %d" (int_of_nat o)
  | RVis (s, t, occ) -> Printf.sprintf "V %d %d %s" (int_of_nat s) (int_of_nat t) (ids_or_dash occ)
  | RNotVis (s, t, occ) -> Printf.sprintf "N %d %d %s" (int_of_nat s) (int_of_nat t) (ids_or_dash occ)

let tri_of_int = function 0 -> TFalse | 1 -> TTrue | _ -> TRandom
let opt_of_int i = if i < 0 then None else Some (nat_of_int i)

let read_scen () : scen =
  let ni = next_int () in let is = List.init ni (fun _ -> next_nat ()) in
  let no = next_int () in let os = List.init no (fun _ -> next_nat ()) in
  let e = opt_of_int (next_int ()) in
  let nf = next_int () in
  let tbl = Hashtbl.create 16 in
  for _ = 1 to nf do
    let id = next_int () in
    let allow = tri_of_int (next_int ()) in
    let cont = next_int () = 1 in
    let obs = opt_of_int (next_int ()) in
    let nobs = opt_of_int (next_int ()) in
    let rv = next_int () = 1 in
    let occl = tri_of_int (next_int ()) in
    Hashtbl.replace tbl id { allow_coll = allow; has_container = cont; observing = obs;
                             non_observing = nobs; require_visible = rv; occluding = occl }
  done;
  let dflt = { allow_coll = TFalse; has_container = false; observing = None; non_observing = None;
               require_visible = false; occluding = TFalse } in
  { insts = is; objs = os; ego = e;
    fl = (fun i -> try Hashtbl.find tbl (int_of_nat i) with Not_found -> dflt) }

let handle (line : string) : string =
  toks := split_ws line;
  match next () with
  | "INIT" ->
      let b = next_int () in let n = next_int () in
      bsize := nat_of_int b; nreq := n; state := init_state !bsize (nat_of_int n); "ok"
  | "STEP" ->
      let n = next_int () in
      let flags = Array.init n (fun _ -> let o = next_int () in let a = next_int () in let f = next_int () in (o, a, f)) in
      let k = next_int () in
      let durs = List.init k (fun _ -> z_of_string (next ())) in
      let rs = List.init n (fun i -> let (o, a, _) = flags.(i) in { rid = nat_of_int i; optional = (o = 1); active = (a = 1) }) in
      let s (i : nat) = let j = int_of_nat i in j < n && (let (_, _, f) = flags.(j) in f = 1) in
      let order = sorted_requirements !bsize !state rs in
      let (st', v) = check !bsize !state rs s durs in
      state := st';
      let vs = match v with Accept -> "accept" | Reject r -> "reject " ^ string_of_int (int_of_nat r) in
      let sums = String.concat " " (List.init n (fun i ->
        let (a, t) = (get st' (nat_of_int i)).sums in string_of_z a ^ ":" ^ string_of_z t)) in
      ids_or_dash (List.map (fun r -> r.rid) order) ^ " | " ^ vs ^ " | " ^ sums
  | "BASIC" ->   (* BASIC icc n (opt act fals blanket inter)*n *)
      let icc = next_int () = 1 in
      let n = next_int () in
      let fl = Array.init n (fun _ -> let o = next_int () in let a = next_int () in let f = next_int () in
                                      let b = next_int () in let i = next_int () in (o, a, f, b, i)) in
      let rs = List.init n (fun i -> let (o, a, _, b, it) = fl.(i) in
        { b_req = { rid = nat_of_int i; optional = (o = 1); active = (a = 1) }; b_blanket = (b = 1); b_inter = (it = 1) }) in
      let s (i : nat) = let j = int_of_nat i in j < n && (let (_, _, f, _, _) = fl.(j) in f = 1) in
      (match basic_check icc rs s with Accept -> "accept" | Reject r -> "reject " ^ string_of_int (int_of_nat r))
  | "SEP" -> let n = next_vec () in let d = next_q () in let m = next_q () in
             let a = verts () in let b = verts () in if separates n d m a b then "1" else "0"
  | "COM" -> let e = next_q () in let la = weights () in let a = verts () in
             let mu = weights () in let b = verts () in if common_point e la mu a b then "1" else "0"
  | "DEF" ->
      (match default_requirements (read_scen ()) with
       | None -> "INVALID"
       | Some l -> String.concat ";" (List.map string_of_dreq l))
  | "DEF1" ->
      (match default_requirements_oneshot (read_scen ()) with
       | None -> "INVALID"
       | Some l -> String.concat ";" (List.map string_of_dreq l))
  | s -> failwith ("cmd " ^ s)

let () =
  try while true do
    let line = input_line stdin in
    (try print_endline (handle line) with Failure m -> print_endline ("FAIL " ^ m))
  done with End_of_file -> ()
