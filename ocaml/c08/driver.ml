(* Driver for the extracted C08 model: one command per line. *)
open Model
open Zio

let toks : string list ref = ref []
let next () = match !toks with t :: r -> toks := r; t | [] -> failwith "eof"
let next_int () = int_of_string (next ())
let next_z () = z_of_string (next ())
let next_pos () = match next_z () with Zpos p -> p | _ -> failwith "positive expected"
let next_q () = let n = next_z () in let d = next_pos () in { qnum = n; qden = d }
let next_oq () = match next () with "None" -> None | t -> toks := t :: !toks; Some (next_q ())

let rec read_term () : term =
  match next () with
  | "c" -> TConst (next_q ())
  | "a" -> TAtom (nat_of_int (next_int ()))
  | "abs" -> TAbs (read_term ())
  | "add" -> let a = read_term () in let b = read_term () in TAdd (a, b)
  | "sub" -> let a = read_term () in let b = read_term () in TSub (a, b)
  | "o" -> TOther (nat_of_int (next_int ()))
  | s -> failwith ("term " ^ s)
let op_of = function "lt" -> Lt0 | "le" -> LtE | "gt" -> Gt0 | "ge" -> GtE | "eq" -> Eq0 | "ne" -> NotEq
  | "is" -> Is | "isnot" -> IsNot | "in" -> In_ | "notin" -> NotIn | s -> failwith ("op " ^ s)

let sq (q : q) = let r = qred q in string_of_z r.qnum ^ "/" ^ string_of_z (Zpos r.qden)
let soq = function None -> "None" | Some q -> sq q

let handle (line : string) : string =
  toks := split_ws line;
  match next () with
  | "MB" ->   (* MB strict pi_num pi_den left k (op term)* *)
      let strict = next () = "1" in
      let pi = next_q () in
      let left = read_term () in
      let k = next_int () in
      let rec rd n = if n <= 0 then [] else let o = op_of (next ()) in let t = read_term () in (o, t) :: rd (n - 1) in
      let rest = rd k in
      (match match_bounds strict { c_left = left; c_rest = rest } with
       | None -> "INCONSISTENT"
       | Some tab ->
           let item (t, (lo, hi)) =
             let d = (match dist_clamp (lo, hi) with None -> "skip" | Some (l, u) -> sq l ^ "," ^ soq u) in
             let r = (match rh_clamp pi (lo, hi) with None -> "skip" | Some (l, u) -> sq l ^ "," ^ sq u) in
             string_of_int (int_of_nat t) ^ " " ^ soq lo ^ " " ^ soq hi ^ " " ^ d ^ " " ^ r in
           "OK " ^ String.concat " ; " (List.map item tab))
  | "RH" ->
      let pi = next_q () in let bh = next_q () in let ol = next_q () in let orr = next_q () in
      let th = next_q () in let tl = next_q () in let tr = next_q () in
      let (a, b) = rh_range pi bh ol orr th tl tr in sq a ^ " " ^ sq b
  | "EI" -> let m = next_q () in let h = next_q () in string_of_z (erode_iterations m h)
  | "BI" -> let m = next_q () in let p = next_q () in let e = next_q () in
      string_of_z (buffer_iterations_asis m p) ^ " " ^ string_of_z (buffer_iterations_fixed m p e)
  | "MD" ->   (* MD ego n {vd cam rad reqvis observer}*n {k {target upper}*k}*n i j *)
      let ego = nat_of_int (next_int ()) in
      let n = next_int () in
      let rec rdo k = if k <= 0 then [] else
        let vd = next_oq () in let cam = next_oq () in let rad = next_oq () in
        let rv = next () = "1" in
        let ob = (match next () with "None" -> None | t -> Some (nat_of_int (int_of_string t))) in
        let o = { vd_up = vd; cam_hyp = cam; rad_up = rad; req_vis = rv; observer = ob } in o :: rdo (k - 1) in
      let objs = rdo n in
      let rec rdr k = if k <= 0 then [] else
        let m = next_int () in
        let rec rr m = if m <= 0 then [] else let t = nat_of_int (next_int ()) in let u = next_oq () in (t, u) :: rr (m - 1) in
        let l = rr m in l :: rdr (k - 1) in
      let rels = rdr n in
      let i = nat_of_int (next_int ()) in let j = nat_of_int (next_int ()) in
      let show = function EInf -> "INF" | EErr -> "ERR" | EFin q -> sq q in
      show (max_distance_between false ego objs rels i j) ^ " " ^ show (max_distance_between true ego objs rels i j)
  | "RO" ->   (* RO pi lo hi lowerBound upperBound -> asis fixed *)
      let pi = next_q () in let lo = next_q () in let hi = next_q () in let lb = next_q () in let ub = next_q () in
      (if rh_overlap (lo, hi) lb ub then "1" else "0") ^ " " ^ (if rh_overlap_fixed pi (lo, hi) lb ub then "1" else "0")
  | "BB" ->   (* BB b n {lo hi}*n -> mid ext per axis: the BoxRegion of _bufferOverapproximate's fast path *)
      let b = next_q () in let n = next_int () in
      let rec rd k = if k <= 0 then [] else let lo = next_q () in let hi = next_q () in (lo, hi) :: rd (k - 1) in
      let bounds = rd n in
      String.concat " " (List.map (fun (m, e) -> sq m ^ " " ^ sq e) (buffer_box bounds b))
  | "VB" -> let a = next_q () in let b = next_q () in let c = next_q () in sq (visibility_bound a b c)
  | s -> failwith ("cmd " ^ s)

let () =
  try while true do
    let line = input_line stdin in
    (try print_endline (handle line) with Failure m -> print_endline ("FAIL " ^ m))
  done with End_of_file -> ()
